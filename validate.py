#!/usr/bin/env python3
"""Validate MANIFEST.json and evidence/*.json against the schemas in /root/.vp (run with python3-vt)."""
import json, sys, glob, os
import jsonschema
root=os.path.dirname(os.path.abspath(__file__))
ok=True
ms=json.load(open('/root/.vp/MANIFEST.schema.json')); es=json.load(open('/root/.vp/EVIDENCE.schema.json'))
m=json.load(open(f'{root}/MANIFEST.json'))
try:
    jsonschema.validate(m, ms); print("MANIFEST ok:", len(m['checks']), "checks,", len(m.get('not_applicable',[])), "not_applicable")
except Exception as e:
    ok=False; print("MANIFEST INVALID:", e)
props=[json.loads(l)['id'] for l in open(f'{root}/properties.jsonl')]
claimed={c['property_id'] for c in m['checks']}; na={n['property_id'] for n in m.get('not_applicable',[])}
for p in props:
    if (p in claimed)==(p in na): ok=False; print("property", p, "claimed/not_applicable mismatch")
for f in sorted(glob.glob(f'{root}/evidence/*.json')):
    try:
        e=json.load(open(f)); jsonschema.validate(e, es)
        c=e['coverage']; print(os.path.basename(f), "ok", e['tier'], "eval", c.get('evaluations'), "distinct", c.get('distinct_nontrivial'), "viol", e.get('violations'))
    except Exception as ex:
        ok=False; print(f, "INVALID:", str(ex)[:300])
sys.exit(0 if ok else 1)
