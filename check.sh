#!/bin/bash
# check.sh <CNN> <quick|thorough>
# Rebuilds the harness (and with it the jsonrpsee crates, from /repo's current working tree, hooks on),
# then runs one property's check. Exit 0 = held, 1 = VIOLATION line printed, 2 = inconclusive (build failure, hang, budget).
set -u
ROOT=$(cd "$(dirname "$0")" && pwd)
ID=${1:?property id}
TIER=${2:-${VERIF_TIER:-quick}}
export CARGO_NET_OFFLINE=true
export VERIF_ROOT="${VERIF_ROOT_OVERRIDE:-$ROOT}"
cd "$ROOT/harness" || exit 2
exec 9>"$ROOT/harness/.build.lock"
flock 9
if ! cargo build --release --offline >"$ROOT/harness/build.log" 2>&1; then
	# the hook itself may have been broken by an unrelated edit of /repo: fall back to a hook-free build
	if ! cargo build --release --offline --no-default-features >"$ROOT/harness/build.log" 2>&1; then
		echo "INCONCLUSIVE property=$ID: harness does not build against /repo's working tree (see harness/build.log)"
		tail -n 30 "$ROOT/harness/build.log"
		exit 2
	fi
	echo "note: built without the verif-hooks feature (hook build failed)"
fi
flock -u 9
exec "$ROOT/harness/target/release/verif" check "$ID" --tier "$TIER"
