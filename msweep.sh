#!/bin/bash
# msweep.sh <patch.diff> <CNN> [CNN...] — like mutant.sh but fully isolated: applies the patch to a scratch worktree of /repo
# ($SB/repo, SB=${MSB:-/tmp/msb}) and runs a scratch copy of the harness ($SB/verif) built against it. /repo and /verif are not touched.
set -u
PATCH=$(readlink -f "$1"); shift
SB=${MSB:-/tmp/msb}
mkdir -p $SB
if [ ! -d $SB/repo ]; then git -C /repo worktree add -q --detach $SB/repo HEAD || exit 2; fi
cd $SB/repo && git checkout -q --detach $(git -C /repo rev-parse HEAD) && git checkout -q -- . && git clean -fdq -e target
if ! git apply --check "$PATCH" 2>/dev/null; then echo "patch does not apply: $PATCH"; exit 2; fi
git apply "$PATCH"
mkdir -p $SB/verif
rsync -a --delete --exclude target --exclude .git --exclude evidence --exclude replays /verif/ $SB/verif/
sed -i "s|\"/repo/|\"$SB/repo/|g" $SB/verif/harness/Cargo.toml
for ID in "$@"; do
	OUT=$(cd $SB/verif && ./check.sh "$ID" ${TIER:-quick} 2>&1)
	RC=$?
	echo "$ID exit=$RC $(echo "$OUT" | grep -m1 -E 'VIOLATION|INCONCLUSIVE' || echo "$OUT" | tail -1)"
	echo "$OUT" | grep -E "violation in" | head -2 | cut -c1-300
done
cd $SB/repo && git checkout -q -- . && git clean -fdq -e target
