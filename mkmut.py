#!/usr/bin/env python3
"""mkmut.py <out.diff> <file> <old> <new> [<file> <old> <new> ...] — make a patch for /repo by literal replacement (first occurrence), without leaving /repo modified."""
import sys, subprocess
out=sys.argv[1]; args=sys.argv[2:]
assert len(args)%3==0
orig={}
try:
    for i in range(0,len(args),3):
        f,old,new=args[i:i+3]
        p='/repo/'+f
        s=open(p).read()
        orig.setdefault(p,s)
        assert old in s, f"pattern not found in {f}: {old!r}"
        open(p,'w').write(s.replace(old,new,1))
    d=subprocess.run(['git','-C','/repo','diff'],capture_output=True,text=True).stdout
    open(out,'w').write(d)
    print("wrote",out,len(d.splitlines()),"lines")
finally:
    for p,s in orig.items(): open(p,'w').write(s)
