//! C10 — graceful stop answers received calls and reports stopped only when done.
//! S-mem (deterministic, paused clock): `stop_channel` + `serve_with_graceful_shutdown` over in-memory duplexes.
//! S-tcp (real clock): `Server::start`'s accept loop; only hard facts count, a missed wall budget is inconclusive.

use crate::engine::*;
use crate::fix::server::*;
use futures_util::FutureExt;
use proptest::prelude::*;
use serde::{Deserialize, Serialize};
use serde_json::{Value, json};
use std::time::Duration;
use tokio::io::{AsyncReadExt, AsyncWriteExt};

#[derive(Clone, Debug, Serialize, Deserialize, PartialEq)]
pub enum G {
	OpenWs,
	OpenHttp,
	/// kind: 0 gated_async, 1 gated_blocking, 2 echo_async, 3 echo_blocking, 4 echo_sync
	Call { conn: u16, kind: u8 },
	SubscribeAccept { conn: u16 },
	Release(u16),
	Stop,
	PeerClose { conn: u16, abrupt: bool },
	PauseRead { conn: u16 },
	ResumeRead { conn: u16 },
}

#[derive(Clone, Debug, Serialize, Deserialize)]
pub struct C10Case {
	pub steps: Vec<(G, bool)>,
	pub buf: u32,
	/// server WebSocket pings enabled (the peer answers with pongs while it is reading)
	#[serde(default)]
	pub ping: bool,
}

enum Peer {
	Ws(WsPeer),
	Http { io: tokio::io::DuplexStream, received: Vec<u8>, eof: bool },
}

struct ConnS {
	peer: Peer,
	closed_by_harness: bool,
	/// (token / id, gated)
	calls: Vec<(String, bool)>,
	texts: Vec<String>,
}

pub struct StopMem;

fn call_text(kind: u8, id: &str) -> String {
	match kind % 5 {
		0 => format!(r#"{{"jsonrpc":"2.0","id":"{id}","method":"gated_async","params":["{id}"]}}"#),
		1 => format!(r#"{{"jsonrpc":"2.0","id":"{id}","method":"gated_blocking","params":["{id}"]}}"#),
		2 => format!(r#"{{"jsonrpc":"2.0","id":"{id}","method":"echo_async","params":["{id}"]}}"#),
		3 => format!(r#"{{"jsonrpc":"2.0","id":"{id}","method":"echo_blocking","params":["{id}"]}}"#),
		_ => format!(r#"{{"jsonrpc":"2.0","id":"{id}","method":"echo_sync","params":["{id}"]}}"#),
	}
}

fn http_request(body: &str) -> String {
	format!("POST / HTTP/1.1\r\nHost: localhost\r\nContent-Type: application/json\r\nContent-Length: {}\r\n\r\n{body}", body.len())
}

/// handlers that have started but not finished, by token
fn unfinished(log: &[Invocation]) -> Vec<String> {
	let mut open: Vec<String> = vec![];
	for l in log {
		// only method calls count: a subscription handler keeps running after its subscribe call was answered
		if !l.name.starts_with("gated_") {
			continue;
		}
		let tok = l.params.clone().unwrap_or_default();
		match l.phase {
			"started" => open.push(tok),
			"finished" => {
				if let Some(p) = open.iter().position(|t| *t == tok) {
					open.remove(p);
				}
			}
			_ => {}
		}
	}
	open
}

async fn run_mem(case: &C10Case, obs: &mut Obs) {
	crate::panics::clear_local();
	// with pings every barrier (1 h of the paused clock) lets several ping/pong rounds happen, also during a graceful
	// shutdown; the inactivity limit itself is measured on the real clock by the server and never fires here
	let ping = if case.ping && !case.steps.iter().any(|(g, _)| matches!(g, G::PauseRead { .. })) { Some((900, 1_000_000)) } else { None };
	let fix = Fixture::new(Cfg { buffer_capacity: case.buf.max(1), ping, ..Cfg::default() });
	let Fixture { ctx, methods, builder, stop, handle, .. } = fix;
	let mut stop = Some(stop);
	let mut conns: Vec<ConnS> = vec![];
	let mut stopped_task = tokio::spawn(handle.clone().stopped());
	let mut stop_issued = false;
	let mut n = 0u32;
	let mut executing_at_stop = 0usize;
	let mut fails: Vec<(String, String)> = vec![];
	let mut gated_tokens: Vec<String> = vec![];
	let check_stopped = |stopped_task: &tokio::task::JoinHandle<()>, ctx: &HCtx, conns: &[ConnS], fails: &mut Vec<(String, String)>, at: &str| {
		if stopped_task.is_finished() {
			// handlers of calls whose client has disconnected are exempt ("unless that client disconnects first")
			let gone: Vec<String> = conns.iter().filter(|c| c.closed_by_harness).flat_map(|c| c.calls.iter().map(|(id, _)| format!("\"{id}\""))).collect();
			let open: Vec<String> = unfinished(&ctx.log.lock()).into_iter().filter(|t| !gone.iter().any(|g| t.contains(g))).collect();
			if !open.is_empty() {
				fails.push(("c10/stopped-before-handlers-finished".into(), format!("{at}: stopped() has resolved while handlers {open:?} are still executing")));
			}
		}
	};
	for (si, (g, settle_after)) in case.steps.iter().enumerate() {
		match g {
			G::OpenWs => {
				if conns.len() < 3 && !stop_issued {
					if let Some(s) = &stop {
						if let Ok(ws) = ws_on(&builder, &methods, s, 512).await {
							conns.push(ConnS { peer: Peer::Ws(ws), closed_by_harness: false, calls: vec![], texts: vec![] });
						}
					}
				}
			}
			G::OpenHttp => {
				if conns.len() < 3 && !stop_issued {
					if let Some(s) = &stop {
						let (io, _t) = raw_conn_on(&builder, &methods, s, 2048);
						conns.push(ConnS { peer: Peer::Http { io, received: vec![], eof: false }, closed_by_harness: false, calls: vec![], texts: vec![] });
					}
				}
			}
			G::Call { conn, kind } => {
				if conns.is_empty() {
					continue;
				}
				let ci = pick_idx(*conn, conns.len());
				if conns[ci].closed_by_harness {
					continue;
				}
				// one request at a time on an HTTP/1.1 connection
				if matches!(conns[ci].peer, Peer::Http { .. }) && conns[ci].calls.iter().any(|(t, g)| *g && gated_tokens.contains(t)) {
					continue;
				}
				n += 1;
				let id = format!("k{n}");
				// a blocking handler that waits on a harness gate would keep the paused clock from advancing (the
				// run-until-idle barrier waits for blocking tasks): gated blocking handlers are exercised over TCP only
				let kind = if kind % 5 == 1 { 0 } else { *kind };
				let gated = kind % 5 < 2;
				let text = call_text(kind, &id);
				match &mut conns[ci].peer {
					Peer::Ws(ws) => {
						let _ = ws.send_text(&text).await;
					}
					Peer::Http { io, .. } => {
						let _ = io.write_all(http_request(&text).as_bytes()).now_or_never();
					}
				}
				conns[ci].calls.push((id.clone(), gated));
				if gated {
					gated_tokens.push(id);
				}
			}
			G::SubscribeAccept { conn } => {
				if conns.is_empty() {
					continue;
				}
				let ci = pick_idx(*conn, conns.len());
				if conns[ci].closed_by_harness {
					continue;
				}
				if let Peer::Ws(ws) = &mut conns[ci].peer {
					n += 1;
					let before = ctx.actors.lock().len();
					let _ = ws.send_text(&format!(r#"{{"jsonrpc":"2.0","id":"s{n}","method":"sub_a"}}"#)).await;
					settle().await;
					let tx = ctx.actors.lock().get(before).map(|a| a.tx.clone());
					if let Some(tx) = tx {
						let (atx, _arx) = tokio::sync::oneshot::channel();
						let _ = tx.send((Cmd::Accept, atx));
					}
				}
			}
			G::Release(p) => {
				if gated_tokens.is_empty() {
					continue;
				}
				let t = gated_tokens.remove(pick_idx(*p, gated_tokens.len()));
				ctx.gates.release(&t);
			}
			G::Stop => {
				if !stop_issued {
					executing_at_stop = unfinished(&ctx.log.lock()).len();
				}
				let _ = handle.stop();
				stop_issued = true;
				// the harness keeps no stop handle of its own: only the connections do
				stop.take();
			}
			G::PeerClose { conn, abrupt } => {
				if conns.is_empty() {
					continue;
				}
				let ci = pick_idx(*conn, conns.len());
				if conns[ci].closed_by_harness {
					continue;
				}
				conns[ci].closed_by_harness = true;
				match &mut conns[ci].peer {
					Peer::Ws(ws) => {
						if *abrupt {
							ws.abort();
						} else {
							ws.close().await;
						}
					}
					Peer::Http { io, .. } => {
						let _ = io.shutdown().now_or_never();
					}
				}
			}
			G::PauseRead { conn } => {
				if let Some(c) = conns.get(pick_idx(*conn, conns.len().max(1))) {
					if let Peer::Ws(ws) = &c.peer {
						ws.read_gate.pause();
					}
				}
			}
			G::ResumeRead { conn } => {
				if let Some(c) = conns.get(pick_idx(*conn, conns.len().max(1))) {
					if let Peer::Ws(ws) = &c.peer {
						ws.read_gate.resume();
					}
				}
			}
		}
		if *settle_after {
			settle().await;
			check_stopped(&stopped_task, &ctx, &conns, &mut fails, &format!("after step #{si} {g:?}"));
		}
	}
	// make sure stop was issued, then open every gate / reader and let things finish
	if !stop_issued {
		executing_at_stop = unfinished(&ctx.log.lock()).len();
		let _ = handle.stop();
	}
	stop.take();
	settle().await;
	check_stopped(&stopped_task, &ctx, &conns, &mut fails, "after stop, gates still closed");
	let started_before_release: Vec<String> = ctx.log.lock().iter().filter(|l| l.phase == "started" || l.phase == "run").filter_map(|l| l.params.clone()).collect();
	for c in &conns {
		if let Peer::Ws(ws) = &c.peer {
			ws.read_gate.resume();
		}
	}
	// release gates one at a time: stopped() must not resolve before the last started handler finished
	for t in gated_tokens.drain(..) {
		ctx.gates.release(&t);
		settle().await;
		check_stopped(&stopped_task, &ctx, &conns, &mut fails, &format!("after releasing {t}"));
	}
	ctx.gates.release_all();
	settle().await;
	// read every peer to the end
	for c in conns.iter_mut() {
		match &mut c.peer {
			Peer::Ws(ws) => c.texts.extend(ws.drain_texts()),
			Peer::Http { io, received, eof } => {
				let mut buf = vec![0u8; 65536];
				// (with a tiny duplex buffer the server can only write on after the peer has read: read what is there,
				// let the server run, and go on until nothing more arrives)
				loop {
					let mut progressed = false;
					loop {
						match io.read(&mut buf).now_or_never() {
							Some(Ok(0)) => {
								*eof = true;
								break;
							}
							Some(Ok(k)) => {
								received.extend_from_slice(&buf[..k]);
								progressed = true;
							}
							_ => break,
						}
					}
					if *eof || !progressed {
						break;
					}
					settle().await;
				}
				c.texts.push(String::from_utf8_lossy(received).to_string());
			}
		}
	}
	let log_at_stopped = ctx.log_len();
	// stopped() must have resolved: everything is released and every peer has been read to the end
	let resolved = (&mut stopped_task).now_or_never().is_some();
	if !resolved {
		fails.push(("c10/stopped-never-resolves".into(), "all gates open, all peers read to the end, runtime idle: stopped() is still pending".into()));
	}
	// every call whose handler started (before the gates were opened) on a peer that stayed connected is answered
	for (ci, c) in conns.iter().enumerate() {
		if c.closed_by_harness {
			continue;
		}
		let all = c.texts.join("\n");
		for (id, _) in &c.calls {
			let started = started_before_release.iter().any(|p| p.contains(&format!("\"{id}\"")));
			if started && !all.contains(&format!("\"id\":\"{id}\"")) {
				fails.push(("c10/started-call-not-answered".into(), format!("conn #{ci}: handler of call {id} had started, but the peer never received its answer; received: {}", truncate(&all, 600))));
			}
		}
	}
	settle().await;
	if ctx.log_len() != log_at_stopped {
		fails.push(("c10/handler-ran-after-stopped".into(), format!("{:?}", ctx.log_since(log_at_stopped))));
	}
	let panics = crate::panics::take_local();
	if !panics.is_empty() {
		fails.push(("c10/panic".into(), format!("{panics:?}")));
	}
	if executing_at_stop >= 1 {
		obs.nontrivial();
		obs.class("stop-while-handler-executing");
	}
	if case.steps.iter().any(|(g, _)| matches!(g, G::PauseRead { .. })) {
		obs.class("with-paused-reader");
	}
	if conns.iter().any(|c| matches!(c.peer, Peer::Http { .. })) {
		obs.class("with-http-connection");
	}
	if conns.iter().any(|c| matches!(c.peer, Peer::Ws(_))) {
		obs.class("with-ws-connection");
	}
	obs.class(format!("connections:{}", conns.len()));
	if ping.is_some() {
		obs.class("with-ws-ping");
	}
	for (s, d) in fails {
		obs.fail(s, format!("{d}; case={case:?}"));
	}
}

impl SubCheck for StopMem {
	type Case = C10Case;
	fn name(&self) -> &'static str {
		"stop-in-memory"
	}
	fn cases(&self, tier: Tier) -> u32 {
		tier.pick(60_000, 1_200_000)
	}
	fn strategy(&self, tier: Tier) -> BoxedStrategy<C10Case> {
		let max = tier.pick(16usize, 30);
		let g = prop_oneof![
			2 => Just(G::OpenWs),
			1 => Just(G::OpenHttp),
			8 => (any::<u16>(), 0u8..5).prop_map(|(conn, kind)| G::Call { conn, kind }),
			1 => any::<u16>().prop_map(|conn| G::SubscribeAccept { conn }),
			3 => any::<u16>().prop_map(G::Release),
			2 => Just(G::Stop),
			1 => (any::<u16>(), any::<bool>()).prop_map(|(conn, abrupt)| G::PeerClose { conn, abrupt }),
			1 => any::<u16>().prop_map(|conn| G::PauseRead { conn }),
			1 => any::<u16>().prop_map(|conn| G::ResumeRead { conn }),
		];
		(proptest::collection::vec((g, proptest::bool::weighted(0.7)), 1..max), proptest::sample::select(vec![1u32, 2, 1024]), any::<bool>(), proptest::bool::weighted(0.35))
			.prop_map(|(mut steps, buf, http_first, ping)| {
				steps.insert(0, (if http_first { G::OpenHttp } else { G::OpenWs }, true));
				C10Case { steps, buf, ping }
			})
			.boxed()
	}
	fn run(&self, case: &C10Case, obs: &mut Obs) {
		let rt = rt();
		rt.block_on(run_mem(case, obs));
	}
}

// ---------------------------------------------------------------------------------------------
// stop while an answer cannot be written: "stopped" waits until it has been handed to the transport
// ---------------------------------------------------------------------------------------------

#[derive(Clone, Debug, Serialize, Deserialize)]
pub struct UnreadCase {
	/// size of the in-memory pipe between server and peer
	pub pipe: u16,
	/// length of the string the big call returns (always more than the pipe holds)
	pub big: u16,
	/// small calls answered before / queued behind the big answer
	pub before: u8,
	pub behind: u8,
	pub buffer_capacity: u8,
	pub lowlevel: bool,
	/// a subscribe call is executing at stop(): its handler accepts only afterwards, when the outgoing queue is full
	#[serde(default)]
	pub subscribe: bool,
}

pub struct UnreadAnswer;

impl SubCheck for UnreadAnswer {
	type Case = UnreadCase;
	fn name(&self) -> &'static str {
		"stop-with-unread-answer"
	}
	fn cases(&self, tier: Tier) -> u32 {
		tier.pick(4_000, 80_000)
	}
	fn strategy(&self, _tier: Tier) -> BoxedStrategy<UnreadCase> {
		(64u16..1024, 1500u16..20_000, 0u8..3, 0u8..4, prop_oneof![Just(1u8), Just(2u8), Just(64u8)], proptest::bool::weighted(0.25), any::<bool>())
			.prop_map(|(pipe, big, before, behind, buffer_capacity, lowlevel, subscribe)| UnreadCase { pipe, big, before, behind, buffer_capacity, lowlevel, subscribe })
			.boxed()
	}
	fn run(&self, case: &UnreadCase, obs: &mut Obs) {
		let rt = rt();
		rt.block_on(async {
			crate::panics::clear_local();
			let fix = Fixture::new(Cfg { buffer_capacity: case.buffer_capacity.max(1) as u32, ..Cfg::default() });
			let ws = if case.lowlevel { fix.ws_lowlevel().await } else { fix.ws_with(case.pipe as usize).await };
			let Ok(mut ws) = ws else {
				obs.fail("c10/ws-handshake", "failed".to_string());
				return;
			};
			let desc = || format!("case={case:?}");
			// a few calls answered and read in the ordinary way
			for k in 0..case.before {
				let _ = ws.send_text(&format!(r#"{{"jsonrpc":"2.0","id":"a{k}","method":"echo_sync","params":["a{k}"]}}"#)).await;
			}
			settle().await;
			let early = ws.drain_texts();
			obs.check(early.len() == case.before as usize, "c10/call-before-stop-not-answered", || format!("{early:?}; {}", desc()));
			// the peer stops reading; the big answer does not fit into the pipe, more answers queue up behind it
			ws.read_gate.pause();
			// (the peer's reader is already waiting for one more message: it takes this one and then stops for good)
			let _ = ws.send_text(r#"{"jsonrpc":"2.0","id":"last-read","method":"echo_sync","params":[0]}"#).await;
			settle().await;
			let _ = ws.drain_texts();
			let _ = ws.send_text(&format!(r#"{{"jsonrpc":"2.0","id":"big","method":"big_async","params":[{},0,0]}}"#, case.big)).await;
			for k in 0..case.behind {
				let _ = ws.send_text(&format!(r#"{{"jsonrpc":"2.0","id":"b{k}","method":"echo_async","params":["b{k}"]}}"#)).await;
			}
			if case.subscribe {
				let _ = ws.send_text(r#"{"jsonrpc":"2.0","id":"sub","method":"sub_a"}"#).await;
			}
			settle().await;
			let started = fix.ctx.log.lock().iter().filter(|l| l.name == "big_async" || l.name == "echo_async").count();
			let ctx = fix.ctx.clone();
			let subscribe_started = case.subscribe && ctx.actors.lock().len() == 1;
			let Fixture { handle, stop, methods, builder, .. } = fix;
			let stopped_task = tokio::spawn(handle.clone().stopped());
			let _ = handle.stop();
			drop((stop, methods, builder));
			settle().await;
			// every one of those handlers has run; their answers cannot all have been written: the peer reads nothing
			if started == 1 + case.behind as usize && !case.lowlevel {
				obs.check(!stopped_task.is_finished(), "c10/stopped-before-answers-were-written", || format!("stopped() resolved while the peer had read nothing and the pipe ({} bytes) cannot hold the {}-byte answer; {}", case.pipe, case.big, desc()));
				obs.nontrivial();
			}
			// the subscribe call's handler decides now: the server is stopping, the outgoing queue may be full
			let mut accept_ack = None;
			if subscribe_started {
				let tx = ctx.actors.lock()[0].tx.clone();
				let (atx, arx) = tokio::sync::oneshot::channel();
				let _ = tx.send((Cmd::Accept, atx));
				accept_ack = Some(arx);
				settle().await;
				obs.class("subscribe-call-executing-at-stop");
			}
			ws.read_gate.resume();
			settle().await;
			let texts = ws.drain_texts();
			let mut want: Vec<String> = vec!["big".into()];
			want.extend((0..case.behind).map(|k| format!("b{k}")));
			if subscribe_started {
				want.push("sub".into());
				// the peer stayed connected and reads: accepting succeeds
				match accept_ack.take().map(|mut a| a.try_recv()) {
					Some(Ok(Ack::Accepted(_))) => {}
					other => obs.fail("c10/started-call-not-answered", format!("the handler of the subscribe call that was executing at stop() accepted, with the peer connected: {other:?}; {}", desc())),
				}
				// let the handler return so that the connection can finish
				let tx = ctx.actors.lock()[0].tx.clone();
				let (atx, _arx) = tokio::sync::oneshot::channel();
				let _ = tx.send((Cmd::ReturnOk, atx));
				settle().await;
			}
			for id in &want {
				let got = texts.iter().filter_map(|t| serde_json::from_str::<Value>(t).ok()).find(|v| v["id"] == json!(id));
				match got {
					Some(v) if *id == "big" => {
						obs.check(v["result"].as_str().is_some_and(|r| r.len() == case.big as usize), "c10/started-call-not-answered", || format!("big answer is wrong or cut short: {}; {}", truncate(&v.to_string(), 200), desc()));
					}
					Some(_) => {}
					None => obs.fail("c10/started-call-not-answered", format!("call {id} had started before stop() but its answer never reached the peer; received {} messages; {}", texts.len(), desc())),
				}
			}
			obs.check(stopped_task.is_finished(), "c10/stopped-never-resolves", || format!("the peer has read everything: stopped() is still pending; {}", desc()));
			let panics = crate::panics::take_local();
			obs.check(panics.is_empty(), "c10/background-panic", || format!("{panics:?}; {}", desc()));
			obs.class(if case.lowlevel { "low-level-ws-connect" } else { "tower-service" });
		});
	}
}

// ---------------------------------------------------------------------------------------------
// S-tcp: the real `Server::start` accept loop on loopback, real clock
// ---------------------------------------------------------------------------------------------

#[derive(Clone, Debug, Serialize, Deserialize)]
pub struct TcpCase {
	pub ws_conns: u8,
	pub http_conns: u8,
	pub gated_calls: u8,
	pub stop_twice: bool,
	pub drop_clone: bool,
	pub release_before_stop: u8,
}

pub struct StopTcp;

pub const WALL: Duration = Duration::from_secs(20);

async fn run_tcp(case: &TcpCase, obs: &mut Obs) -> Result<(), String> {
	use tokio::net::TcpStream;
	let ctx = std::sync::Arc::new(HCtx { log: Default::default(), gates: Gates::default(), actors: Default::default(), guard_seen: Default::default(), sub_ids: Default::default() });
	let module = build_module(ctx.clone());
	let server = jsonrpsee_server::Server::builder().set_config(server_config(&Cfg::default(), false)).build("127.0.0.1:0").await.map_err(|e| format!("INCONCLUSIVE bind: {e}"))?;
	let addr = server.local_addr().map_err(|e| format!("INCONCLUSIVE addr: {e}"))?;
	let handle = server.start(module);
	let mut ws: Vec<WsPeer> = vec![];
	for _ in 0..case.ws_conns {
		let s = TcpStream::connect(addr).await.map_err(|e| format!("INCONCLUSIVE connect: {e}"))?;
		let dummy = tokio::spawn(async {});
		ws.push(WsPeer::connect(s, dummy).await.map_err(|e| format!("INCONCLUSIVE ws handshake: {e}"))?);
	}
	let mut http: Vec<TcpStream> = vec![];
	for _ in 0..case.http_conns {
		http.push(TcpStream::connect(addr).await.map_err(|e| format!("INCONCLUSIVE connect: {e}"))?);
	}
	// gated calls, round robin over all connections
	let total_conns = ws.len() + http.len();
	let mut tokens: Vec<(String, usize)> = vec![];
	if total_conns > 0 {
		for k in 0..case.gated_calls as usize {
			let ci = k % total_conns;
			let id = format!("g{k}");
			let text = call_text((k % 2) as u8, &id);
			if ci < ws.len() {
				let _ = ws[ci].send_text(&text).await;
			} else {
				if tokens.iter().any(|(_, c)| *c == ci) {
					continue; // one in-flight request per HTTP/1.1 connection
				}
				let _ = http[ci - ws.len()].write_all(http_request(&text).as_bytes()).await;
			}
			tokens.push((id, ci));
		}
	}
	// wait until every gated handler has started (bounded by the wall budget => inconclusive)
	let t0 = std::time::Instant::now();
	loop {
		let started = ctx.log.lock().iter().filter(|l| l.phase == "started").count();
		if started >= tokens.len() {
			break;
		}
		if t0.elapsed() > WALL {
			return Err("INCONCLUSIVE handlers did not start within the wall budget".into());
		}
		tokio::time::sleep(Duration::from_millis(2)).await;
	}
	for (t, _) in tokens.iter().take(case.release_before_stop as usize) {
		ctx.gates.release(t);
	}
	let executing = unfinished(&ctx.log.lock()).len();
	if executing >= 1 {
		obs.nontrivial();
	}
	let extra = if case.drop_clone { Some(handle.clone()) } else { None };
	let _ = handle.stop();
	if case.stop_twice {
		let _ = handle.stop();
	}
	drop(extra);
	let mut stopped = tokio::spawn(handle.clone().stopped());
	// hard fact 1: while a started handler is blocked on the harness gate, stopped() must not resolve
	tokio::time::sleep(Duration::from_millis(60)).await;
	if stopped.is_finished() {
		let open = unfinished(&ctx.log.lock());
		if !open.is_empty() {
			obs.fail("c10/stopped-before-handlers-finished", format!("stopped() resolved while handlers {open:?} were blocked on the gate; case={case:?}"));
		}
	}
	ctx.gates.release_all();
	// stopped() must resolve now; a missed wall budget is a hang => inconclusive, never a violation
	match tokio::time::timeout(WALL, &mut stopped).await {
		Ok(_) => {}
		Err(_) => return Err("INCONCLUSIVE stopped() did not resolve within the wall budget after all gates were opened".into()),
	}
	let open = unfinished(&ctx.log.lock());
	obs.check(open.is_empty(), "c10/stopped-before-handlers-finished", || format!("after stopped(): {open:?} still executing; case={case:?}"));
	let log_at_stopped = ctx.log_len();
	// hard fact 2: every peer reads to EOF and finds the reply of every call whose handler had started
	let mut texts: Vec<String> = vec![];
	for w in ws.iter_mut() {
		let mut got = vec![];
		loop {
			match tokio::time::timeout(WALL, w.events.recv()).await {
				Ok(Some(WsEvent::Text(t))) => got.push(t),
				Ok(Some(WsEvent::Closed)) | Ok(Some(WsEvent::Error(_))) | Ok(None) => break,
				Ok(Some(_)) => {}
				Err(_) => return Err("INCONCLUSIVE peer did not reach EOF within the wall budget".into()),
			}
		}
		texts.push(got.join("\n"));
	}
	for h in http.iter_mut() {
		let mut buf = vec![];
		match tokio::time::timeout(WALL, h.read_to_end(&mut buf)).await {
			Ok(_) => {}
			Err(_) => return Err("INCONCLUSIVE http peer did not reach EOF within the wall budget".into()),
		}
		texts.push(String::from_utf8_lossy(&buf).to_string());
	}
	for (id, ci) in &tokens {
		if !texts[*ci].contains(&format!("\"id\":\"{id}\"")) {
			obs.fail("c10/started-call-not-answered", format!("call {id} on connection #{ci} had started before stop() but its answer never reached the peer: {}; case={case:?}", truncate(&texts[*ci], 400)));
		}
	}
	// hard fact 3: nothing is executed for a connection attempted after stopped()
	if let Ok(mut s) = TcpStream::connect(addr).await {
		let _ = s.write_all(http_request(&call_text(4, "late")).as_bytes()).await;
		let mut buf = vec![];
		let _ = tokio::time::timeout(Duration::from_millis(300), s.read_to_end(&mut buf)).await;
	}
	tokio::time::sleep(Duration::from_millis(30)).await;
	obs.check(ctx.log_len() == log_at_stopped, "c10/handler-ran-after-stopped", || format!("{:?}; case={case:?}", ctx.log_since(log_at_stopped)));
	Ok(())
}

impl SubCheck for StopTcp {
	type Case = TcpCase;
	fn name(&self) -> &'static str {
		"stop-over-tcp"
	}
	fn cases(&self, tier: Tier) -> u32 {
		tier.pick(400, 8_000)
	}
	fn shards(&self, _tier: Tier) -> u32 {
		8
	}
	fn strategy(&self, _tier: Tier) -> BoxedStrategy<TcpCase> {
		(0u8..3, 0u8..3, 0u8..5, any::<bool>(), any::<bool>(), 0u8..3)
			.prop_map(|(ws_conns, http_conns, gated_calls, stop_twice, drop_clone, release_before_stop)| TcpCase { ws_conns, http_conns, gated_calls, stop_twice, drop_clone, release_before_stop })
			.boxed()
	}
	fn run(&self, case: &TcpCase, obs: &mut Obs) {
		let rt = tokio::runtime::Builder::new_multi_thread().worker_threads(2).enable_all().build().unwrap();
		let r = rt.block_on(run_tcp(case, obs));
		rt.shutdown_timeout(Duration::from_millis(200));
		match r {
			Ok(()) => obs.class("completed"),
			Err(e) => {
				// a missed budget is never a violation
				obs.class("inconclusive");
				INCONCLUSIVE.fetch_add(1, std::sync::atomic::Ordering::SeqCst);
				if std::env::var("VERIF_VERBOSE").is_ok() {
					eprintln!("[C10/tcp] {e}");
				}
			}
		}
	}
}

pub static INCONCLUSIVE: std::sync::atomic::AtomicU64 = std::sync::atomic::AtomicU64::new(0);

pub fn check(ctx: &mut Ctx) {
	ctx.rule = "S-mem (deterministic): histories over up to 3 connections (WebSocket sessions and keep-alive HTTP/1.1 connections through hyper) with calls to gated async / gated blocking / plain handlers, open subscriptions, a peer that can stop reading, message buffers of 1 / 2 / 1024, \
		stop() at any position (also without a barrier after the previous step: a call may be unread, executing, or answered-but-unsent), gate releases and peer closes in generated order; after the history every gate is opened one by one. \
		Oracle (hard facts): stopped() never resolves while a started handler has not finished; at the end stopped() has resolved; every call whose handler had started on a peer that stayed connected is answered before EOF; nothing runs afterwards; no panic. \
		S-tcp (real clock): the same facts through Server::start on loopback incl. a connection attempted after stopped(); a missed wall budget is reported as inconclusive. Non-trivial = stop() issued while >= 1 handler is executing; distinct by case value. Sub-checks: stop-with-unread-answer (the peer reads nothing and the pipe is smaller than the answer: stopped() waits until it has been written) and last-handle-dropped (the server is stopped by dropping every ServerHandle: started calls are still answered, nothing panics)."
		.into();
	ctx.assumptions = vec![
		"'never hangs' is decided in S-mem as 'stopped() resolved at quiescence with everything released'; over TCP a hang can only be watched for (exit 2)".into(),
		"S-mem hosts connections with serve_with_graceful_shutdown + stop_channel (no accept loop); the accept loop is covered by the S-tcp sub-check".into(),
	];
	ctx.run_sub(&StopMem);
	ctx.run_sub(&UnreadAnswer);
	ctx.run_sub(&DropLastHandle);
	ctx.run_sub(&OversizedDuringStop);
	ctx.run_sub(&StopTcp);
	let inc = INCONCLUSIVE.load(std::sync::atomic::Ordering::SeqCst);
	ctx.extra.insert("tcp_inconclusive_cases".into(), json!(inc));
}

pub fn replay(file: &serde_json::Value) -> Option<i32> {
	replay_with(&StopMem, file, "C10").or_else(|| replay_with(&UnreadAnswer, file, "C10")).or_else(|| replay_with(&DropLastHandle, file, "C10")).or_else(|| replay_with(&OversizedDuringStop, file, "C10")).or_else(|| replay_with(&StopTcp, file, "C10"))
}

#[allow(dead_code)]
fn _v() -> Value {
	json!(null)
}

// ---------------------------------------------------------------------------------------------
// the server is stopped by dropping its last handle (nobody calls stop(), nobody awaits stopped())
// ---------------------------------------------------------------------------------------------

#[derive(Clone, Debug, Serialize, Deserialize)]
pub struct DropCase {
	pub ws_calls: u8,
	pub http_call: bool,
	pub clones_dropped_first: u8,
	pub lowlevel: bool,
}

pub struct DropLastHandle;

impl SubCheck for DropLastHandle {
	type Case = DropCase;
	fn name(&self) -> &'static str {
		"last-handle-dropped"
	}
	fn cases(&self, tier: Tier) -> u32 {
		tier.pick(3_000, 60_000)
	}
	fn strategy(&self, _tier: Tier) -> BoxedStrategy<DropCase> {
		(0u8..4, any::<bool>(), 0u8..3, proptest::bool::weighted(0.25)).prop_map(|(ws_calls, http_call, clones_dropped_first, lowlevel)| DropCase { ws_calls, http_call, clones_dropped_first, lowlevel }).boxed()
	}
	fn run(&self, case: &DropCase, obs: &mut Obs) {
		let rt = rt();
		rt.block_on(async {
			crate::panics::clear_local();
			let fix = Fixture::new(Cfg::default());
			let desc = || format!("case={case:?}");
			let ws = if case.lowlevel { fix.ws_lowlevel().await } else { fix.ws().await };
			let Ok(mut ws) = ws else {
				obs.fail("c10/ws-handshake", "failed".to_string());
				return;
			};
			for k in 0..case.ws_calls {
				let _ = ws.send_text(&format!(r#"{{"jsonrpc":"2.0","id":"w{k}","method":"gated_async","params":["w{k}"]}}"#)).await;
			}
			let (mut io, _conn) = fix.raw_conn(8192);
			if case.http_call {
				let body = r#"{"jsonrpc":"2.0","id":"h","method":"gated_async","params":["h"]}"#;
				let _ = io.write_all(http_request(body).as_bytes()).await;
			}
			settle().await;
			let started = fix.ctx.log.lock().iter().filter(|l| l.phase == "started").count();
			// every handle goes away: first some clones, then the last one
			let Fixture { ctx, handle, stop, methods, builder, .. } = fix;
			let clones: Vec<_> = (0..case.clones_dropped_first).map(|_| handle.clone()).collect();
			drop(clones);
			settle().await;
			drop(handle);
			drop((stop, methods, builder));
			settle().await;
			// the calls that were executing are still run to completion and answered
			ctx.gates.release_all();
			settle().await;
			let texts = ws.drain_texts();
			for k in 0..case.ws_calls {
				let ok = texts.iter().filter_map(|t| serde_json::from_str::<Value>(t).ok()).any(|v| v["id"] == json!(format!("w{k}")) && v.get("result").is_some());
				obs.check(ok, "c10/started-call-not-answered", || format!("WebSocket call w{k} was executing when the last handle was dropped; received {texts:?}; {}", desc()));
			}
			if case.http_call {
				let mut buf = vec![0u8; 8192];
				let n = io.read(&mut buf).now_or_never().and_then(|r| r.ok()).unwrap_or(0);
				let text = String::from_utf8_lossy(&buf[..n]).to_string();
				obs.check(text.starts_with("HTTP/1.1 200") && text.contains("\"id\":\"h\""), "c10/started-call-not-answered", || format!("HTTP call h was executing when the last handle was dropped; received {text:?}; {}", desc()));
			}
			let panics = crate::panics::take_local();
			obs.check(panics.is_empty(), "c10/background-panic", || format!("{panics:?}; {}", desc()));
			if started as u8 >= case.ws_calls + case.http_call as u8 && started > 0 {
				obs.nontrivial();
			}
			obs.class(if case.lowlevel { "low-level-ws-connect" } else { "tower-service" });
		});
	}
}

// ---------------------------------------------------------------------------------------------
// a peer that stays connected sends an oversized message while the server is shutting down
// ---------------------------------------------------------------------------------------------

#[derive(Clone, Debug, Serialize, Deserialize)]
pub struct OversizedDuringStopCase {
	pub calls: u8,
	pub over_by: u16,
	pub binary: bool,
	pub lowlevel: bool,
	/// the oversized message comes before (false) or after (true) stop()
	pub after_stop: bool,
}

pub struct OversizedDuringStop;

impl SubCheck for OversizedDuringStop {
	type Case = OversizedDuringStopCase;
	fn name(&self) -> &'static str {
		"oversized-message-during-shutdown"
	}
	fn cases(&self, tier: Tier) -> u32 {
		tier.pick(3_000, 60_000)
	}
	fn strategy(&self, _tier: Tier) -> BoxedStrategy<OversizedDuringStopCase> {
		(1u8..4, 1u16..400, any::<bool>(), proptest::bool::weighted(0.25), proptest::bool::weighted(0.8))
			.prop_map(|(calls, over_by, binary, lowlevel, after_stop)| OversizedDuringStopCase { calls, over_by, binary, lowlevel, after_stop })
			.boxed()
	}
	fn run(&self, case: &OversizedDuringStopCase, obs: &mut Obs) {
		let rt = rt();
		rt.block_on(async {
			crate::panics::clear_local();
			let limit = 200usize;
			let fix = Fixture::new(Cfg { max_request: limit as u32, ..Cfg::default() });
			let ws = if case.lowlevel { fix.ws_lowlevel().await } else { fix.ws().await };
			let Ok(mut ws) = ws else {
				obs.fail("c10/ws-handshake", "failed".to_string());
				return;
			};
			let desc = || format!("case={case:?}");
			for k in 0..case.calls {
				let _ = ws.send_text(&format!(r#"{{"jsonrpc":"2.0","id":"o{k}","method":"gated_async","params":["o{k}"]}}"#)).await;
			}
			settle().await;
			let big = "x".repeat(limit + case.over_by as usize);
			let Fixture { ctx, handle, stop, methods, builder, .. } = fix;
			let stopped_task = tokio::spawn(handle.clone().stopped());
			if !case.after_stop {
				let _ = if case.binary { ws.send_binary(big.as_bytes()).await } else { ws.send_text(&big).await };
				settle().await;
			}
			let _ = handle.stop();
			drop((stop, methods, builder));
			settle().await;
			if case.after_stop {
				// the peer is still there and sends something the server will not accept
				let _ = if case.binary { ws.send_binary(big.as_bytes()).await } else { ws.send_text(&big).await };
				settle().await;
			}
			obs.check(!stopped_task.is_finished(), "c10/stopped-before-handlers-finished", || format!("stopped() resolved while {} calls are executing; {}", case.calls, desc()));
			ctx.gates.release_all();
			settle().await;
			let texts = ws.drain_texts();
			for k in 0..case.calls {
				let ok = texts.iter().filter_map(|t| serde_json::from_str::<Value>(t).ok()).any(|v| v["id"] == json!(format!("o{k}")) && v.get("result").is_some());
				obs.check(ok, "c10/started-call-not-answered", || format!("call o{k} was executing at stop(); its peer stayed connected and sent an oversized message {}; received {texts:?}; {}", if case.after_stop { "during the shutdown" } else { "before stop()" }, desc()));
			}
			obs.check(stopped_task.is_finished(), "c10/stopped-never-resolves", || desc());
			let panics = crate::panics::take_local();
			obs.check(panics.is_empty(), "c10/background-panic", || format!("{panics:?}; {}", desc()));
			if case.after_stop {
				obs.nontrivial();
			}
		});
	}
}
