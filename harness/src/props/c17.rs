//! C17 — generated APIs: client stub calls reach the server method with equal arguments.
#![allow(non_snake_case)]
//! The macro can only be exercised at compile time: a fixed family of `#[rpc(client, server)]` traits is compiled
//! into the harness; argument values are generated. Stub -> real async client -> wire text -> server module.

use crate::engine::*;
use crate::fix::server::rt;
use jsonrpsee::core::client::{Client, ClientBuilder, ClientT, ReceivedMessage, SubscriptionClientT, TransportReceiverT, TransportSenderT};
use jsonrpsee::core::params::{ArrayParams, ObjectParams};
use jsonrpsee::core::{RpcResult, SubscriptionResult, async_trait};
use jsonrpsee::proc_macros::rpc;
use jsonrpsee::server::{Methods, PendingSubscriptionSink};
use jsonrpsee::types::{ErrorObject, ErrorObjectOwned};
use parking_lot::Mutex;
use proptest::prelude::*;
use serde::{Deserialize, Serialize};
use serde_json::{Value, json};
use std::any::Any;
use std::collections::BTreeMap;
use std::sync::Arc;
use tokio::sync::mpsc;

// ---------------------------------------------------------------------------------------------
// payload types
// ---------------------------------------------------------------------------------------------

#[derive(Serialize, Deserialize, Clone, Debug, PartialEq)]
pub struct Point {
	pub x: i64,
	pub y: u8,
	pub label: String,
	pub tags: Vec<String>,
}

#[derive(Serialize, Deserialize, Clone, Debug, PartialEq)]
pub enum Shape {
	Unit,
	Circle(u32),
	Rect { w: u16, h: u16 },
	Named(String, Vec<i8>),
}

#[derive(Serialize, Deserialize, Clone, Debug, PartialEq)]
#[serde(tag = "t")]
pub enum Tagged {
	A { v: u64 },
	B { s: String },
	C,
}

fn arb_s() -> BoxedStrategy<String> {
	crate::json::arb_string(8)
}
fn arb_u64() -> BoxedStrategy<u64> {
	crate::props::c15::arb_u64_boundary()
}
fn arb_i64() -> BoxedStrategy<i64> {
	prop_oneof![proptest::sample::select(vec![0i64, 1, -1, i64::MIN, i64::MAX, (1 << 53) + 1, -(1 << 53) - 1]), any::<i64>()].boxed()
}
fn arb_point() -> BoxedStrategy<Point> {
	(arb_i64(), any::<u8>(), arb_s(), proptest::collection::vec(arb_s(), 0..3)).prop_map(|(x, y, label, tags)| Point { x, y, label, tags }).boxed()
}
fn arb_shape() -> BoxedStrategy<Shape> {
	prop_oneof![
		Just(Shape::Unit),
		any::<u32>().prop_map(Shape::Circle),
		(any::<u16>(), any::<u16>()).prop_map(|(w, h)| Shape::Rect { w, h }),
		(arb_s(), proptest::collection::vec(any::<i8>(), 0..4)).prop_map(|(s, v)| Shape::Named(s, v)),
	]
	.boxed()
}
fn arb_tagged() -> BoxedStrategy<Tagged> {
	prop_oneof![arb_u64().prop_map(|v| Tagged::A { v }), arb_s().prop_map(|s| Tagged::B { s }), Just(Tagged::C)].boxed()
}

// ---------------------------------------------------------------------------------------------
// the API family
// ---------------------------------------------------------------------------------------------

#[rpc(client, server)]
pub trait Plain {
	#[method(name = "p0")]
	fn p0(&self) -> RpcResult<u64>;
	#[method(name = "p1")]
	async fn p1(&self, a: u64) -> RpcResult<u64>;
	#[method(name = "p2", blocking)]
	fn p2(&self, a: String, b: Vec<i64>) -> RpcResult<(String, Vec<i64>)>;
	#[method(name = "p3")]
	fn p3(&self, a: Point, b: Shape, c: bool) -> RpcResult<(Point, Shape, bool)>;
	#[method(name = "p4", aliases = ["p4_alias", "other.p4"])]
	async fn p4(&self, a: i64, b: BTreeMap<String, u8>, c: Tagged, d: (u8, String)) -> RpcResult<(i64, BTreeMap<String, u8>, Tagged, (u8, String))>;
	#[method(name = "opt1")]
	fn opt1(&self, a: u32, b: Option<String>) -> RpcResult<(u32, Option<String>)>;
	#[method(name = "opt2")]
	async fn opt2(&self, a: String, b: Option<u64>, c: Option<Point>) -> RpcResult<(String, Option<u64>, Option<Point>)>;
}

#[rpc(client, server, namespace = "ns")]
pub trait Spaced {
	#[method(name = "m", param_kind = map)]
	fn m(&self, first_arg: u64, #[argument(rename = "type")] kind: String, third: Option<Vec<u8>>) -> RpcResult<(u64, String, Option<Vec<u8>>)>;
	#[method(name = "arr", param_kind = array, with_extensions)]
	async fn arr(&self, a_b: Shape, c: Option<Tagged>) -> RpcResult<(Shape, Option<Tagged>)>;
	#[method(name = "mapAsync", param_kind = map, aliases = ["ns_map_async_alias"])]
	async fn map_async(&self, point: Point, camelCase: bool) -> RpcResult<(Point, bool)>;
	/// parameter names that are neither their own snake_case nor their own camelCase form
	#[method(name = "odd", param_kind = map)]
	fn odd(&self, type_: String, #[argument(rename = "userID")] user: Option<u64>, _s: bool, a__b: u8) -> RpcResult<(String, Option<u64>, bool, u8)>;
}

#[rpc(client, server, namespace = "dot", namespace_separator = ".")]
pub trait Dotted {
	#[method(name = "x", aliases = ["x_alias"])]
	fn x(&self, a: Vec<Point>) -> RpcResult<Vec<Point>>;
	#[subscription(name = "sub" => "notif", unsubscribe = "unsub", item = Point, aliases = ["sub_alias"], unsubscribe_aliases = ["unsub_alias"])]
	async fn sub(&self, items: Vec<Point>, note: Option<String>) -> SubscriptionResult;
}

#[rpc(client, server)]
pub trait Subs {
	#[subscription(name = "subscribeShapes", item = Shape, param_kind = map)]
	async fn shapes(&self, items: Vec<Shape>, n: u64) -> SubscriptionResult;
	#[subscription(name = "subscribeSync", item = u64)]
	fn sync_sub(&self, items: Vec<u64>);
}

/// the registration branches of a subscription the traits above leave out: sync + extensions, async + extensions and plain sync,
/// each with a notification-name override (so that subscribe name, notification name and unsubscribe name all differ)
#[rpc(client, server, namespace = "sx")]
pub trait SubsX {
	#[subscription(name = "se" => "seItem", unsubscribe = "seStop", item = u64, with_extensions)]
	fn sync_ext(&self, items: Vec<u64>);
	#[subscription(name = "ae" => "aeItem", unsubscribe = "aeStop", item = u64, with_extensions)]
	async fn async_ext(&self, items: Vec<u64>) -> SubscriptionResult;
	#[subscription(name = "sp" => "spItem", unsubscribe = "spStop", item = u64)]
	fn sync_plain(&self, items: Vec<u64>);
}

/// Options in non-trailing positions, unit return, generic traits
#[rpc(client, server, namespace = "e")]
pub trait Extra {
	#[method(name = "mid")]
	fn mid(&self, a: Option<u8>, b: String, c: Option<bool>) -> RpcResult<(Option<u8>, String, Option<bool>)>;
	#[method(name = "unit")]
	async fn unit(&self, a: Vec<String>) -> RpcResult<()>;
	#[method(name = "midmap", param_kind = map)]
	async fn midmap(&self, a: Option<Point>, b: u64) -> RpcResult<(Option<Point>, u64)>;
	/// wire names outside ASCII and with an apostrophe, by name
	#[method(name = "uni", param_kind = map)]
	fn uni(&self, #[argument(rename = "名前")] name: String, #[argument(rename = "it's")] q: Option<u8>, größe: i64) -> RpcResult<(String, Option<u8>, i64)>;
	/// raw identifiers as parameter names, by name
	#[method(name = "rawid", param_kind = map)]
	fn rawid(&self, r#type: String, r#match: Option<u8>) -> RpcResult<(String, Option<u8>)>;
}

#[rpc(client, server, namespace = "gen")]
pub trait Gen<I, R> {
	#[method(name = "call")]
	fn call(&self, input: I, second: Option<R>) -> RpcResult<(I, Option<R>)>;
	#[subscription(name = "sub", unsubscribe = "unsub", item = Vec<R>)]
	async fn gsub(&self, input: I, items: Vec<R>) -> SubscriptionResult;
}

// ---------------------------------------------------------------------------------------------
// server implementation: records what it was called with, returns what it is told to
// ---------------------------------------------------------------------------------------------

#[derive(Default)]
pub struct State {
	pub calls: Mutex<Vec<(&'static str, Box<dyn Any + Send>)>>,
	pub fail: Mutex<Option<(i32, String, Option<Value>)>>,
	pub saw_extensions: Mutex<bool>,
}

#[derive(Clone)]
pub struct Srv(pub Arc<State>);

impl Srv {
	fn rec<T: Any + Send + Clone>(&self, name: &'static str, args: T) -> RpcResult<T> {
		self.0.calls.lock().push((name, Box::new(args.clone())));
		match self.0.fail.lock().clone() {
			// (the data member goes out as the very JSON text the case holds: member order and number literals as written)
			Some((code, msg, data)) => Err(ErrorObject::owned(code, msg, data.and_then(|d| d.as_str().and_then(|t| serde_json::value::RawValue::from_string(t.to_string()).ok())))),
			None => Ok(args),
		}
	}
}

#[async_trait]
impl PlainServer for Srv {
	fn p0(&self) -> RpcResult<u64> {
		self.rec("p0", ()).map(|_| 7)
	}
	async fn p1(&self, a: u64) -> RpcResult<u64> {
		self.rec("p1", (a,)).map(|t| t.0)
	}
	fn p2(&self, a: String, b: Vec<i64>) -> RpcResult<(String, Vec<i64>)> {
		self.rec("p2", (a, b))
	}
	fn p3(&self, a: Point, b: Shape, c: bool) -> RpcResult<(Point, Shape, bool)> {
		self.rec("p3", (a, b, c))
	}
	async fn p4(&self, a: i64, b: BTreeMap<String, u8>, c: Tagged, d: (u8, String)) -> RpcResult<(i64, BTreeMap<String, u8>, Tagged, (u8, String))> {
		self.rec("p4", (a, b, c, d))
	}
	fn opt1(&self, a: u32, b: Option<String>) -> RpcResult<(u32, Option<String>)> {
		self.rec("opt1", (a, b))
	}
	async fn opt2(&self, a: String, b: Option<u64>, c: Option<Point>) -> RpcResult<(String, Option<u64>, Option<Point>)> {
		self.rec("opt2", (a, b, c))
	}
}

#[async_trait]
impl SpacedServer for Srv {
	fn m(&self, first_arg: u64, kind: String, third: Option<Vec<u8>>) -> RpcResult<(u64, String, Option<Vec<u8>>)> {
		self.rec("m", (first_arg, kind, third))
	}
	async fn arr(&self, _ext: &jsonrpsee::Extensions, a_b: Shape, c: Option<Tagged>) -> RpcResult<(Shape, Option<Tagged>)> {
		*self.0.saw_extensions.lock() = true;
		self.rec("arr", (a_b, c))
	}
	#[allow(non_snake_case)]
	async fn map_async(&self, point: Point, camelCase: bool) -> RpcResult<(Point, bool)> {
		self.rec("map_async", (point, camelCase))
	}
	fn odd(&self, type_: String, user: Option<u64>, _s: bool, a__b: u8) -> RpcResult<(String, Option<u64>, bool, u8)> {
		self.rec("odd", (type_, user, _s, a__b))
	}
}

#[async_trait]
impl DottedServer for Srv {
	fn x(&self, a: Vec<Point>) -> RpcResult<Vec<Point>> {
		self.rec("x", (a,)).map(|t| t.0)
	}
	async fn sub(&self, pending: PendingSubscriptionSink, items: Vec<Point>, note: Option<String>) -> SubscriptionResult {
		let _ = self.rec("sub", (items.clone(), note));
		let sink = pending.accept().await?;
		for i in items {
			sink.send(serde_json::value::to_raw_value(&i).unwrap()).await?;
		}
		sink.closed().await;
		Ok(())
	}
}

#[async_trait]
impl ExtraServer for Srv {
	fn mid(&self, a: Option<u8>, b: String, c: Option<bool>) -> RpcResult<(Option<u8>, String, Option<bool>)> {
		self.rec("mid", (a, b, c))
	}
	async fn unit(&self, a: Vec<String>) -> RpcResult<()> {
		self.rec("unit", (a,)).map(|_| ())
	}
	async fn midmap(&self, a: Option<Point>, b: u64) -> RpcResult<(Option<Point>, u64)> {
		self.rec("midmap", (a, b))
	}
	fn uni(&self, name: String, q: Option<u8>, größe: i64) -> RpcResult<(String, Option<u8>, i64)> {
		self.rec("uni", (name, q, größe))
	}
	fn rawid(&self, r#type: String, r#match: Option<u8>) -> RpcResult<(String, Option<u8>)> {
		self.rec("rawid", (r#type, r#match))
	}
}

#[async_trait]
impl GenServer<Shape, Tagged> for Srv {
	fn call(&self, input: Shape, second: Option<Tagged>) -> RpcResult<(Shape, Option<Tagged>)> {
		self.rec("gen_call", (input, second))
	}
	async fn gsub(&self, pending: PendingSubscriptionSink, input: Shape, items: Vec<Tagged>) -> SubscriptionResult {
		let _ = self.rec("gen_sub", (input, items.clone()));
		let sink = pending.accept().await?;
		// the item type is Vec<R>: prefixes of the list
		for i in 0..items.len() {
			sink.send(serde_json::value::to_raw_value(&items[..=i]).unwrap()).await?;
		}
		sink.closed().await;
		Ok(())
	}
}

#[async_trait]
impl SubsServer for Srv {
	async fn shapes(&self, pending: PendingSubscriptionSink, items: Vec<Shape>, n: u64) -> SubscriptionResult {
		let _ = self.rec("shapes", (items.clone(), n));
		let sink = pending.accept().await?;
		for i in items {
			sink.send(serde_json::value::to_raw_value(&i).unwrap()).await?;
		}
		sink.closed().await;
		Ok(())
	}
	fn sync_sub(&self, pending: PendingSubscriptionSink, items: Vec<u64>) {
		let _ = self.rec("sync_sub", (items.clone(),));
		tokio::spawn(async move {
			if let Ok(sink) = pending.accept().await {
				for i in items {
					let _ = sink.send(serde_json::value::to_raw_value(&i).unwrap()).await;
				}
				sink.closed().await;
			}
		});
	}
}

fn feed(pending: PendingSubscriptionSink, items: Vec<u64>) {
	tokio::spawn(async move {
		if let Ok(sink) = pending.accept().await {
			for i in items {
				let _ = sink.send(serde_json::value::to_raw_value(&i).unwrap()).await;
			}
			sink.closed().await;
		}
	});
}

#[async_trait]
impl SubsXServer for Srv {
	fn sync_ext(&self, pending: PendingSubscriptionSink, _ext: &jsonrpsee::Extensions, items: Vec<u64>) {
		let _ = self.rec("sync_ext", (items.clone(),));
		feed(pending, items);
	}
	async fn async_ext(&self, pending: PendingSubscriptionSink, _ext: &jsonrpsee::Extensions, items: Vec<u64>) -> SubscriptionResult {
		let _ = self.rec("async_ext", (items.clone(),));
		let sink = pending.accept().await?;
		for i in items {
			sink.send(serde_json::value::to_raw_value(&i).unwrap()).await?;
		}
		sink.closed().await;
		Ok(())
	}
	fn sync_plain(&self, pending: PendingSubscriptionSink, items: Vec<u64>) {
		let _ = self.rec("sync_plain", (items.clone(),));
		feed(pending, items);
	}
}

pub fn build_methods(srv: Srv) -> Methods {
	let mut m = Methods::new();
	m.merge(PlainServer::into_rpc(srv.clone())).unwrap();
	m.merge(SpacedServer::into_rpc(srv.clone())).unwrap();
	m.merge(DottedServer::into_rpc(srv.clone())).unwrap();
	m.merge(ExtraServer::into_rpc(srv.clone())).unwrap();
	m.merge(GenServer::<Shape, Tagged>::into_rpc(srv.clone())).unwrap();
	m.merge(SubsXServer::into_rpc(srv.clone())).unwrap();
	m.merge(SubsServer::into_rpc(srv)).unwrap();
	m
}

// ---------------------------------------------------------------------------------------------
// loop-back transport: whatever the client sends is handed to the server module
// ---------------------------------------------------------------------------------------------

#[derive(Debug)]
pub struct LbErr(String);
impl std::fmt::Display for LbErr {
	fn fmt(&self, f: &mut std::fmt::Formatter<'_>) -> std::fmt::Result {
		write!(f, "{}", self.0)
	}
}
impl std::error::Error for LbErr {}

pub struct LbSender {
	methods: Methods,
	tx: mpsc::UnboundedSender<String>,
	wire: Arc<Mutex<Vec<String>>>,
	replies: Arc<Mutex<Vec<String>>>,
	notifs: Arc<Mutex<Vec<String>>>,
}
pub struct LbReceiver {
	rx: mpsc::UnboundedReceiver<String>,
}

impl TransportSenderT for LbSender {
	type Error = LbErr;
	fn send(&mut self, msg: String) -> impl Future<Output = Result<(), Self::Error>> + Send {
		self.wire.lock().push(msg.clone());
		let methods = self.methods.clone();
		let tx = self.tx.clone();
		let replies = self.replies.clone();
		let notifs = self.notifs.clone();
		async move {
			tokio::spawn(async move {
				if let Ok((resp, mut rx)) = methods.raw_json_request(&msg, 1024).await {
					replies.lock().push(resp.get().to_string());
					let _ = tx.send(resp.get().to_string());
					while let Some(n) = rx.recv().await {
						notifs.lock().push(n.get().to_string());
						if tx.send(n.get().to_string()).is_err() {
							break;
						}
					}
				}
			});
			Ok(())
		}
	}
}

impl TransportReceiverT for LbReceiver {
	type Error = LbErr;
	fn receive(&mut self) -> impl Future<Output = Result<ReceivedMessage, Self::Error>> + Send {
		async move {
			match self.rx.recv().await {
				Some(s) => Ok(ReceivedMessage::Text(s)),
				None => Err(LbErr("loop-back closed".into())),
			}
		}
	}
}

pub struct Loop {
	pub client: Client,
	pub state: Arc<State>,
	pub wire: Arc<Mutex<Vec<String>>>,
	/// the direct replies of the server module, in the order they were produced
	pub replies: Arc<Mutex<Vec<String>>>,
	/// the notifications the server module produced
	pub notifs: Arc<Mutex<Vec<String>>>,
}

impl Loop {
	/// every notification produced so far goes out under the declared notification method name
	pub fn notification_method_is(&self, want: &str) -> Result<(), String> {
		for n in self.notifs.lock().iter() {
			let v: Value = serde_json::from_str(n).unwrap_or(Value::Null);
			if v["method"] != json!(want) {
				return Err(format!("notification {n} does not carry the method name {want}"));
			}
		}
		Ok(())
	}

	/// the unsubscribe request (the last message the client wrote) was answered `true`
	pub fn unsubscribe_acknowledged(&self) -> Result<(), String> {
		let last: Value = self.wire.lock().last().and_then(|s| serde_json::from_str(s).ok()).unwrap_or(Value::Null);
		let id = last["id"].clone();
		let reply = self.replies.lock().iter().filter_map(|r| serde_json::from_str::<Value>(r).ok()).find(|r| r["id"] == id);
		match reply {
			Some(r) if r["result"] == json!(true) => Ok(()),
			other => Err(format!("unsubscribe request {last} was answered {other:?}")),
		}
	}
}

pub fn loopback() -> Loop {
	let state = Arc::new(State::default());
	let methods = build_methods(Srv(state.clone()));
	let (tx, rx) = mpsc::unbounded_channel();
	let wire = Arc::new(Mutex::new(vec![]));
	let replies = Arc::new(Mutex::new(vec![]));
	let notifs = Arc::new(Mutex::new(vec![]));
	let client = ClientBuilder::default().build_with_tokio(LbSender { methods, tx, wire: wire.clone(), replies: replies.clone(), notifs: notifs.clone() }, LbReceiver { rx });
	Loop { client, state, wire, replies, notifs }
}

// ---------------------------------------------------------------------------------------------
// cases
// ---------------------------------------------------------------------------------------------

#[derive(Clone, Debug, Serialize, Deserialize)]
pub enum Call17 {
	P0,
	P1(u64),
	P2(String, Vec<i64>),
	P3(Point, Shape, bool),
	P4(i64, BTreeMap<String, u8>, Tagged, (u8, String)),
	Opt1(u32, Option<String>),
	Opt2(String, Option<u64>, Option<Point>),
	M(u64, String, Option<Vec<u8>>),
	Arr(Shape, Option<Tagged>),
	MapAsync(Point, bool),
	Odd(String, Option<u64>, bool, u8),
	X(Vec<Point>),
	Sub(Vec<Point>, Option<String>),
	Shapes(Vec<Shape>, u64),
	SyncSub(Vec<u64>),
	/// one of the `SubsX` subscriptions: 0 sync + extensions, 1 async + extensions, 2 plain sync
	SubX(u8, Vec<u64>),
	Mid(Option<u8>, String, Option<bool>),
	Unit(Vec<String>),
	MidMap(Option<Point>, u64),
	GenCall(Shape, Option<Tagged>),
	GenSub(Shape, Vec<Tagged>),
	RawId(String, Option<u8>),
	Uni(String, Option<u8>, i64),
}

#[derive(Clone, Debug, Serialize, Deserialize)]
pub enum Via {
	Stub,
	/// the same call through an alias / hand-built positional request
	Alias(u8),
	/// hand-built by-name request with the given key style (0 declared, 1 snake_case, 2 camelCase)
	ByName(u8),
	/// trailing `None`s: 0 passed as null by the stub (default), 1 omitted in a hand-built array, 2 omitted in a hand-built object
	OmitTail(u8),
}

#[derive(Clone, Debug, Serialize, Deserialize)]
pub struct C17Case {
	pub call: Call17,
	pub via: Via,
	pub fail: Option<(i32, String, Option<crate::json::J>)>,
}

pub struct Stubs;

fn arb_call() -> BoxedStrategy<Call17> {
	prop_oneof![
		1 => Just(Call17::P0),
		2 => arb_u64().prop_map(Call17::P1),
		2 => (arb_s(), proptest::collection::vec(arb_i64(), 0..4)).prop_map(|(a, b)| Call17::P2(a, b)),
		3 => (arb_point(), arb_shape(), any::<bool>()).prop_map(|(a, b, c)| Call17::P3(a, b, c)),
		3 => (arb_i64(), proptest::collection::btree_map(arb_s(), any::<u8>(), 0..3), arb_tagged(), (any::<u8>(), arb_s())).prop_map(|(a, b, c, d)| Call17::P4(a, b, c, d)),
		3 => (any::<u32>(), proptest::option::of(arb_s())).prop_map(|(a, b)| Call17::Opt1(a, b)),
		3 => (arb_s(), proptest::option::of(arb_u64()), proptest::option::of(arb_point())).prop_map(|(a, b, c)| Call17::Opt2(a, b, c)),
		3 => (arb_u64(), arb_s(), proptest::option::of(proptest::collection::vec(any::<u8>(), 0..4))).prop_map(|(a, b, c)| Call17::M(a, b, c)),
		2 => (arb_shape(), proptest::option::of(arb_tagged())).prop_map(|(a, b)| Call17::Arr(a, b)),
		2 => (arb_point(), any::<bool>()).prop_map(|(a, b)| Call17::MapAsync(a, b)),
		2 => (arb_s(), proptest::option::of(arb_u64()), any::<bool>(), any::<u8>()).prop_map(|(a, b, c, d)| Call17::Odd(a, b, c, d)),
		2 => proptest::collection::vec(arb_point(), 0..3).prop_map(Call17::X),
		2 => (proptest::collection::vec(arb_point(), 0..4), proptest::option::of(arb_s())).prop_map(|(a, b)| Call17::Sub(a, b)),
		2 => (proptest::collection::vec(arb_shape(), 0..4), arb_u64()).prop_map(|(a, b)| Call17::Shapes(a, b)),
		1 => proptest::collection::vec(arb_u64(), 0..4).prop_map(Call17::SyncSub),
		2 => (0u8..3, proptest::collection::vec(arb_u64(), 0..4)).prop_map(|(w, i)| Call17::SubX(w, i)),
		3 => (proptest::option::of(any::<u8>()), arb_s(), proptest::option::of(any::<bool>())).prop_map(|(a, b, c)| Call17::Mid(a, b, c)),
		1 => proptest::collection::vec(arb_s(), 0..3).prop_map(Call17::Unit),
		2 => (proptest::option::of(arb_point()), arb_u64()).prop_map(|(a, b)| Call17::MidMap(a, b)),
		2 => (arb_shape(), proptest::option::of(arb_tagged())).prop_map(|(a, b)| Call17::GenCall(a, b)),
		2 => (arb_shape(), proptest::collection::vec(arb_tagged(), 0..4)).prop_map(|(a, b)| Call17::GenSub(a, b)),
		2 => (arb_s(), proptest::option::of(any::<u8>())).prop_map(|(a, b)| Call17::RawId(a, b)),
		2 => (arb_s(), proptest::option::of(any::<u8>()), arb_i64()).prop_map(|(a, b, c)| Call17::Uni(a, b, c)),
	]
	.boxed()
}

fn to_v<T: Serialize>(t: &T) -> Value {
	serde_json::to_value(t).unwrap()
}

/// the client's view of an outcome: Ok(json of the value) or Err((code, message, the JSON text of data))
type Seen = Result<Value, (i32, String, Option<Value>)>;

fn seen<T: Serialize>(r: Result<T, jsonrpsee::core::client::Error>) -> Result<Seen, String> {
	match r {
		Ok(v) => Ok(Ok(to_v(&v))),
		Err(jsonrpsee::core::client::Error::Call(e)) => Ok(Err((e.code(), e.message().to_string(), e.data().map(|d| Value::String(d.get().to_string()))))),
		Err(e) => Err(format!("{e:?}")),
	}
}

async fn read_items<T: serde::de::DeserializeOwned + Serialize>(sub: &mut jsonrpsee::core::client::Subscription<T>, n: usize) -> Result<Vec<Value>, String> {
	let mut got = vec![];
	for _ in 0..n {
		match tokio::time::timeout(std::time::Duration::from_secs(3600), sub.next()).await {
			Ok(Some(Ok(v))) => got.push(to_v(&v)),
			other => return Err(format!("stream gave {:?} after {} items", other.map(|o| o.map(|r| r.map(|_| ()).map_err(|e| e.to_string()))), got.len())),
		}
	}
	Ok(got)
}

impl SubCheck for Stubs {
	type Case = C17Case;
	fn name(&self) -> &'static str {
		"stubs"
	}
	fn cases(&self, tier: Tier) -> u32 {
		tier.pick(300_000, 6_000_000)
	}
	fn strategy(&self, _tier: Tier) -> BoxedStrategy<C17Case> {
		let via = prop_oneof![5 => Just(Via::Stub), 2 => (0u8..3).prop_map(Via::Alias), 2 => (0u8..3).prop_map(Via::ByName), 2 => (1u8..3).prop_map(Via::OmitTail)];
		(arb_call(), via, proptest::option::weighted(0.2, (crate::props::c15::arb_code(), arb_s(), proptest::option::of(crate::json::arb_json(2)))))
			.prop_map(|(call, via, fail)| C17Case { call, via, fail })
			.boxed()
	}
	fn run(&self, case: &C17Case, obs: &mut Obs) {
		let rt = rt();
		rt.block_on(async {
			let lb = loopback();
			let c = &lb.client;
			*lb.state.fail.lock() = case.fail.as_ref().map(|(code, m, d)| (*code, m.clone(), d.as_ref().map(|d| Value::String(d.compact()))));
			let want_err: Option<(i32, String, Option<Value>)> = lb.state.fail.lock().clone();
			let desc = || format!("case={case:?} wire={:?}", lb.wire.lock());
			macro_rules! judge {
				($rust:literal, $wire_method:expr, $args:expr, $ret:expr, $got:expr) => {{
					// what the server method was called with
					let calls = lb.state.calls.lock();
					if calls.len() != 1 || calls[0].0 != $rust {
						obs.fail("c17/wrong-or-no-server-method", format!("expected exactly one call of {}, saw {:?}; {}", $rust, calls.iter().map(|c| c.0).collect::<Vec<_>>(), desc()));
					} else {
						if let Err(e) = same_args(&calls[0].1, &$args) {
							obs.fail("c17/arguments-differ", format!("server {} {e}; {}", $rust, desc()));
						}
					}
					drop(calls);
					// the method name on the wire
					if let Some(wm) = $wire_method {
						let first: Value = lb.wire.lock().first().and_then(|s| serde_json::from_str(s).ok()).unwrap_or(Value::Null);
						if first["method"] != json!(wm) {
							obs.fail("c17/wrong-method-name-on-wire", format!("expected {wm}; {}", desc()));
						}
					}
					// what the client got back
					match $got {
						Err(e) => obs.fail("c17/client-call-failed", format!("{e}; {}", desc())),
						Ok(got) => {
							let want: Seen = match &want_err {
								Some(e) => Err(e.clone()),
								None => Ok(to_v(&$ret)),
							};
							if got != want {
								obs.fail("c17/return-value-differs", format!("client got {got:?}, server returned {want:?}; {}", desc()));
							}
						}
					}
				}};
			}
			// hand-built requests
			let arr = |vals: Vec<Value>| {
				let mut p = ArrayParams::new();
				for v in vals {
					p.insert(v).unwrap();
				}
				p
			};
			let obj = |pairs: Vec<(String, Value)>| {
				let mut p = ObjectParams::new();
				for (k, v) in pairs {
					p.insert(&k, v).unwrap();
				}
				p
			};
			let key = |declared: &str, style: u8| -> String {
				match style % 3 {
					0 => declared.to_string(),
					1 => to_snake(declared),
					_ => to_camel(declared),
				}
			};
			let via = case.via.clone();
			let mut non_scalar = false;
			let mut opt_variation = false;
			match &case.call {
				Call17::P0 => {
					let got = seen(PlainClient::p0(c).await);
					judge!("p0", Some("p0"), (), 7u64, got);
				}
				Call17::P1(a) => {
					let got = match via {
						Via::ByName(s) => seen(c.request::<u64, _>("p1", obj(vec![(key("a", s), to_v(a))])).await),
						_ => seen(PlainClient::p1(c, *a).await),
					};
					judge!("p1", Some("p1"), (*a,), *a, got);
				}
				Call17::P2(a, b) => {
					non_scalar = true;
					let got = match via {
						Via::ByName(s) => seen(c.request::<(String, Vec<i64>), _>("p2", obj(vec![(key("b", s), to_v(b)), (key("a", s), to_v(a))])).await),
						_ => seen(PlainClient::p2(c, a.clone(), b.clone()).await),
					};
					judge!("p2", Some("p2"), (a.clone(), b.clone()), (a.clone(), b.clone()), got);
				}
				Call17::P3(a, b, cc) => {
					non_scalar = true;
					let got = seen(PlainClient::p3(c, a.clone(), b.clone(), *cc).await);
					judge!("p3", Some("p3"), (a.clone(), b.clone(), *cc), (a.clone(), b.clone(), *cc), got);
				}
				Call17::P4(a, b, cc, d) => {
					non_scalar = true;
					let args = (*a, b.clone(), cc.clone(), d.clone());
					let (name, got) = match via {
						Via::Alias(k) => {
							let name = ["p4_alias", "other.p4", "p4"][k as usize % 3];
							(name, seen(c.request::<(i64, BTreeMap<String, u8>, Tagged, (u8, String)), _>(name, arr(vec![to_v(a), to_v(b), to_v(cc), to_v(d)])).await))
						}
						_ => ("p4", seen(PlainClient::p4(c, *a, b.clone(), cc.clone(), d.clone()).await)),
					};
					judge!("p4", Some(name), args.clone(), args.clone(), got);
				}
				Call17::Opt1(a, b) => {
					let (bb, got) = match via {
						Via::OmitTail(1) => {
							opt_variation = true;
							(None, seen(c.request::<(u32, Option<String>), _>("opt1", arr(vec![to_v(a)])).await))
						}
						Via::OmitTail(_) => {
							opt_variation = true;
							(None, seen(c.request::<(u32, Option<String>), _>("opt1", obj(vec![("a".into(), to_v(a))])).await))
						}
						_ => {
							opt_variation = b.is_none();
							(b.clone(), seen(PlainClient::opt1(c, *a, b.clone()).await))
						}
					};
					judge!("opt1", Some("opt1"), (*a, bb.clone()), (*a, bb.clone()), got);
				}
				Call17::Opt2(a, b, cc) => {
					non_scalar = cc.is_some();
					let (bb, c2, got) = match via {
						Via::OmitTail(1) => {
							opt_variation = true;
							// cut the array after the last present argument
							if cc.is_some() {
								(b.clone(), cc.clone(), seen(c.request::<(String, Option<u64>, Option<Point>), _>("opt2", arr(vec![to_v(a), to_v(b), to_v(cc)])).await))
							} else if b.is_some() {
								(b.clone(), None, seen(c.request::<(String, Option<u64>, Option<Point>), _>("opt2", arr(vec![to_v(a), to_v(b)])).await))
							} else {
								(None, None, seen(c.request::<(String, Option<u64>, Option<Point>), _>("opt2", arr(vec![to_v(a)])).await))
							}
						}
						Via::OmitTail(_) => {
							opt_variation = true;
							let mut pairs = vec![("a".to_string(), to_v(a))];
							if let Some(b) = b {
								pairs.push(("b".into(), to_v(b)));
							}
							if let Some(cc) = cc {
								pairs.push(("c".into(), to_v(cc)));
							}
							(b.clone(), cc.clone(), seen(c.request::<(String, Option<u64>, Option<Point>), _>("opt2", obj(pairs)).await))
						}
						_ => {
							opt_variation = b.is_none() || cc.is_none();
							(b.clone(), cc.clone(), seen(PlainClient::opt2(c, a.clone(), b.clone(), cc.clone()).await))
						}
					};
					judge!("opt2", Some("opt2"), (a.clone(), bb.clone(), c2.clone()), (a.clone(), bb.clone(), c2.clone()), got);
				}
				Call17::M(a, b, cc) => {
					non_scalar = cc.is_some();
					let got = match via {
						Via::ByName(s) => seen(c.request::<(u64, String, Option<Vec<u8>>), _>("ns_m", obj(vec![(key("first_arg", s), to_v(a)), ("type".into(), to_v(b)), (key("third", s), to_v(cc))])).await),
						Via::Alias(_) => seen(c.request::<(u64, String, Option<Vec<u8>>), _>("ns_m", arr(vec![to_v(a), to_v(b), to_v(cc)])).await),
						_ => seen(SpacedClient::m(c, *a, b.clone(), cc.clone()).await),
					};
					if matches!(via, Via::Stub | Via::OmitTail(_)) {
						// the stub must have used the by-name encoding with the renamed key
						let first: Value = lb.wire.lock().first().and_then(|s| serde_json::from_str(s).ok()).unwrap_or(Value::Null);
						let p = &first["params"];
						if !(p.is_object() && p.get("type").is_some() && p.get("first_arg").is_some()) {
							obs.fail("c17/by-name-encoding-not-used", format!("params on the wire: {p}; {}", desc()));
						}
					}
					judge!("m", Some("ns_m"), (*a, b.clone(), cc.clone()), (*a, b.clone(), cc.clone()), got);
				}
				Call17::Arr(a, b) => {
					non_scalar = true;
					let got = match via {
						Via::ByName(s) => seen(c.request::<(Shape, Option<Tagged>), _>("ns_arr", obj(vec![(key("a_b", s), to_v(a)), ("c".into(), to_v(b))])).await),
						_ => seen(SpacedClient::arr(c, a.clone(), b.clone()).await),
					};
					judge!("arr", Some("ns_arr"), (a.clone(), b.clone()), (a.clone(), b.clone()), got);
					obs.check(*lb.state.saw_extensions.lock(), "c17/with-extensions-method-not-reached", desc);
				}
				Call17::MapAsync(a, b) => {
					non_scalar = true;
					let (name, got) = match via {
						Via::ByName(s) => ("ns_mapAsync", seen(c.request::<(Point, bool), _>("ns_mapAsync", obj(vec![("point".into(), to_v(a)), (key("camelCase", s), to_v(b))])).await)),
						Via::Alias(_) => ("ns_map_async_alias", seen(c.request::<(Point, bool), _>("ns_map_async_alias", arr(vec![to_v(a), to_v(b)])).await)),
						_ => ("ns_mapAsync", seen(SpacedClient::map_async(c, a.clone(), *b).await)),
					};
					judge!("map_async", Some(name), (a.clone(), *b), (a.clone(), *b), got);
				}
				Call17::Odd(a, b, cc, d) => {
					opt_variation = b.is_none();
					let got = match via {
						Via::ByName(_) | Via::OmitTail(_) => {
							let mut pairs = vec![("type_".to_string(), to_v(a)), ("_s".to_string(), to_v(cc)), ("a__b".to_string(), to_v(d))];
							if let Some(b) = b {
								pairs.push(("userID".to_string(), to_v(b)));
							}
							seen(c.request::<(String, Option<u64>, bool, u8), _>("ns_odd", obj(pairs)).await)
						}
						_ => seen(SpacedClient::odd(c, a.clone(), *b, *cc, *d).await),
					};
					judge!("odd", Some("ns_odd"), (a.clone(), *b, *cc, *d), (a.clone(), *b, *cc, *d), got);
				}
				Call17::X(a) => {
					non_scalar = true;
					let (name, got) = match via {
						Via::Alias(_) => ("x_alias", seen(c.request::<Vec<Point>, _>("x_alias", arr(vec![to_v(a)])).await)),
						_ => ("dot.x", seen(DottedClient::x(c, a.clone()).await)),
					};
					judge!("x", Some(name), (a.clone(),), a.clone(), got);
				}
				Call17::Sub(items, note) => {
					non_scalar = true;
					*lb.state.fail.lock() = None;
					let r = match via {
						Via::Alias(_) => c.subscribe::<Point, _>("sub_alias", arr(vec![to_v(items), to_v(note)]), "unsub_alias").await,
						_ => DottedClient::sub(c, items.clone(), note.clone()).await,
					};
					match r {
						Err(e) => obs.fail("c17/subscribe-failed", format!("{e:?}; {}", desc())),
						Ok(mut s) => {
							match read_items(&mut s, items.len()).await {
								Ok(got) => {
									let want: Vec<Value> = items.iter().map(to_v).collect();
									obs.check(got == want, "c17/subscription-items-differ", || format!("{got:?} vs {want:?}; {}", desc()));
								}
								Err(e) => obs.fail("c17/subscription-items-missing", format!("{e}; {}", desc())),
							}
							let _ = s.unsubscribe().await;
							crate::fix::server::settle().await;
							if let Err(e) = lb.unsubscribe_acknowledged() {
								obs.fail("c17/unsubscribe-not-acknowledged", format!("{e}; {}", desc()));
							}
						}
					}
					let calls = lb.state.calls.lock();
					let ok = calls.len() == 1 && calls[0].0 == "sub" && calls[0].1.downcast_ref::<(Vec<Point>, Option<String>)>() == Some(&(items.clone(), note.clone()));
					obs.check(ok, "c17/arguments-differ", || format!("subscription handler saw {:?}; {}", calls.iter().map(|c| c.0).collect::<Vec<_>>(), desc()));
					drop(calls);
					let w = lb.wire.lock();
					let first: Value = w.first().and_then(|s| serde_json::from_str(s).ok()).unwrap_or(Value::Null);
					let want_name = if matches!(via, Via::Alias(_)) { "sub_alias" } else { "dot.sub" };
					obs.check(first["method"] == json!(want_name), "c17/wrong-method-name-on-wire", || format!("{first}"));
					let last: Value = w.last().and_then(|s| serde_json::from_str(s).ok()).unwrap_or(Value::Null);
					let want_unsub = if matches!(via, Via::Alias(_)) { "unsub_alias" } else { "dot.unsub" };
					obs.check(last["method"] == json!(want_unsub), "c17/wrong-unsubscribe-name-on-wire", || format!("{last}"));
					drop(w);
					// `name = "sub" => "notif"` inside namespace "dot" with separator ".": the items go out as dot.notif
					if let Err(e) = lb.notification_method_is("dot.notif") {
						obs.fail("c17/wrong-notification-method-name", format!("{e}; {}", desc()));
					}
				}
				Call17::Shapes(items, n) => {
					non_scalar = true;
					*lb.state.fail.lock() = None;
					match SubsClient::shapes(c, items.clone(), *n).await {
						Err(e) => obs.fail("c17/subscribe-failed", format!("{e:?}; {}", desc())),
						Ok(mut s) => {
							match read_items(&mut s, items.len()).await {
								Ok(got) => {
									let want: Vec<Value> = items.iter().map(to_v).collect();
									obs.check(got == want, "c17/subscription-items-differ", || format!("{got:?} vs {want:?}; {}", desc()));
								}
								Err(e) => obs.fail("c17/subscription-items-missing", format!("{e}; {}", desc())),
							}
							let _ = s.unsubscribe().await;
							crate::fix::server::settle().await;
							if let Err(e) = lb.unsubscribe_acknowledged() {
								obs.fail("c17/unsubscribe-not-acknowledged", format!("{e}; {}", desc()));
							}
						}
					}
					let calls = lb.state.calls.lock();
					let ok = calls.len() == 1 && calls[0].0 == "shapes" && calls[0].1.downcast_ref::<(Vec<Shape>, u64)>() == Some(&(items.clone(), *n));
					obs.check(ok, "c17/arguments-differ", || format!("{}", desc()));
					drop(calls);
					let first: Value = lb.wire.lock().first().and_then(|s| serde_json::from_str(s).ok()).unwrap_or(Value::Null);
					obs.check(first["method"] == json!("subscribeShapes") && first["params"].is_object(), "c17/by-name-encoding-not-used", || format!("{first}"));
					if let Err(e) = lb.notification_method_is("subscribeShapes") {
						obs.fail("c17/wrong-notification-method-name", format!("{e}; {}", desc()));
					}
				}
				Call17::SyncSub(items) => {
					*lb.state.fail.lock() = None;
					match SubsClient::sync_sub(c, items.clone()).await {
						Err(e) => obs.fail("c17/subscribe-failed", format!("{e:?}; {}", desc())),
						Ok(mut s) => {
							match read_items(&mut s, items.len()).await {
								Ok(got) => {
									let want: Vec<Value> = items.iter().map(to_v).collect();
									obs.check(got == want, "c17/subscription-items-differ", || format!("{got:?} vs {want:?}; {}", desc()));
								}
								Err(e) => obs.fail("c17/subscription-items-missing", format!("{e}; {}", desc())),
							}
							let _ = s.unsubscribe().await;
							crate::fix::server::settle().await;
							if let Err(e) = lb.unsubscribe_acknowledged() {
								obs.fail("c17/unsubscribe-not-acknowledged", format!("{e}; {}", desc()));
							}
						}
					}
					let calls = lb.state.calls.lock();
					let ok = calls.len() == 1 && calls[0].0 == "sync_sub" && calls[0].1.downcast_ref::<(Vec<u64>,)>() == Some(&(items.clone(),));
					obs.check(ok, "c17/arguments-differ", || format!("{}", desc()));
					drop(calls);
					if let Err(e) = lb.notification_method_is("subscribeSync") {
						obs.fail("c17/wrong-notification-method-name", format!("{e}; {}", desc()));
					}
				}
				Call17::SubX(which, items) => {
					*lb.state.fail.lock() = None;
					let (rust, short) = [("sync_ext", "se"), ("async_ext", "ae"), ("sync_plain", "sp")][*which as usize % 3];
					let r = match which % 3 {
						0 => SubsXClient::sync_ext(c, items.clone()).await,
						1 => SubsXClient::async_ext(c, items.clone()).await,
						_ => SubsXClient::sync_plain(c, items.clone()).await,
					};
					match r {
						Err(e) => obs.fail("c17/subscribe-failed", format!("{e:?}; {}", desc())),
						Ok(mut s) => {
							match read_items(&mut s, items.len()).await {
								Ok(got) => {
									let want: Vec<Value> = items.iter().map(to_v).collect();
									obs.check(got == want, "c17/subscription-items-differ", || format!("{got:?} vs {want:?}; {}", desc()));
								}
								Err(e) => obs.fail("c17/subscription-items-missing", format!("{e}; {}", desc())),
							}
							let _ = s.unsubscribe().await;
							crate::fix::server::settle().await;
							if let Err(e) = lb.unsubscribe_acknowledged() {
								obs.fail("c17/unsubscribe-not-acknowledged", format!("{e}; {}", desc()));
							}
						}
					}
					let calls = lb.state.calls.lock();
					let ok = calls.len() == 1 && calls[0].0 == rust && calls[0].1.downcast_ref::<(Vec<u64>,)>() == Some(&(items.clone(),));
					obs.check(ok, "c17/arguments-differ", || format!("subscription handler saw {:?}; {}", calls.iter().map(|c| c.0).collect::<Vec<_>>(), desc()));
					drop(calls);
					let w = lb.wire.lock();
					let first: Value = w.first().and_then(|s| serde_json::from_str(s).ok()).unwrap_or(Value::Null);
					obs.check(first["method"] == json!(format!("sx_{short}")), "c17/wrong-method-name-on-wire", || format!("{first}"));
					let last: Value = w.last().and_then(|s| serde_json::from_str(s).ok()).unwrap_or(Value::Null);
					obs.check(last["method"] == json!(format!("sx_{short}Stop")), "c17/wrong-unsubscribe-name-on-wire", || format!("{last}"));
					drop(w);
					if let Err(e) = lb.notification_method_is(&format!("sx_{short}Item")) {
						obs.fail("c17/wrong-notification-method-name", format!("{e}; {}", desc()));
					}
				}
				Call17::Mid(a, b, cc) => {
					opt_variation = a.is_none() || cc.is_none();
					let (c2, got) = match via {
						// hand-built array: the leading None must be spelled null, the trailing one may be left out
						Via::OmitTail(1) if cc.is_none() => (None, seen(c.request::<(Option<u8>, String, Option<bool>), _>("e_mid", arr(vec![to_v(a), to_v(b)])).await)),
						Via::ByName(st) => {
							let mut pairs = vec![(key("b", st), to_v(b))];
							if let Some(a) = a {
								pairs.push((key("a", st), to_v(a)));
							}
							if let Some(cc) = cc {
								pairs.push((key("c", st), to_v(cc)));
							}
							(*cc, seen(c.request::<(Option<u8>, String, Option<bool>), _>("e_mid", obj(pairs)).await))
						}
						_ => (*cc, seen(ExtraClient::mid(c, *a, b.clone(), *cc).await)),
					};
					judge!("mid", Some("e_mid"), (*a, b.clone(), c2), (*a, b.clone(), c2), got);
				}
				Call17::Unit(a) => {
					non_scalar = !a.is_empty();
					let got = seen(ExtraClient::unit(c, a.clone()).await);
					judge!("unit", Some("e_unit"), (a.clone(),), (), got);
				}
				Call17::MidMap(a, b) => {
					non_scalar = a.is_some();
					opt_variation = a.is_none();
					let got = match via {
						// by-name: the leading None simply left out
						Via::OmitTail(_) if a.is_none() => seen(c.request::<(Option<Point>, u64), _>("e_midmap", obj(vec![("b".into(), to_v(b))])).await),
						_ => seen(ExtraClient::midmap(c, a.clone(), *b).await),
					};
					judge!("midmap", Some("e_midmap"), (a.clone(), *b), (a.clone(), *b), got);
					if !matches!(via, Via::OmitTail(_)) {
						let first: Value = lb.wire.lock().first().and_then(|s| serde_json::from_str(s).ok()).unwrap_or(Value::Null);
						obs.check(first["params"].is_object(), "c17/by-name-encoding-not-used", || format!("{first}"));
					}
				}
				Call17::RawId(a, b) => {
					opt_variation = b.is_none();
					non_scalar = b.is_some();
					let got = seen(ExtraClient::rawid(c, a.clone(), *b).await);
					judge!("rawid", Some("e_rawid"), (a.clone(), *b), (a.clone(), *b), got);
				}
				Call17::Uni(a, b, cc) => {
					opt_variation = b.is_none();
					non_scalar = true;
					let got = seen(ExtraClient::uni(c, a.clone(), *b, *cc).await);
					judge!("uni", Some("e_uni"), (a.clone(), *b, *cc), (a.clone(), *b, *cc), got);
					let first: Value = lb.wire.lock().first().and_then(|s| serde_json::from_str(s).ok()).unwrap_or(Value::Null);
					obs.check(first["params"].get("名前").is_some() && first["params"].get("größe").is_some(), "c17/by-name-key-not-as-declared", || format!("{first}"));
				}
				Call17::GenCall(a, b) => {
					non_scalar = true;
					opt_variation = b.is_none();
					let got = seen(GenClient::<Shape, Tagged>::call(c, a.clone(), b.clone()).await);
					judge!("gen_call", Some("gen_call"), (a.clone(), b.clone()), (a.clone(), b.clone()), got);
				}
				Call17::GenSub(a, items) => {
					non_scalar = true;
					*lb.state.fail.lock() = None;
					match GenClient::<Shape, Tagged>::gsub(c, a.clone(), items.clone()).await {
						Err(e) => obs.fail("c17/subscribe-failed", format!("{e:?}; {}", desc())),
						Ok(mut s) => {
							match read_items(&mut s, items.len()).await {
								Ok(got) => {
									let want: Vec<Value> = (0..items.len()).map(|i| to_v(&items[..=i].to_vec())).collect();
									obs.check(got == want, "c17/subscription-items-differ", || format!("{got:?} vs {want:?}; {}", desc()));
								}
								Err(e) => obs.fail("c17/subscription-items-missing", format!("{e}; {}", desc())),
							}
							let _ = s.unsubscribe().await;
							crate::fix::server::settle().await;
							if let Err(e) = lb.unsubscribe_acknowledged() {
								obs.fail("c17/unsubscribe-not-acknowledged", format!("{e}; {}", desc()));
							}
						}
					}
					let calls = lb.state.calls.lock();
					let ok = calls.len() == 1 && calls[0].0 == "gen_sub" && calls[0].1.downcast_ref::<(Shape, Vec<Tagged>)>() == Some(&(a.clone(), items.clone()));
					obs.check(ok, "c17/arguments-differ", || format!("{}", desc()));
					drop(calls);
					let w = lb.wire.lock();
					let first: Value = w.first().and_then(|s| serde_json::from_str(s).ok()).unwrap_or(Value::Null);
					obs.check(first["method"] == json!("gen_sub"), "c17/wrong-method-name-on-wire", || format!("{first}"));
					let last: Value = w.last().and_then(|s| serde_json::from_str(s).ok()).unwrap_or(Value::Null);
					obs.check(last["method"] == json!("gen_unsub"), "c17/wrong-unsubscribe-name-on-wire", || format!("{last}"));
					drop(w);
					if let Err(e) = lb.notification_method_is("gen_sub") {
						obs.fail("c17/wrong-notification-method-name", format!("{e}; {}", desc()));
					}
				}
			}
			if non_scalar || opt_variation {
				obs.nontrivial();
			}
			obs.class(format!("{:?}", case.call).split(['(', ' ']).next().unwrap_or("").to_string());
			obs.class(format!("via:{}", format!("{:?}", case.via).split('(').next().unwrap_or("")));
			if opt_variation {
				obs.class("optional-tail-variation");
			}
			if case.fail.is_some() {
				obs.class("server-returns-error");
			}
		});
	}
}

fn same_args<T: Any + PartialEq + std::fmt::Debug>(got: &Box<dyn Any + Send>, want: &T) -> Result<(), String> {
	match got.downcast_ref::<T>() {
		Some(a) if a == want => Ok(()),
		Some(a) => Err(format!("got {a:?}, the stub was given {want:?}")),
		None => Err("recorded arguments of an unexpected type".into()),
	}
}

fn to_snake(s: &str) -> String {
	let mut out = String::new();
	for (i, c) in s.chars().enumerate() {
		if c.is_uppercase() {
			if i > 0 {
				out.push('_');
			}
			out.extend(c.to_lowercase());
		} else {
			out.push(c);
		}
	}
	out
}

fn to_camel(s: &str) -> String {
	let mut out = String::new();
	let mut up = false;
	for c in s.chars() {
		if c == '_' {
			up = true;
		} else if up {
			out.extend(c.to_uppercase());
			up = false;
		} else {
			out.push(c);
		}
	}
	out
}

pub fn check(ctx: &mut Ctx) {
	ctx.rule = "programs: a fixed family of 7 #[rpc(client, server)] traits / 25 methods compiled into the harness (0..4 params, trailing and non-trailing Options, unit return, a generic trait with a generic subscription item, param_kind array/map, #[argument(rename)], namespace with default and custom separator, aliases, sync/async/blocking, with_extensions, \
		subscriptions with params / item types / notification-name override / unsubscribe aliases / by-name params / sync handler; all four registration branches of a subscription - sync or async, with or without extensions - with an override); inputs: generated argument values (integers at type boundaries, Unicode strings, nested structs, externally and internally tagged enums, Vec, BTreeMap, Option, tuples) and generated server results/errors. \
		Each call goes stub -> real async client -> wire text -> Methods::raw_json_request -> server trait impl (which records its arguments). Also hand-built requests the stubs never emit: aliases, by-name requests with declared / snake_case / camelCase keys, trailing optionals omitted in arrays and objects. \
		Oracle: the server method of that name ran once with arguments equal (PartialEq) to the stub's, the wire method name is the declared one, the client gets exactly the returned value / error object, subscription items arrive in order. Non-trivial = a non-scalar argument or an optional-tail variation; distinct by case value."
		.into();
	ctx.assumptions = vec![
		"the API family is fixed at compile time (programs are not generated)".into(),
		"types whose JSON image is not injective (Option<Value> holding null, non-finite floats) are not used as argument types".into(),
	];
	ctx.extra.insert("programs".into(), json!(4));
	ctx.run_sub(&Stubs);
}

pub fn replay(file: &serde_json::Value) -> Option<i32> {
	replay_with(&Stubs, file, "C17")
}

#[allow(dead_code)]
fn _unused(_: ErrorObjectOwned) {}
