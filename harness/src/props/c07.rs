//! C07 — requests above max_request_body_size are never processed, on any path.

use crate::engine::*;
use crate::fix::server::*;
use proptest::prelude::*;
use serde::{Deserialize, Serialize};
use serde_json::{Value, json};

pub const LIMITS: [u32; 6] = [64, 100, 257, 1000, 4096, 65536];

#[derive(Clone, Copy, Debug, Serialize, Deserialize, PartialEq)]
pub enum Rel {
	Minus(u8),
	Exact,
	Plus(u8),
	Times2,
	Times10,
	Half,
}

#[derive(Clone, Copy, Debug, Serialize, Deserialize, PartialEq)]
pub enum Pad {
	InteriorBlanks,
	LongString,
	LeadingBlanks,
	TrailingBlanks,
	BatchOfOne,
}

#[derive(Clone, Debug, Serialize, Deserialize, PartialEq)]
pub enum Via {
	WsText,
	WsBinary,
	HttpContentLength,
	HttpNoContentLength,
	HttpChunked(Vec<u16>, bool),
	/// one WebSocket message sent as two frames (text/binary first frame, continuation with FIN), cut at the given
	/// place; each frame on its own is within the limit whenever the whole message is at most twice the limit
	WsFragmented(u16, bool),
	/// (entry points that take any `http_body::Body`) a Content-Length header that understates the body
	HttpUnderstatedLength(u16, bool),
}

#[derive(Clone, Copy, Debug, Serialize, Deserialize, PartialEq)]
pub enum EntryPoint {
	TowerService,
	LowLevel,
}

#[derive(Clone, Debug, Serialize, Deserialize)]
pub struct SizeCase {
	pub max_request: u32,
	pub max_response: u32,
	pub rel: Rel,
	pub pad: Pad,
	pub via: Via,
	pub entry: EntryPoint,
	pub kind: u8,
}

/// Build a valid call of exactly `size` bytes (None if `size` is below the smallest such message).
pub fn sized_request(size: usize, pad: Pad, method: &str) -> Option<(Vec<u8>, Value)> {
	let (head, tail, filler, result): (String, String, u8, Box<dyn Fn(usize) -> Value>) = match pad {
		Pad::InteriorBlanks => (format!(r#"{{"jsonrpc":"2.0","id":1,"method":"{method}","params":["#), r#""p"]}"#.to_string(), b' ', Box::new(|_| json!(["p"]))),
		Pad::LongString => (format!(r#"{{"jsonrpc":"2.0","id":1,"method":"{method}","params":[""#), r#""]}"#.to_string(), b'x', Box::new(|n| json!(["x".repeat(n)]))),
		Pad::LeadingBlanks => (String::new(), format!(r#"{{"jsonrpc":"2.0","id":1,"method":"{method}","params":["p"]}}"#), b' ', Box::new(|_| json!(["p"]))),
		Pad::TrailingBlanks => (format!(r#"{{"jsonrpc":"2.0","id":1,"method":"{method}","params":["p"]}}"#), String::new(), b'\n', Box::new(|_| json!(["p"]))),
		Pad::BatchOfOne => (format!(r#"[{{"jsonrpc":"2.0","id":1,"method":"{method}","params":["#), r#""p"]}]"#.to_string(), b' ', Box::new(|_| json!(["p"]))),
	};
	let base = head.len() + tail.len();
	if size < base {
		return None;
	}
	let n = size - base;
	if pad == Pad::LeadingBlanks && n > 127 {
		return None;
	}
	let mut bytes = head.into_bytes();
	bytes.extend(std::iter::repeat_n(filler, n));
	bytes.extend_from_slice(tail.as_bytes());
	debug_assert_eq!(bytes.len(), size);
	Some((bytes, result(n)))
}

pub fn target_size(limit: u32, rel: Rel) -> usize {
	let l = limit as i64;
	(match rel {
		Rel::Minus(d) => l - d as i64,
		Rel::Exact => l,
		Rel::Plus(d) => l + d as i64,
		Rel::Times2 => 2 * l,
		Rel::Times10 => 10 * l,
		Rel::Half => l / 2,
	})
	.max(0) as usize
}

pub struct Sizes;

impl SubCheck for Sizes {
	type Case = SizeCase;
	fn name(&self) -> &'static str {
		"request-sizes"
	}
	fn cases(&self, tier: Tier) -> u32 {
		tier.pick(100_000, 2_000_000)
	}
	fn strategy(&self, _tier: Tier) -> BoxedStrategy<SizeCase> {
		let lim = proptest::sample::select(LIMITS.to_vec());
		let rel = prop_oneof![
			3 => (1u8..3).prop_map(Rel::Minus),
			3 => Just(Rel::Exact),
			3 => (1u8..3).prop_map(Rel::Plus),
			1 => Just(Rel::Times2),
			1 => Just(Rel::Times10),
			1 => Just(Rel::Half),
		];
		let pad = prop_oneof![Just(Pad::InteriorBlanks), Just(Pad::LongString), Just(Pad::LeadingBlanks), Just(Pad::TrailingBlanks), Just(Pad::BatchOfOne)];
		let via = prop_oneof![
			2 => Just(Via::WsText),
			2 => Just(Via::WsBinary),
			2 => Just(Via::HttpContentLength),
			2 => Just(Via::HttpNoContentLength),
			2 => (proptest::collection::vec(any::<u16>(), 1..5), any::<bool>()).prop_map(|(c, cl)| Via::HttpChunked(c, cl)),
			2 => (any::<u16>(), any::<bool>()).prop_map(|(c, t)| Via::WsFragmented(c, t)),
			2 => (any::<u16>(), any::<bool>()).prop_map(|(c, t)| Via::HttpUnderstatedLength(c, t)),
		];
		let entry = prop_oneof![Just(EntryPoint::TowerService), Just(EntryPoint::LowLevel)];
		(lim.clone(), lim, rel, pad, via, entry, 0u8..3)
			.prop_map(|(max_request, max_response, rel, pad, via, entry, kind)| SizeCase { max_request, max_response, rel, pad, via, entry, kind })
			.boxed()
	}
	fn run(&self, case: &SizeCase, obs: &mut Obs) {
		let size = target_size(case.max_request, case.rel);
		let method = format!("echo_{}", KINDS[case.kind as usize % 3]);
		let Some((bytes, echoed)) = sized_request(size, case.pad, &method) else {
			obs.class("unbuildable-size");
			return;
		};
		let over = size > case.max_request as usize;
		if case.max_request != case.max_response && size.abs_diff(case.max_request as usize) <= 1 {
			obs.nontrivial();
		}
		obs.class(if over { "over-limit" } else { "within-limit" });
		obs.class(format!("entry:{:?}", case.entry));
		obs.class(format!("via:{}", format!("{:?}", case.via).split('(').next().unwrap()));
		obs.class(match case.max_request.cmp(&case.max_response) {
			std::cmp::Ordering::Less => "request-limit<response-limit",
			std::cmp::Ordering::Equal => "limits-equal",
			std::cmp::Ordering::Greater => "request-limit>response-limit",
		});
		obs.sample(json!({"max_request": case.max_request, "max_response": case.max_response, "size": size, "pad": format!("{:?}", case.pad), "via": format!("{:?}", case.via), "entry": format!("{:?}", case.entry)}));
		let desc = format!("max_request={} max_response={} size={} pad={:?} via={:?} entry={:?} method={method}", case.max_request, case.max_response, size, case.pad, case.via, case.entry);
		let is_batch = case.pad == Pad::BatchOfOne;
		let rt = rt();
		rt.block_on(async {
			let fix = Fixture::new(Cfg { max_request: case.max_request, max_response: case.max_response, ..Cfg::default() });
			let log0 = fix.ctx.log_len();
			// expected normal reply (or the response-size error when only the *reply* is too big)
			let normal = {
				let single = json!({"jsonrpc":"2.0","id":1,"result":echoed});
				let single_len = serde_json::to_string(&single).unwrap().len();
				let entry = if single_len > case.max_response as usize { None } else { Some(single) };
				entry
			};
			let reply_ok = |v: &Value| -> bool {
				let elem = if is_batch {
					match v {
						Value::Array(a) if a.len() == 1 => &a[0],
						// the batch as a whole may exceed the response limit
						other => return other.get("error").and_then(|e| e.get("code")).and_then(|c| c.as_i64()) == Some(-32011),
					}
				} else {
					v
				};
				match &normal {
					Some(n) => elem == n,
					None => elem.get("id") == Some(&json!(1)) && elem.get("error").and_then(|e| e.get("code")).and_then(|c| c.as_i64()) == Some(-32008),
				}
			};
			match &case.via {
				Via::WsText | Via::WsBinary | Via::WsFragmented(..) => {
					let ws = match case.entry {
						EntryPoint::TowerService => fix.ws().await,
						EntryPoint::LowLevel => fix.ws_lowlevel().await,
					};
					let mut ws = match ws {
						Ok(w) => w,
						Err(e) => {
							obs.fail("c07/ws-handshake", e);
							return;
						}
					};
					let r = match &case.via {
						Via::WsText => ws.send_text(std::str::from_utf8(&bytes).unwrap()).await,
						Via::WsFragmented(cut, text) if bytes.len() >= 2 && bytes.len() <= 2 * case.max_request as usize => {
							// both frames are within the limit on their own
							let lim = case.max_request as usize;
							let lo = bytes.len().saturating_sub(lim).max(1);
							let hi = lim.min(bytes.len() - 1);
							let at = lo + pick_idx(*cut, hi - lo + 1);
							obs.class("ws-message-in-two-frames");
							ws.send_fragmented(&bytes, *text, &[at]).await
						}
						_ => ws.send_binary(&bytes).await,
					};
					if let Err(e) = r {
						obs.fail("c07/ws-send", format!("{desc}: {e}"));
						return;
					}
					settle().await;
					let frames = ws.drain();
					let log = fix.ctx.log_since(log0);
					let sig_entry = if case.entry == EntryPoint::LowLevel { "c07/ws-connect" } else { "c07/ws" };
					let fragmented = matches!(case.via, Via::WsFragmented(..)) && bytes.len() >= 2 && bytes.len() <= 2 * case.max_request as usize;
					if over && fragmented {
						// Outside the property's domain ("single-frame message sizes"), only its safety half is asserted:
						// nothing is parsed or dispatched. (What happens next is soketto's doing: on MessageTooLarge it
						// discards as many bytes as the whole message had instead of what is left of the current frame,
						// so the rejection is only written when more bytes arrive and the stream is out of step afterwards.)
						obs.check(log.is_empty(), &format!("{sig_entry}-oversized-request-processed"), || format!("{desc}: log {log:?}"));
						obs.class("fragmented-oversized-message (only 'not dispatched' is judged)");
						return;
					}
					if over {
						obs.check(log.is_empty(), &format!("{sig_entry}-oversized-request-processed"), || format!("{desc}: log {log:?}"));
						let ok = frames.len() == 1
							&& matches!(&frames[0], WsEvent::Text(t) if serde_json::from_str::<Value>(t).ok().is_some_and(|v| v.get("id") == Some(&Value::Null) && v["error"]["code"] == json!(-32007)));
						obs.check(ok, &format!("{sig_entry}-oversized-request-answer"), || format!("{desc}: frames {frames:?}"));
					} else {
						obs.check(log.len() == 1 && log[0].name == method, &format!("{sig_entry}-within-limit-request-not-processed"), || format!("{desc}: log {log:?} frames {frames:?}"));
						let ok = frames.len() == 1 && matches!(&frames[0], WsEvent::Text(t) if serde_json::from_str::<Value>(t).ok().is_some_and(|v| reply_ok(&v)));
						obs.check(ok, &format!("{sig_entry}-within-limit-answer"), || format!("{desc}: frames {}", truncate(&format!("{frames:?}"), 500)));
					}
					// the connection keeps serving
					let _ = ws.send_text(r#"{"jsonrpc":"2.0","id":"s","method":"echo_sync"}"#).await;
					settle().await;
					let after = ws.drain_texts();
					let ok = after.len() == 1 && serde_json::from_str::<Value>(&after[0]).ok().is_some_and(|v| v.get("id") == Some(&json!("s")));
					obs.check(ok, &format!("{sig_entry}-connection-dead-after-message"), || format!("{desc}: {after:?}"));
				}
				via => {
					let (frames, cl) = match via {
						Via::HttpContentLength => (vec![bytes.clone()], true),
						Via::HttpNoContentLength => (vec![bytes.clone()], false),
						Via::HttpChunked(cuts, cl) => {
							let pos: Vec<usize> = cuts.iter().map(|c| pick_idx(*c, bytes.len() + 1)).collect();
							(crate::props::c19::cut(&bytes, &pos), *cl)
						}
						Via::HttpUnderstatedLength(_, two) => (if *two { crate::props::c19::cut(&bytes, &[bytes.len() / 2]) } else { vec![bytes.clone()] }, false),
						_ => unreachable!(),
					};
					let mut headers = vec![("content-type".to_string(), b"application/json".to_vec())];
					if let Via::HttpUnderstatedLength(claim, _) = via {
						// a declared length that is within the limit and smaller than the body
						let top = (case.max_request as usize).min(bytes.len().saturating_sub(1));
						let claimed = pick_idx(*claim, top + 1);
						headers.push(("content-length".to_string(), claimed.to_string().into_bytes()));
						obs.class("content-length-understates-the-body");
					}
					let headers_len = frames.len();
					let req = HttpReq { method: "POST".into(), headers, frames, content_length: cl, uri: "/".into(), trailers: !cl && headers_len % 2 == 1 };
					let r = match case.entry {
						EntryPoint::TowerService => fix.http(req).await,
						EntryPoint::LowLevel => fix.http_lowlevel(req).await,
					};
					settle().await;
					let log = fix.ctx.log_since(log0);
					if over {
						obs.check(log.is_empty(), "c07/http-oversized-request-processed", || format!("{desc}: log {log:?}"));
						obs.check(r.status >= 400, "c07/http-oversized-request-not-rejected", || format!("{desc}: status {} body {}", r.status, truncate(&String::from_utf8_lossy(&r.body), 300)));
					} else {
						obs.check(log.len() == 1 && log[0].name == method, "c07/http-within-limit-request-not-processed", || format!("{desc}: status {} log {log:?}", r.status));
						let ok = r.status == 200 && serde_json::from_slice::<Value>(&r.body).ok().is_some_and(|v| reply_ok(&v));
						obs.check(ok, "c07/http-within-limit-answer", || format!("{desc}: status {} body {}", r.status, truncate(&String::from_utf8_lossy(&r.body), 300)));
					}
				}
			}
		});
	}
}

// ---------------------------------------------------------------------------------------------
// S-tcp slice: the default `Server` (accept loop, real sockets, real clock)
// ---------------------------------------------------------------------------------------------

pub struct SizesTcp;

async fn run_tcp(case: &SizeCase, obs: &mut Obs) -> Result<(), String> {
	use tokio::io::{AsyncReadExt, AsyncWriteExt};
	use tokio::net::TcpStream;
	let size = target_size(case.max_request, case.rel);
	let method = format!("echo_{}", KINDS[case.kind as usize % 3]);
	let Some((bytes, _echoed)) = sized_request(size, case.pad, &method) else { return Ok(()) };
	let over = size > case.max_request as usize;
	let ctx = std::sync::Arc::new(HCtx { log: Default::default(), gates: Gates::default(), actors: Default::default(), guard_seen: Default::default(), sub_ids: Default::default() });
	let module = build_module(ctx.clone());
	let cfg = Cfg { max_request: case.max_request, max_response: case.max_response, ..Cfg::default() };
	let server = jsonrpsee_server::Server::builder().set_config(server_config(&cfg, false)).build("127.0.0.1:0").await.map_err(|e| format!("INCONCLUSIVE bind: {e}"))?;
	let addr = server.local_addr().map_err(|e| format!("INCONCLUSIVE {e}"))?;
	let handle = server.start(module);
	let wall = std::time::Duration::from_secs(20);
	let desc = format!("TCP Server: max_request={} max_response={} size={} pad={:?} via={:?}", case.max_request, case.max_response, size, case.pad, case.via);
	match &case.via {
		Via::WsText | Via::WsBinary | Via::WsFragmented(..) => {
			let s = TcpStream::connect(addr).await.map_err(|e| format!("INCONCLUSIVE connect {e}"))?;
			let mut ws = WsPeer::connect(s, tokio::spawn(async {})).await.map_err(|e| format!("INCONCLUSIVE handshake {e}"))?;
			match &case.via {
				Via::WsText => ws.send_text(std::str::from_utf8(&bytes).unwrap()).await,
				// (an oversized message goes as one frame here: see the in-memory sub-check for why)
				Via::WsFragmented(cut, text) if !over && bytes.len() >= 2 => {
					let lim = case.max_request as usize;
					let lo = bytes.len().saturating_sub(lim).max(1);
					let hi = lim.min(bytes.len() - 1);
					ws.send_fragmented(&bytes, *text, &[lo + pick_idx(*cut, hi - lo + 1)]).await
				}
				_ => ws.send_binary(&bytes).await,
			}
			.map_err(|e| format!("INCONCLUSIVE send {e}"))?;
			let first = tokio::time::timeout(wall, ws.events.recv()).await.map_err(|_| "INCONCLUSIVE no reply within the wall budget".to_string())?;
			let log = ctx.log_since(0);
			match first {
				Some(WsEvent::Text(t)) => {
					let v: Value = serde_json::from_str(&t).unwrap_or(Value::Null);
					if over {
						obs.check(log.is_empty(), "c07/server-ws-oversized-request-processed", || format!("{desc}: {log:?}"));
						obs.check(v["error"]["code"] == json!(-32007) && v["id"].is_null(), "c07/server-ws-oversized-request-answer", || format!("{desc}: {t}"));
					} else {
						obs.check(log.len() == 1, "c07/server-ws-within-limit-request-not-processed", || format!("{desc}: {log:?} {}", truncate(&t, 300)));
					}
				}
				other => obs.fail("c07/server-ws-unexpected-event", format!("{desc}: {other:?}")),
			}
			// still serving
			let _ = ws.send_text(r#"{"jsonrpc":"2.0","id":"s","method":"echo_sync"}"#).await;
			let second = tokio::time::timeout(wall, ws.events.recv()).await.map_err(|_| "INCONCLUSIVE no sentinel reply".to_string())?;
			obs.check(matches!(&second, Some(WsEvent::Text(t)) if t.contains("\"id\":\"s\"")), "c07/server-ws-connection-dead-after-message", || format!("{desc}: {second:?}"));
		}
		via => {
			let cl = !matches!(via, Via::HttpNoContentLength | Via::HttpChunked(_, false));
			let mut s = TcpStream::connect(addr).await.map_err(|e| format!("INCONCLUSIVE connect {e}"))?;
			let head = if cl {
				format!("POST / HTTP/1.1\r\nHost: localhost\r\nContent-Type: application/json\r\nConnection: close\r\nContent-Length: {}\r\n\r\n", bytes.len())
			} else {
				"POST / HTTP/1.1\r\nHost: localhost\r\nContent-Type: application/json\r\nConnection: close\r\nTransfer-Encoding: chunked\r\n\r\n".to_string()
			};
			let _ = s.write_all(head.as_bytes()).await;
			if cl {
				let _ = s.write_all(&bytes).await;
			} else {
				// real chunked transfer encoding, cut as the case says
				let pos: Vec<usize> = match via {
					Via::HttpChunked(cuts, _) => cuts.iter().map(|c| pick_idx(*c, bytes.len() + 1)).collect(),
					_ => vec![],
				};
				for f in crate::props::c19::cut(&bytes, &pos) {
					if f.is_empty() {
						continue;
					}
					let _ = s.write_all(format!("{:x}\r\n", f.len()).as_bytes()).await;
					let _ = s.write_all(&f).await;
					let _ = s.write_all(b"\r\n").await;
				}
				let _ = s.write_all(b"0\r\n\r\n").await;
			}
			let mut buf = vec![];
			tokio::time::timeout(wall, s.read_to_end(&mut buf)).await.map_err(|_| "INCONCLUSIVE no HTTP response within the wall budget".to_string())?.ok();
			let text = String::from_utf8_lossy(&buf).to_string();
			let status: u16 = text.split_whitespace().nth(1).and_then(|x| x.parse().ok()).unwrap_or(0);
			let log = ctx.log_since(0);
			if over {
				obs.check(log.is_empty(), "c07/server-http-oversized-request-processed", || format!("{desc}: {log:?}"));
				obs.check(status >= 400, "c07/server-http-oversized-request-not-rejected", || format!("{desc}: {}", truncate(&text, 300)));
			} else {
				obs.check(log.len() == 1 && status == 200, "c07/server-http-within-limit-request-not-processed", || format!("{desc}: status {status} {log:?}"));
			}
		}
	}
	let _ = handle.stop();
	let _ = tokio::time::timeout(wall, handle.stopped()).await;
	Ok(())
}

impl SubCheck for SizesTcp {
	type Case = SizeCase;
	fn name(&self) -> &'static str {
		"request-sizes-over-tcp"
	}
	fn cases(&self, tier: Tier) -> u32 {
		tier.pick(400, 8_000)
	}
	fn strategy(&self, tier: Tier) -> BoxedStrategy<SizeCase> {
		Sizes.strategy(tier).prop_map(|mut c| {
			c.entry = EntryPoint::TowerService;
			c
		}).boxed()
	}
	fn run(&self, case: &SizeCase, obs: &mut Obs) {
		let size = target_size(case.max_request, case.rel);
		if case.max_request != case.max_response && size.abs_diff(case.max_request as usize) <= 1 {
			obs.nontrivial();
		}
		let rt = tokio::runtime::Builder::new_multi_thread().worker_threads(2).enable_all().build().unwrap();
		let r = rt.block_on(run_tcp(case, obs));
		rt.shutdown_timeout(std::time::Duration::from_millis(100));
		match r {
			Ok(()) => obs.class("completed"),
			Err(_) => obs.class("inconclusive"),
		}
	}
}

pub fn check(ctx: &mut Ctx) {
	ctx.rule = "valid calls (and one-entry batches) padded to an exact byte size relative to max_request_body_size (limit-2..limit+2, x0.5, x2, x10) by interior / leading / trailing blanks or a long string param, \
		for every pair (max_request, max_response) of a grid of six values incl. unequal ones, delivered as WS text/binary frame, HTTP with/without Content-Length, HTTP chunked, through the TowerService and through the low-level ws::connect / http::call_with_service_builder entry points. \
		Oracle: size <= max_request <=> handler ran once and the normal reply (or -32008/-32011 if only the reply is too big); otherwise invocation log unchanged, -32007/id null on WS with the connection still serving, status >= 400 on HTTP. \
		Non-trivial = size within +-1 of the request limit with max_request != max_response; distinct by case value. Also: WebSocket messages sent as two frames, HTTP bodies whose Content-Length understates them, and (sub-check oversized-under-backpressure) an oversized message arriving while the peer does not read and the outgoing buffer is full: exactly one -32007, nothing dispatched, every queued call and a later call still answered."
		.into();
	ctx.assumptions = vec!["message size = WebSocket payload length / HTTP body length in bytes".into(), "the default `Server` (accept loop, real sockets, HTTP chunked transfer encoding on the wire) is covered by the real-clock sub-check request-sizes-over-tcp; a missed wall budget there is inconclusive".into()];
	ctx.run_sub(&Sizes);
	ctx.run_sub(&UnderBackpressure);
	ctx.run_sub(&SizesTcp);
}

pub fn replay(file: &serde_json::Value) -> Option<i32> {
	replay_with(&Sizes, file, "C07").or_else(|| replay_with(&UnderBackpressure, file, "C07")).or_else(|| replay_with(&SizesTcp, file, "C07"))
}

// ---------------------------------------------------------------------------------------------
// an oversized WebSocket message arriving while the connection's outgoing buffer is full
// ---------------------------------------------------------------------------------------------

#[derive(Clone, Debug, Serialize, Deserialize)]
pub struct PressureCase {
	pub limit: u16,
	pub over_by: u16,
	pub buffer_capacity: u8,
	pub queued: u8,
	pub pipe: u16,
	pub binary: bool,
	pub lowlevel: bool,
}

pub struct UnderBackpressure;

impl SubCheck for UnderBackpressure {
	type Case = PressureCase;
	fn name(&self) -> &'static str {
		"oversized-under-backpressure"
	}
	fn cases(&self, tier: Tier) -> u32 {
		tier.pick(3_000, 60_000)
	}
	fn strategy(&self, _tier: Tier) -> BoxedStrategy<PressureCase> {
		(100u16..400, prop_oneof![Just(1u16), Just(2u16), 3u16..200], prop_oneof![Just(1u8), Just(2u8), Just(8u8)], 2u8..7, 128u16..1024, any::<bool>(), proptest::bool::weighted(0.3))
			.prop_map(|(limit, over_by, buffer_capacity, queued, pipe, binary, lowlevel)| PressureCase { limit, over_by, buffer_capacity, queued, pipe, binary, lowlevel })
			.boxed()
	}
	fn run(&self, case: &PressureCase, obs: &mut Obs) {
		let rt = rt();
		rt.block_on(async {
			let fix = Fixture::new(Cfg { max_request: case.limit as u32, buffer_capacity: case.buffer_capacity.max(1) as u32, ..Cfg::default() });
			let ws = if case.lowlevel { fix.ws_lowlevel().await } else { fix.ws_with(case.pipe as usize).await };
			let Ok(mut ws) = ws else {
				obs.fail("c07/ws-handshake", "failed".to_string());
				return;
			};
			let desc = || format!("case={case:?}");
			// the peer stops reading (its reader takes one last message first)
			ws.read_gate.pause();
			let _ = ws.send_text(r#"{"jsonrpc":"2.0","id":"last-read","method":"echo_sync","params":[0]}"#).await;
			settle().await;
			let _ = ws.drain();
			// answers that do not fit into the pipe pile up in the connection's outgoing buffer
			for k in 0..case.queued {
				let _ = ws.send_text(&format!(r#"{{"jsonrpc":"2.0","id":"q{k}","method":"big_async","params":[3000,0,0]}}"#)).await;
			}
			settle().await;
			// now the oversized message: a valid call padded beyond the limit
			let size = case.limit as usize + case.over_by as usize;
			let head = r#"{"jsonrpc":"2.0","id":"too-big","method":"echo_sync","params":[""#;
			let tail = r#""]}"#;
			let pad = size.saturating_sub(head.len() + tail.len());
			let msg = format!("{head}{}{tail}", "x".repeat(pad));
			let log0 = fix.ctx.log_len();
			let sent = if case.binary { ws.send_binary(msg.as_bytes()).await } else { ws.send_text(&msg).await };
			if sent.is_err() {
				obs.fail("c07/ws-send", desc());
				return;
			}
			let _ = ws.send_text(r#"{"jsonrpc":"2.0","id":"after","method":"echo_sync","params":[1]}"#).await;
			settle().await;
			ws.read_gate.resume();
			settle().await;
			let frames: Vec<Value> = ws.drain_texts().iter().filter_map(|t| serde_json::from_str(t).ok()).collect();
			let ran: Vec<Invocation> = fix.ctx.log_since(log0).into_iter().filter(|l| l.params.as_deref().is_some_and(|p| p.contains("xxxx"))).collect();
			obs.check(ran.is_empty(), "c07/ws-oversized-request-processed", || format!("{ran:?}; {}", desc()));
			let rejected = frames.iter().filter(|f| f["error"]["code"] == json!(-32007) && f["id"].is_null()).count();
			obs.check(rejected == 1, "c07/ws-oversized-request-answer", || format!("{rejected} rejections (-32007) among {} frames while the outgoing buffer was full; {}", frames.len(), desc()));
			obs.check(frames.iter().any(|f| f["id"] == json!("after") && f.get("result").is_some()), "c07/ws-connection-dead-after-message", || format!("the call sent after the oversized message was not answered; frames {}; {}", truncate(&format!("{frames:?}"), 400), desc()));
			let answered = (0..case.queued).filter(|k| frames.iter().any(|f| f["id"] == json!(format!("q{k}")))).count();
			obs.check(answered == case.queued as usize, "c07/ws-queued-calls-lost", || format!("{answered} of {} queued calls answered; {}", case.queued, desc()));
			obs.nontrivial();
			obs.class(if case.lowlevel { "low-level-ws-connect" } else { "tower-service" });
			obs.class(format!("buffer:{}", case.buffer_capacity));
		});
	}
}
