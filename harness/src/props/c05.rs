//! C05 — client: a subscription stream yields exactly its own notifications, in order.

use crate::engine::*;
use crate::fix::client::*;
use crate::fix::server::{rt, settle};
use futures_util::FutureExt;
use jsonrpsee_core::client::{Subscription, SubscriptionClientT, SubscriptionCloseReason};
use jsonrpsee_core::rpc_params;
use proptest::prelude::*;
use serde::{Deserialize, Serialize};
use serde_json::{Value, json};
use std::collections::VecDeque;

#[derive(Clone, Debug, Serialize, Deserialize, PartialEq)]
pub enum S5 {
	Subscribe { string_id: bool },
	RegisterHandler,
	/// push an item for a subscription id: pick among [known ids..., unknown]; `join`: pack with the previous push into one array
	Push { pick: u16, join: bool },
	PushClose { pick: u16, join: bool },
	PushPlain { registered: bool, join: bool },
	Poll { pick: u16, n: u8 },
	Unsubscribe { pick: u16 },
	Drop { pick: u16 },
}

#[derive(Clone, Debug, Serialize, Deserialize)]
pub struct C05Case {
	pub steps: Vec<S5>,
	pub cap: u8,
	pub settle_each: bool,
	/// force every push to be delivered singly (the metamorphic twin of the same history)
	pub id_kind: IdK,
}

#[derive(Clone, Debug, PartialEq)]
enum St {
	Live,
	Lagged,
	ServerClosed,
	Gone,
}

struct MSub {
	/// Some(id) for real subscriptions; None for a method-notification handler
	sub_id: Option<Value>,
	unsub_method: String,
	buffered: VecDeque<Value>,
	state: St,
	handle: Option<Subscription<Value>>,
	pushed: Vec<Value>,
	yielded: Vec<Value>,
	ended_seen: bool,
	min_unsubs: usize,
	max_unsubs: usize,
	/// lagged inside the array that is being assembled right now
	lagged_in_open_array: bool,
	/// the server closed it in the same array right after it lagged: 0 or 1 unsubscribe requests, not judged
	unsub_ambiguous: bool,
}

pub struct Streams;

fn run_case(case: &C05Case, force_single: bool, obs: &mut Obs) -> Vec<(Vec<Value>, String, Option<usize>)> {
	let cap = case.cap.max(1) as usize;
	let rt = rt();
	crate::panics::clear_local();
	rt.block_on(async {
		let mut mc = MockClient::new(ClientCfg { id_kind: case.id_kind, sub_buffer: cap, mw_last: case.cap % 3 == 0, ws_builder: case.cap % 2 == 1, ..ClientCfg::default() });
		let mut subs: Vec<MSub> = vec![];
		let mut item_no = 0u64;
		let mut pending_msgs: Vec<Value> = vec![];
		let exact = case.settle_each;
		let mut had_array = false;
		let mut had_close = false;
		let mut had_lag = false;
		let mut handler_registered = false;
		// odd-but-legal texts for a share of the cases: blanks around the message, and members a reader ignores
		// (inside `params` next to `subscription`/`result`, and at the top level)
		let decorate = case.cap % 2 == 0;
		let flush = |pending: &mut Vec<Value>, mc: &MockClient, had_array: &mut bool| {
			if pending.is_empty() {
				return;
			}
			if decorate {
				for (k, m) in pending.iter_mut().enumerate() {
					if let Some(p) = m.get_mut("params").and_then(|p| p.as_object_mut()) {
						if p.contains_key("subscription") {
							p.insert("seq".into(), json!(k));
						}
					}
					if k % 2 == 0 {
						m["extra"] = json!({"subscription": "nobody"});
					}
				}
			}
			let text = if pending.len() == 1 {
				pending[0].to_string()
			} else {
				*had_array = true;
				Value::Array(pending.clone()).to_string()
			};
			mc.push_text(if decorate { format!(" \r\n\t{text}\n ") } else { text });
			pending.clear();
		};
		if decorate {
			obs.class("server-messages-with-blanks-and-unknown-members");
		}
		macro_rules! fail {
			($sig:expr, $($arg:tt)*) => { obs.fail($sig, format!("{} | case={:?} force_single={}", format!($($arg)*), case, force_single)) };
		}
		for (si, step) in case.steps.iter().enumerate() {
			let is_push = matches!(step, S5::Push { .. } | S5::PushClose { .. } | S5::PushPlain { .. });
			let join = match step {
				S5::Push { join, .. } | S5::PushClose { join, .. } | S5::PushPlain { join, .. } => *join && !force_single,
				_ => false,
			};
			if !(is_push && join) {
				for s in subs.iter_mut() {
					s.lagged_in_open_array = false;
				}
				flush(&mut pending_msgs, &mc, &mut had_array);
				if exact {
					settle().await;
				}
			}
			match step {
				S5::Subscribe { string_id } => {
					let k = subs.len();
					let c = mc.client.clone();
					let (m, u) = (format!("sub{k}"), format!("unsub{k}"));
					let (m2, u2) = (m.clone(), u.clone());
					let h = tokio::spawn(async move { c.subscribe::<Value, _>(&m2, rpc_params![], &u2).await });
					settle().await;
					let wire = mc.new_wire();
					let Some(id) = wire_id_of(&wire, &m) else {
						fail!("c05/subscribe-not-on-wire", "step {si}");
						return vec![];
					};
					let sid = if *string_id { json!(format!("S{k}")) } else { json!(7000 + k as u64) };
					mc.push_text(json!({"jsonrpc":"2.0","id":id,"result":sid}).to_string());
					settle().await;
					match h.now_or_never() {
						Some(Ok(Ok(s))) => subs.push(MSub { sub_id: Some(sid), unsub_method: u, buffered: VecDeque::new(), state: St::Live, handle: Some(s), pushed: vec![], yielded: vec![], ended_seen: false, min_unsubs: 0, max_unsubs: 0, lagged_in_open_array: false, unsub_ambiguous: false }),
						other => {
							fail!("c05/subscribe-failed", "step {si}: {:?}", other.map(|r| r.map(|r| r.map(|_| "sub"))));
							return vec![];
						}
					}
				}
				S5::RegisterHandler => {
					if !handler_registered {
						let c = mc.client.clone();
						let h = tokio::spawn(async move { c.subscribe_to_method::<Value>("plain_a").await });
						settle().await;
						match h.now_or_never() {
							Some(Ok(Ok(s))) => {
								handler_registered = true;
								subs.push(MSub { sub_id: None, unsub_method: String::new(), buffered: VecDeque::new(), state: St::Live, handle: Some(s), pushed: vec![], yielded: vec![], ended_seen: false, min_unsubs: 0, max_unsubs: 0, lagged_in_open_array: false, unsub_ambiguous: false });
							}
							_ => {
								fail!("c05/register-handler-failed", "step {si}");
								return vec![];
							}
						}
					}
				}
				S5::Push { pick, .. } => {
					item_no += 1;
					let real: Vec<usize> = (0..subs.len()).filter(|i| subs[*i].sub_id.is_some()).collect();
					let k = pick_idx(*pick, real.len() + 1);
					let (sid, target) = if k < real.len() { (subs[real[k]].sub_id.clone().unwrap(), Some(real[k])) } else { (json!("unknown-sub"), None) };
					let payload = json!({"item": item_no});
					pending_msgs.push(json!({"jsonrpc":"2.0","method":"notif_x","params":{"subscription": sid, "result": payload}}));
					if let Some(t) = target {
						let s = &mut subs[t];
						if s.state == St::Live {
							s.pushed.push(payload.clone());
							if !exact {
								// without settling the model cannot know how many items are buffered: only record the push
							} else if s.buffered.len() < cap {
								s.buffered.push_back(payload);
							} else {
								s.state = St::Lagged;
								s.min_unsubs = 1;
								s.max_unsubs = 1;
								s.lagged_in_open_array = true;
								had_lag = true;
							}
						}
					}
				}
				S5::PushClose { pick, .. } => {
					let real: Vec<usize> = (0..subs.len()).filter(|i| subs[*i].sub_id.is_some()).collect();
					let k = pick_idx(*pick, real.len() + 1);
					let (sid, target) = if k < real.len() { (subs[real[k]].sub_id.clone().unwrap(), Some(real[k])) } else { (json!("unknown-sub"), None) };
					// (the error member is any JSON value: plain text, text that needs escaping, an error object, a number, null)
					let err = match pick % 6 {
						0 => json!("closed by server"),
						1 => json!("closed: \"quota\" exceeded\n\\ caf\u{e9} \u{1}"),
						2 => json!({"code": -32000, "message": "closed", "data": [1, 2]}),
						3 => json!(17),
						4 => Value::Null,
						_ => json!(["closed", {"by": "server"}]),
					};
					pending_msgs.push(json!({"jsonrpc":"2.0","method":"notif_x","params":{"subscription": sid, "error": err}}));
					if let Some(t) = target {
						if subs[t].state == St::Live {
							subs[t].state = St::ServerClosed;
							had_close = true;
						} else if subs[t].state == St::Lagged && subs[t].lagged_in_open_array && join {
							// lag and server-side close in one array: the client drops the subscription before its own
							// unsubscribe request is built; whether one is sent is not judged (see DESIGN.md, domain decisions)
							subs[t].min_unsubs = 0;
							subs[t].unsub_ambiguous = true;
						}
					}
				}
				S5::PushPlain { registered, .. } => {
					item_no += 1;
					let payload = json!([item_no]);
					let method = if *registered { "plain_a" } else { "plain_nobody" };
					pending_msgs.push(json!({"jsonrpc":"2.0","method":method,"params":payload}));
					if *registered {
						if let Some(s) = subs.iter_mut().find(|s| s.sub_id.is_none()) {
							if s.state == St::Live {
								s.pushed.push(payload.clone());
								if !exact {
								} else if s.buffered.len() < cap {
									s.buffered.push_back(payload);
								} else {
									s.state = St::Lagged;
									had_lag = true;
								}
							}
						}
					}
				}
				S5::Poll { pick, n } => {
					if subs.is_empty() {
						continue;
					}
					let t = pick_idx(*pick, subs.len());
					let s = &mut subs[t];
					let Some(h) = s.handle.as_mut() else { continue };
					for _ in 0..(*n).max(1) {
						let got = h.next().now_or_never();
						match got {
							None => {
								if exact {
									let must_have = !s.buffered.is_empty() || s.state != St::Live;
									if must_have {
										fail!("c05/stream-pending-although-item-or-end-due", "step {si} sub#{t} model buffered={:?} state={:?}", s.buffered, s.state);
									}
								}
								break;
							}
							Some(Some(Ok(v))) => {
								s.yielded.push(v.clone());
								if exact {
									match s.buffered.pop_front() {
										Some(w) if w == v => {}
										other => fail!("c05/stream-yielded-unexpected-item", "step {si} sub#{t} got {v} model next {other:?}"),
									}
								}
							}
							Some(Some(Err(e))) => fail!("c05/stream-item-not-decodable", "step {si} sub#{t}: {e}"),
							Some(None) => {
								s.ended_seen = true;
								if exact && (!s.buffered.is_empty() || s.state == St::Live) {
									let sig = if had_array && had_close { "c05/stream-ended-early" } else { "c05/stream-ended-early" };
									fail!(sig, "step {si} sub#{t} ended with model buffered={:?} state={:?}", s.buffered, s.state);
								}
								break;
							}
						}
					}
				}
				S5::Unsubscribe { pick } => {
					if subs.is_empty() {
						continue;
					}
					let t = pick_idx(*pick, subs.len());
					let s = &mut subs[t];
					if let Some(h) = s.handle.take() {
						let was_live = s.state == St::Live;
						let jh = tokio::spawn(async move { h.unsubscribe().await });
						settle().await;
						match jh.now_or_never() {
							Some(Ok(Ok(()))) => {}
							other => fail!("c05/unsubscribe-did-not-complete", "step {si} sub#{t}: {other:?}"),
						}
						if s.sub_id.is_some() {
							if was_live {
								s.min_unsubs = 1;
								s.max_unsubs = 1;
							} else if s.state == St::ServerClosed {
								s.max_unsubs = 1;
							}
						}
						s.state = St::Gone;
						s.buffered.clear();
					}
				}
				S5::Drop { pick } => {
					if subs.is_empty() {
						continue;
					}
					let t = pick_idx(*pick, subs.len());
					let s = &mut subs[t];
					if let Some(h) = s.handle.take() {
						let was_live = s.state == St::Live;
						drop(h);
						if s.sub_id.is_some() && was_live {
							// the request queue (256) has room in these histories: exactly one
							s.min_unsubs = 1;
							s.max_unsubs = 1;
						} else if s.state == St::ServerClosed {
							s.max_unsubs = 1;
						}
						s.state = St::Gone;
						s.buffered.clear();
					}
				}
			}
		}
		flush(&mut pending_msgs, &mc, &mut had_array);
		settle().await;
		// drain every still-held stream completely; check the ends
		let mut results = vec![];
		for (t, s) in subs.iter_mut().enumerate() {
			let mut reason = "held-open".to_string();
			if let Some(h) = s.handle.as_mut() {
				loop {
					match h.next().now_or_never() {
						None => break,
						Some(Some(Ok(v))) => {
							s.yielded.push(v.clone());
							match s.buffered.pop_front() {
								Some(w) if w == v => {}
								other => {
									if exact {
										fail!("c05/stream-yielded-unexpected-item", "final drain sub#{t} got {v} model next {other:?}")
									}
								}
							}
						}
						Some(Some(Err(e))) => fail!("c05/stream-item-not-decodable", "sub#{t}: {e}"),
						Some(None) => {
							s.ended_seen = true;
							break;
						}
					}
				}
				reason = match (s.ended_seen, h.close_reason()) {
					(false, None) => "open".into(),
					(_, Some(SubscriptionCloseReason::Lagged)) => "lagged".into(),
					(_, Some(SubscriptionCloseReason::ConnectionClosed)) => "closed".into(),
					(true, None) => "ended-without-reason".into(),
				};
				let want = match s.state {
					St::Live => "open",
					St::Lagged => "lagged",
					St::ServerClosed => "closed",
					St::Gone => "gone",
				};
				if exact {
					if reason != want {
						let sig = if s.state == St::ServerClosed && had_array { "c05/close-in-array-ignored" } else { "c05/stream-end-state" };
						fail!(sig, "sub#{t} is {reason}, model says {want}; yielded {:?}", s.yielded);
					}
					if !s.buffered.is_empty() {
						fail!("c05/stream-lost-items", "sub#{t} model still has {:?}", s.buffered);
					}
				}
			}
			// order-insensitive part, always: yields are an in-order subsequence of what was pushed for this id
			let mut it = s.pushed.iter();
			for y in &s.yielded {
				if !it.any(|p| p == y) {
					fail!("c05/stream-yielded-foreign-or-reordered-item", "sub#{t} yielded {:?}, pushed {:?}", s.yielded, s.pushed);
					break;
				}
			}
			results.push((s.yielded.clone(), reason, Some(0usize)));
		}
		// unsubscribe requests on the wire
		let wire = mc.wire_all();
		for (t, s) in subs.iter().enumerate() {
			let Some(sid) = &s.sub_id else { continue };
			let n = wire.iter().filter(|m| m.get("method").and_then(|x| x.as_str()) == Some(s.unsub_method.as_str()) && m.get("params") == Some(&json!([sid]))).count();
			let wrong = wire.iter().filter(|m| m.get("method").and_then(|x| x.as_str()) == Some(s.unsub_method.as_str()) && m.get("params") != Some(&json!([sid]))).count();
			if wrong > 0 {
				fail!("c05/unsubscribe-names-wrong-subscription", "sub#{t} {sid}: wire {wire:?}");
			}
			results[t].2 = if s.unsub_ambiguous { None } else { Some(n) };
			if exact {
				if n < s.min_unsubs || n > s.max_unsubs.max(s.min_unsubs) {
					fail!("c05/unsubscribe-request-count", "sub#{t} {sid}: {n} unsubscribe requests, model wants {}..={}; state {:?}", s.min_unsubs, s.max_unsubs.max(s.min_unsubs), s.state);
				}
			} else if n > 1 {
				fail!("c05/more-than-one-unsubscribe-request", "sub#{t} {sid}: {n}");
			}
		}
		let panics = crate::panics::take_local();
		if !panics.is_empty() {
			fail!("c05/background-panic", "{panics:?}");
		}
		if !mc.client.is_connected() {
			fail!("c05/client-disconnected", "events {:?}", mc.shared.events.lock());
		}
		let nsubs = subs.iter().filter(|s| s.sub_id.is_some()).count();
		if nsubs >= 2 || had_close || had_lag || had_array {
			obs.nontrivial();
		}
		if !force_single {
			if had_array {
				obs.class("with-array");
			}
			if had_close {
				obs.class("with-server-close");
			}
			if had_lag {
				obs.class("with-lag");
			}
			obs.class(if exact { "settling" } else { "non-settling" });
			obs.class(format!("subs:{}", nsubs.min(4)));
		}
		results
	})
}

impl SubCheck for Streams {
	type Case = C05Case;
	fn name(&self) -> &'static str {
		"streams"
	}
	fn cases(&self, tier: Tier) -> u32 {
		tier.pick(200_000, 4_000_000)
	}
	fn strategy(&self, tier: Tier) -> BoxedStrategy<C05Case> {
		let max = tier.pick(18usize, 36);
		let step = prop_oneof![
			2 => any::<bool>().prop_map(|string_id| S5::Subscribe { string_id }),
			1 => Just(S5::RegisterHandler),
			10 => (any::<u16>(), any::<bool>()).prop_map(|(pick, join)| S5::Push { pick, join }),
			2 => (any::<u16>(), any::<bool>()).prop_map(|(pick, join)| S5::PushClose { pick, join }),
			2 => (any::<bool>(), any::<bool>()).prop_map(|(registered, join)| S5::PushPlain { registered, join }),
			5 => (any::<u16>(), 1u8..4).prop_map(|(pick, n)| S5::Poll { pick, n }),
			1 => any::<u16>().prop_map(|pick| S5::Unsubscribe { pick }),
			1 => any::<u16>().prop_map(|pick| S5::Drop { pick }),
		];
		(proptest::collection::vec(step, 1..max), 1u8..5, proptest::bool::weighted(0.8), prop_oneof![Just(IdK::Number), Just(IdK::String)], 1usize..4)
			.prop_map(|(mut steps, cap, settle_each, id_kind, pre)| {
				// most histories start with a few subscriptions
				for i in 0..pre {
					steps.insert(0, S5::Subscribe { string_id: i % 2 == 1 });
				}
				C05Case { steps, cap, settle_each, id_kind }
			})
			.boxed()
	}
	fn run(&self, case: &C05Case, obs: &mut Obs) {
		let a = run_case(case, false, obs);
		if !obs.failures.is_empty() {
			return;
		}
		// metamorphic twin: the same history with every push delivered singly
		let has_join = case.steps.iter().any(|s| matches!(s, S5::Push { join: true, .. } | S5::PushClose { join: true, .. } | S5::PushPlain { join: true, .. }));
		if has_join && case.settle_each {
			let mut o2 = Obs::new();
			let b = run_case(case, true, &mut o2);
			obs.failures.extend(o2.failures);
			let same = a.len() == b.len() && a.iter().zip(b.iter()).all(|(x, y)| x.0 == y.0 && x.1 == y.1 && (x.2.is_none() || y.2.is_none() || x.2 == y.2));
			if !same {
				obs.fail("c05/array-packing-changes-outcome", format!("packed: {a:?}\nsingly: {b:?}\ncase={case:?}"));
			}
			obs.weight = 2;
		}
	}
}

// ---------------------------------------------------------------------------------------------
// a stream dropped while the client's request queue is full: the later notification must trigger the unsubscribe
// ---------------------------------------------------------------------------------------------

#[derive(Clone, Debug, Serialize, Deserialize)]
pub struct FullQueueCase {
	pub before: u8,
	pub pushes_after: u8,
	pub packed: bool,
	pub string_sub_id: bool,
	pub id_kind: IdK,
	pub cap: u8,
	/// the application calls `unsubscribe()` instead of dropping the stream
	#[serde(default)]
	pub explicit: bool,
	/// the stream is kept, and while the queue is full the server pushes more than the buffer holds: the
	/// subscription is closed for lagging by the client itself
	#[serde(default)]
	pub lag: bool,
}

pub struct DroppedWithFullQueue;

/// returns (number of unsubscribe requests naming the id, table sizes after the unsubscribe was acknowledged)
pub async fn full_queue_scenario(case: &FullQueueCase, fails: &mut Vec<(String, String)>) -> (usize, Option<[usize; 4]>, bool) {
	use jsonrpsee_core::client::ClientT;
	let mut mc = MockClient::new(ClientCfg { id_kind: case.id_kind, sub_buffer: case.cap.max(1) as usize, max_concurrent_requests: 1, ping: false, mw_last: case.pushes_after % 2 == 0, ws_builder: case.before % 2 == 1 });
	let c = mc.client.clone();
	let h = tokio::spawn(async move { c.subscribe::<Value, _>("sub", rpc_params![], "unsub").await });
	settle().await;
	let wire = mc.new_wire();
	let Some(id) = wire_id_of(&wire, "sub") else {
		fails.push(("c05/subscribe-not-on-wire".into(), String::new()));
		return (0, None, false);
	};
	let sid = if case.string_sub_id { json!("SUB") } else { json!(4242) };
	mc.push_text(json!({"jsonrpc":"2.0","id":id,"result":sid}).to_string());
	settle().await;
	let Some(Ok(Ok(mut stream))) = h.now_or_never() else {
		fails.push(("c05/subscribe-failed".into(), String::new()));
		return (0, None, false);
	};
	let notif = |n: u64| json!({"jsonrpc":"2.0","method":"n","params":{"subscription":sid,"result":n}});
	for k in 0..case.before.min(case.cap.max(1)) {
		mc.push_text(notif(k as u64).to_string());
		settle().await;
		let got = stream.next().now_or_never();
		if !matches!(got, Some(Some(Ok(_)))) {
			fails.push(("c05/stream-did-not-yield-item".into(), format!("{got:?}")));
		}
	}
	// call A hangs inside the transport's send, call B fills the only slot of the request queue
	mc.shared.send_plans.lock().push_back(SendPlan::Gate("g".into()));
	let ca = mc.client.clone();
	let cb = mc.client.clone();
	let ta = tokio::spawn(async move { ca.request::<Value, _>("call_a", rpc_params![]).await.is_ok() });
	settle().await;
	let tb = tokio::spawn(async move { cb.request::<Value, _>("call_b", rpc_params![]).await.is_ok() });
	settle().await;
	// the application lets go of the stream now: the notice to the background task does not fit into the queue
	let mut unsub_task = None;
	if case.lag {
		// more pushes than the buffer holds, while the read task cannot hand its close notice to the send task
		let cap = case.cap.max(1) as u64;
		for k in 0..cap + 2 {
			mc.push_text(notif(50 + k).to_string());
		}
		settle().await;
		mc.shared.gates.open("g");
		settle().await;
		let wire = mc.wire_all();
		for m in ["call_a", "call_b"] {
			if let Some(id) = wire_id_of(&wire, m) {
				mc.push_text(json!({"jsonrpc":"2.0","id":id,"result":0}).to_string());
			}
		}
		settle().await;
		let _ = (ta.now_or_never(), tb.now_or_never());
		let count = mc.wire_all().iter().filter(|m| m["method"] == json!("unsub") && m["params"] == json!([sid])).count();
		if count != 1 {
			fails.push(("c05/lagging-stream-unsubscribe-count".into(), format!("{count} unsubscribe requests for a subscription that lagged while the request queue was full")));
		}
		// the stream yields what was buffered and then ends
		let mut yielded = 0;
		loop {
			match stream.next().now_or_never() {
				Some(Some(Ok(_))) => yielded += 1,
				Some(None) => break,
				Some(Some(Err(e))) => {
					fails.push(("c05/lagging-stream-yielded-error".into(), format!("{e:?}")));
					break;
				}
				None => {
					fails.push(("c05/lagging-stream-never-ends".into(), format!("after {yielded} items the stream is pending although the subscription lagged")));
					break;
				}
			}
		}
		if let Some(uid) = wire_id_of(&mc.wire_all(), "unsub") {
			mc.push_text(json!({"jsonrpc":"2.0","id":uid,"result":true}).to_string());
		}
		settle().await;
		drop(stream);
		settle().await;
		#[cfg(feature = "hooks")]
		let sizes = Some(mc.client.verif_table_sizes());
		#[cfg(not(feature = "hooks"))]
		let sizes = None;
		if !mc.client.is_connected() {
			fails.push(("c05/client-disconnected".into(), format!("{:?}", mc.shared.events.lock())));
		}
		return (count, sizes, false);
	}
	if case.explicit {
		// an explicit unsubscribe waits for room in the queue instead
		unsub_task = Some(tokio::spawn(async move { stream.unsubscribe().await.is_ok() }));
	} else {
		drop(stream);
	}
	settle().await;
	mc.shared.gates.open("g");
	settle().await;
	let wire = mc.wire_all();
	for m in ["call_a", "call_b"] {
		if let Some(id) = wire_id_of(&wire, m) {
			mc.push_text(json!({"jsonrpc":"2.0","id":id,"result":0}).to_string());
		}
	}
	settle().await;
	let _ = (ta.now_or_never(), tb.now_or_never());
	let count = |mc: &MockClient| mc.wire_all().iter().filter(|m| m["method"] == json!("unsub") && m["params"] == json!([sid])).count();
	let lost = count(&mc) == 0;
	if case.explicit && count(&mc) != 1 {
		fails.push(("c05/explicit-unsubscribe-request-count".into(), format!("{} unsubscribe requests on the wire after the request queue drained (explicit unsubscribe() issued while the queue was full)", count(&mc))));
	}
	// "... exactly one whenever ... a further notification for it arrives"
	let n = case.pushes_after.max(1) as u64;
	if case.packed && n >= 2 {
		mc.push_text(Value::Array((0..n).map(|k| notif(100 + k)).collect()).to_string());
	} else {
		for k in 0..n {
			mc.push_text(notif(100 + k).to_string());
			settle().await;
		}
	}
	settle().await;
	let after = count(&mc);
	// acknowledge the unsubscribe and look at the tables
	let wire = mc.wire_all();
	if let Some(uid) = wire_id_of(&wire, "unsub") {
		mc.push_text(json!({"jsonrpc":"2.0","id":uid,"result":true}).to_string());
	}
	settle().await;
	if let Some(t) = unsub_task {
		match t.now_or_never() {
			Some(Ok(true)) => {}
			other => fails.push(("c05/explicit-unsubscribe-never-completes".into(), format!("unsubscribe() future: {other:?} after the request was acknowledged"))),
		}
	}
	#[cfg(feature = "hooks")]
	let sizes = Some(mc.client.verif_table_sizes());
	#[cfg(not(feature = "hooks"))]
	let sizes = None;
	if !mc.client.is_connected() {
		fails.push(("c05/client-disconnected".into(), format!("{:?}", mc.shared.events.lock())));
	}
	(after, sizes, lost)
}

impl SubCheck for DroppedWithFullQueue {
	type Case = FullQueueCase;
	fn name(&self) -> &'static str {
		"dropped-with-full-request-queue"
	}
	fn cases(&self, tier: Tier) -> u32 {
		tier.pick(3_000, 60_000)
	}
	fn strategy(&self, _tier: Tier) -> BoxedStrategy<FullQueueCase> {
		(0u8..3, 1u8..4, any::<bool>(), any::<bool>(), prop_oneof![Just(IdK::Number), Just(IdK::String)], 1u8..4, prop_oneof![4 => Just(0u8), 3 => Just(1u8), 3 => Just(2u8)])
			.prop_map(|(before, pushes_after, packed, string_sub_id, id_kind, cap, mode)| FullQueueCase { before, pushes_after, packed, string_sub_id, id_kind, cap, explicit: mode == 1, lag: mode == 2 })
			.boxed()
	}
	fn run(&self, case: &FullQueueCase, obs: &mut Obs) {
		let rt = rt();
		rt.block_on(async {
			let mut fails = vec![];
			let (n, _sizes, lost) = full_queue_scenario(case, &mut fails).await;
			if case.lag {
				obs.nontrivial();
				obs.class("lagging-with-full-queue");
			} else if case.explicit {
				obs.nontrivial();
				obs.class("explicit-unsubscribe-with-full-queue");
			} else if lost {
				obs.nontrivial();
				obs.class("drop-notice-lost-queue-full");
			} else {
				obs.class("drop-notice-delivered");
			}
			obs.check(n == 1, "c05/dropped-stream-unsubscribe-count", || format!("{n} unsubscribe requests after a further notification arrived (drop notice lost: {lost}); case={case:?}"));
			for (s, d) in fails {
				obs.fail(s, format!("{d}; case={case:?}"));
			}
		});
	}
}

pub fn check(ctx: &mut Ctx) {
	ctx.rule = "histories over 1..4 subscriptions (numeric/string subscription ids) and a method-notification handler: server pushes for live / closed / unknown ids, close(error) notifications, plain notifications with and without a registered handler, \
		each maximal run of pushes delivered singly or packed into arrays (generated partition), polls of each stream, unsubscribe(), drop; buffer capacity 1..4; settling after every step (exact bounded-queue model) or not (order-insensitive part only). \
		Oracle: bounded-queue reference model per subscription (yields, end, close_reason, number of unsubscribe requests naming the id on the wire) + metamorphic twin (same history, all pushes single). \
		Non-trivial = >= 2 subscriptions, or a close / lag, or an array of >= 2 messages; distinct by case value."
		.into();
	ctx.assumptions = vec![
		"in the generated histories the client's request queue (256) always has room, so a dropped live stream must produce exactly one unsubscribe request; the full-queue case (drop notice lost, unsubscribe triggered by the next notification) is the dedicated sub-check dropped-with-full-request-queue".into(),
		"an unsubscribe()/drop after the server already closed the subscription may send no request".into(),
	];
	ctx.run_sub(&Streams);
	ctx.run_sub(&DroppedWithFullQueue);
	ctx.run_sub(&PositionalMethodNotification);
	ctx.run_sub(&StalledSend);
	ctx.run_sub(&IdReusedAfterUnsubscribe);
	ctx.run_sub(&LagCorners);
}

pub fn replay(file: &serde_json::Value) -> Option<i32> {
	replay_with(&Streams, file, "C05").or_else(|| replay_with(&DroppedWithFullQueue, file, "C05")).or_else(|| replay_with(&PositionalMethodNotification, file, "C05")).or_else(|| replay_with(&StalledSend, file, "C05")).or_else(|| replay_with(&IdReusedAfterUnsubscribe, file, "C05")).or_else(|| replay_with(&LagCorners, file, "C05"))
}

// ---------------------------------------------------------------------------------------------
// a method notification whose positional params begin with the id of a live subscription
// ---------------------------------------------------------------------------------------------

#[derive(Clone, Debug, Serialize, Deserialize)]
pub struct PositionalCase {
	pub string_id: bool,
	/// somebody listens to the notification's method (`subscribe_to_method`)
	pub registered: bool,
	/// delivered inside an array together with an ordinary item for the subscription
	pub packed: bool,
	pub id_kind: IdK,
}

pub struct PositionalMethodNotification;

impl SubCheck for PositionalMethodNotification {
	type Case = PositionalCase;
	fn name(&self) -> &'static str {
		"method-notification-with-positional-params"
	}
	fn cases(&self, tier: Tier) -> u32 {
		tier.pick(400, 4_000)
	}
	fn strategy(&self, _tier: Tier) -> BoxedStrategy<PositionalCase> {
		(any::<bool>(), any::<bool>(), any::<bool>(), prop_oneof![Just(IdK::Number), Just(IdK::String)]).prop_map(|(string_id, registered, packed, id_kind)| PositionalCase { string_id, registered, packed, id_kind }).boxed()
	}
	fn run(&self, case: &PositionalCase, obs: &mut Obs) {
		let rt = rt();
		rt.block_on(async {
			let mc = MockClient::new(ClientCfg { id_kind: case.id_kind, ..ClientCfg::default() });
			let desc = || format!("case={case:?}");
			let c = mc.client.clone();
			let t = tokio::spawn(async move { c.subscribe::<Value, _>("sub", rpc_params![], "unsub").await });
			settle().await;
			let Some(id) = wire_id_of(&mc.wire_all(), "sub") else {
				obs.fail("c05/subscribe-not-sent", desc());
				return;
			};
			let sid = if case.string_id { json!("feed-7") } else { json!(7) };
			mc.push_text(json!({"jsonrpc":"2.0","id":id,"result":sid}).to_string());
			settle().await;
			let mut stream = match t.now_or_never() {
				Some(Ok(Ok(s))) => s,
				other => {
					obs.fail("c05/subscribe-failed", format!("{:?}; {}", other.map(|r| r.map(|r| r.map(|_| ()))), desc()));
					return;
				}
			};
			let mut handler = if case.registered { mc.client.subscribe_to_method::<Value>("ticker").await.ok() } else { None };
			// `ticker` is an ordinary method notification; its first positional parameter happens to equal the subscription's id
			let plain = json!({"jsonrpc":"2.0","method":"ticker","params":[sid, {"price": 1}]});
			let item = json!({"jsonrpc":"2.0","method":"sub","params":{"subscription":sid,"result":{"own": 1}}});
			if case.packed {
				mc.push_text(json!([item, plain]).to_string());
			} else {
				mc.push_text(item.to_string());
				mc.push_text(plain.to_string());
			}
			settle().await;
			let mut yielded = vec![];
			while let Some(Some(Ok(v))) = stream.next().now_or_never() {
				yielded.push(v);
			}
			let handled: Vec<Value> = match handler.as_mut() {
				Some(h) => {
					let mut v = vec![];
					while let Some(Some(Ok(x))) = h.next().now_or_never() {
						v.push(x);
					}
					v
				}
				None => vec![],
			};
			obs.nontrivial();
			obs.class(if case.registered { "positional:method-has-a-handler" } else { "positional:method-has-no-handler" });
			let foreign = yielded.iter().any(|v| *v == json!({"price": 1}));
			let lost = case.registered && handled != vec![json!([sid, {"price": 1}])];
			obs.check(!foreign && !lost, "c05/positional-method-notification-routed-to-subscription", || {
				format!("the stream of subscription {sid} yielded {yielded:?} (its own item is {{\"own\":1}}), the handler of `ticker` got {handled:?}; {}", desc())
			});
			obs.check(yielded.first() == Some(&json!({"own": 1})), "c05/stream-lost-items", || format!("yielded {yielded:?}; {}", desc()));
			obs.check(mc.client.is_connected(), "c05/client-disconnected", || format!("{:?}; {}", mc.shared.events.lock(), desc()));
		});
	}
}

// ---------------------------------------------------------------------------------------------
// the send half is stalled and the request queue is full while the read half has work to hand over
// ---------------------------------------------------------------------------------------------

#[derive(Clone, Debug, Serialize, Deserialize)]
pub struct StalledCase {
	/// max_concurrent_requests = length of the queue between the callers and the send task
	pub queue: u8,
	pub id_kind: IdK,
	pub string_sub_ids: bool,
	/// the notification for the second subscription is taken in by the transport but handed over late (a `receive()` that
	/// needs several reads), across the moment the queue gets room again
	pub held: bool,
	/// the lagging subscription's notifications arrive in one array
	pub packed: bool,
}

pub struct StalledSend;

/// Returns the failures; signatures starting with `c03/` concern the outstanding call, the others the streams.
pub async fn stalled_send_scenario(case: &StalledCase) -> Vec<(String, String)> {
	use jsonrpsee_core::client::ClientT;
	let mut fails: Vec<(String, String)> = vec![];
	let q = case.queue.clamp(1, 4) as usize;
	let mc = MockClient::new(ClientCfg { id_kind: case.id_kind, max_concurrent_requests: q, sub_buffer: 1, ..ClientCfg::default() });
	let desc = || format!("case={case:?} events={:?}", mc.shared.events.lock());
	let sid = |n: u32| if case.string_sub_ids { json!(format!("s{n}")) } else { json!(n) };
	// two subscriptions and a call that stays outstanding
	let mut streams = vec![];
	for k in 0..2u32 {
		let c = mc.client.clone();
		let t = tokio::spawn(async move { c.subscribe::<Value, _>(if k == 0 { "sub_a" } else { "sub_b" }, rpc_params![], "unsub").await });
		settle().await;
		let Some(id) = wire_id_of(&mc.wire_all(), if k == 0 { "sub_a" } else { "sub_b" }) else {
			fails.push(("c05/subscribe-not-sent".into(), desc()));
			return fails;
		};
		mc.push_text(json!({"jsonrpc":"2.0","id":id,"result":sid(k + 1)}).to_string());
		settle().await;
		match t.now_or_never() {
			Some(Ok(Ok(s))) => streams.push(s),
			other => {
				fails.push(("c05/subscribe-failed".into(), format!("{:?}; {}", other.map(|r| r.map(|r| r.map(|_| ()))), desc())));
				return fails;
			}
		}
	}
	let c = mc.client.clone();
	let call_x = tokio::spawn(async move { c.request::<Value, _>("call_x", rpc_params![]).await });
	settle().await;
	let Some(x_id) = wire_id_of(&mc.wire_all(), "call_x") else {
		fails.push(("c03/call-not-sent".into(), desc()));
		return fails;
	};
	// the transport's send gets stuck with call_y, further requests fill the queue
	mc.shared.send_plans.lock().push_back(SendPlan::Gate("g".into()));
	let c = mc.client.clone();
	let call_y = tokio::spawn(async move { c.request::<Value, _>("call_y", rpc_params![]).await });
	settle().await;
	let mut fillers = vec![];
	for i in 0..q {
		let c = mc.client.clone();
		fillers.push(tokio::spawn(async move { c.notification(&format!("fill_{i}"), rpc_params![]).await }));
	}
	settle().await;
	// subscription 1 falls behind (nobody polls it, buffer 1): the read task has to hand a close notice to the send task
	let items: Vec<Value> = (0..3).map(|n| json!({"jsonrpc":"2.0","method":"sub_a","params":{"subscription":sid(1),"result":{"a": n}}})).collect();
	if case.packed {
		mc.push_text(Value::Array(items).to_string());
	} else {
		for it in items {
			mc.push_text(it.to_string());
		}
	}
	settle().await;
	// ---- the answer to call_x arrives while the send half is still stalled
	mc.push_text(json!({"jsonrpc":"2.0","id":x_id,"result":{"x": true}}).to_string());
	settle().await;
	match call_x.now_or_never() {
		Some(Ok(Ok(v))) if v == json!({"x": true}) => {}
		other => fails.push(("c03/answered-call-still-pending".into(), format!("call_x was answered while the transport's send was stalled and the request queue full: {:?}; {}", other.map(|r| r.map(|r| r.map_err(|e| format!("{e:?}")))), desc()))),
	}
	// ---- a notification for subscription 2, possibly handed over by the transport only after the queue got room again
	let b_item = json!({"jsonrpc":"2.0","method":"sub_b","params":{"subscription":sid(2),"result":{"b": 1}}}).to_string();
	if case.held {
		mc.push_text_held(b_item, "h");
	} else {
		mc.push_text(b_item);
	}
	settle().await;
	mc.shared.gates.open("g");
	settle().await;
	mc.shared.gates.open("h");
	settle().await;
	let got_b = streams[1].next().now_or_never();
	match got_b {
		Some(Some(Ok(v))) if v == json!({"b": 1}) => {}
		other => fails.push(("c05/stream-lost-items".into(), format!("subscription 2 was sent {{\"b\":1}}, its stream gave {other:?}; {}", desc()))),
	}
	if !mc.client.is_connected() {
		fails.push(("c05/client-disconnected".into(), desc()));
	}
	// the lagging subscription: its first item, then the end, reported as lagged; one unsubscribe request names it
	let first = streams[0].next().now_or_never();
	if !matches!(&first, Some(Some(Ok(v))) if *v == json!({"a": 0})) {
		fails.push(("c05/stream-lost-items".into(), format!("subscription 1: {first:?}; {}", desc())));
	}
	let end = streams[0].next().now_or_never();
	if !matches!(end, Some(None)) {
		fails.push(("c05/stream-end-state".into(), format!("subscription 1 fell behind but its stream did not end: {end:?}; {}", desc())));
	} else if !matches!(streams[0].close_reason(), Some(SubscriptionCloseReason::Lagged)) {
		fails.push(("c05/stream-end-state".into(), format!("subscription 1 ended as {:?}; {}", streams[0].close_reason(), desc())));
	}
	let unsubs = mc.wire_all().iter().filter(|m| m["method"] == json!("unsub") && m["params"] == json!([sid(1)])).count();
	if unsubs != 1 {
		fails.push(("c05/unsubscribe-request-count".into(), format!("{unsubs} unsubscribe requests name the lagging subscription; {}", desc())));
	}
	let _ = (call_y.now_or_never(), fillers);
	fails
}

impl SubCheck for StalledSend {
	type Case = StalledCase;
	fn name(&self) -> &'static str {
		"send-stalled-and-queue-full"
	}
	fn cases(&self, tier: Tier) -> u32 {
		tier.pick(800, 8_000)
	}
	fn strategy(&self, _tier: Tier) -> BoxedStrategy<StalledCase> {
		(1u8..5, prop_oneof![Just(IdK::Number), Just(IdK::String)], any::<bool>(), any::<bool>(), any::<bool>()).prop_map(|(queue, id_kind, string_sub_ids, held, packed)| StalledCase { queue, id_kind, string_sub_ids, held, packed }).boxed()
	}
	fn run(&self, case: &StalledCase, obs: &mut Obs) {
		let rt = rt();
		let fails = rt.block_on(stalled_send_scenario(case));
		obs.nontrivial();
		obs.class(if case.held { "stalled:notification-held-inside-receive" } else { "stalled:plain" });
		for (s, d) in fails {
			if !s.starts_with("c03/") {
				obs.fail(s, d);
			}
		}
	}
}

// ---------------------------------------------------------------------------------------------
// the server gives a freed subscription id to a subscribe call that was in flight during the unsubscribe
// ---------------------------------------------------------------------------------------------

#[derive(Clone, Debug, Serialize, Deserialize)]
pub struct ReuseCase {
	pub id_kind: IdK,
	pub string_sub_id: bool,
	/// the write of the unsubscribe request completes late (its bytes are out, `send` has not returned)
	pub slow_write: bool,
	/// how the first stream is given up: 0 = unsubscribe(), 1 = unsubscribe() then nothing else, 2 = dropped
	pub how: u8,
}

pub struct IdReusedAfterUnsubscribe;

impl SubCheck for IdReusedAfterUnsubscribe {
	type Case = ReuseCase;
	fn name(&self) -> &'static str {
		"subscription-id-reused-after-unsubscribe"
	}
	fn cases(&self, tier: Tier) -> u32 {
		tier.pick(600, 6_000)
	}
	fn strategy(&self, _tier: Tier) -> BoxedStrategy<ReuseCase> {
		(prop_oneof![Just(IdK::Number), Just(IdK::String)], any::<bool>(), any::<bool>(), 0u8..3).prop_map(|(id_kind, string_sub_id, slow_write, how)| ReuseCase { id_kind, string_sub_id, slow_write, how }).boxed()
	}
	fn run(&self, case: &ReuseCase, obs: &mut Obs) {
		let rt = rt();
		rt.block_on(async {
			let mc = MockClient::new(ClientCfg { id_kind: case.id_kind, ..ClientCfg::default() });
			let desc = || format!("case={case:?} wire={:?} events={:?}", mc.wire_all(), mc.shared.events.lock());
			let sid = if case.string_sub_id { json!("feed") } else { json!(77) };
			let item = |n: u32| json!({"jsonrpc":"2.0","method":"feed","params":{"subscription":sid,"result":{"n": n}}}).to_string();
			// subscription A gets the id
			let c = mc.client.clone();
			let ta = tokio::spawn(async move { c.subscribe::<Value, _>("sub_first", rpc_params![], "unsub").await });
			settle().await;
			let Some(id_a) = wire_id_of(&mc.wire_all(), "sub_first") else {
				obs.fail("c05/subscribe-not-sent", desc());
				return;
			};
			mc.push_text(json!({"jsonrpc":"2.0","id":id_a,"result":sid}).to_string());
			settle().await;
			let Some(Ok(Ok(a))) = ta.now_or_never() else {
				obs.fail("c05/subscribe-failed", desc());
				return;
			};
			// subscribe call B is on its way
			let c = mc.client.clone();
			let tb = tokio::spawn(async move { c.subscribe::<Value, _>("sub_second", rpc_params![], "unsub").await });
			settle().await;
			let Some(id_b) = wire_id_of(&mc.wire_all(), "sub_second") else {
				obs.fail("c05/subscribe-not-sent", desc());
				return;
			};
			// A is given up
			if case.slow_write {
				mc.shared.send_plans.lock().push_back(SendPlan::WireThenGate("w".into()));
			}
			match case.how % 3 {
				2 => drop(a),
				_ => {
					let t = tokio::spawn(async move { a.unsubscribe().await });
					settle().await;
					obs.check(t.is_finished(), "c05/unsubscribe-did-not-return", || desc());
				}
			}
			settle().await;
			// the server acknowledges the unsubscribe request and hands the freed id to B
			let wire = mc.wire_all();
			let unsub_ids: Vec<Value> = wire.iter().filter(|m| m["method"] == json!("unsub")).map(|m| m["id"].clone()).collect();
			obs.check(unsub_ids.len() == 1, "c05/unsubscribe-request-count", || format!("{} unsubscribe requests after the first stream was given up; {}", unsub_ids.len(), desc()));
			for u in &unsub_ids {
				mc.push_text(json!({"jsonrpc":"2.0","id":u,"result":true}).to_string());
			}
			settle().await;
			mc.push_text(json!({"jsonrpc":"2.0","id":id_b,"result":sid}).to_string());
			settle().await;
			let mut b = match tb.now_or_never() {
				Some(Ok(Ok(s))) => s,
				other => {
					obs.fail("c05/subscribe-failed", format!("the second subscription: {:?}; {}", other.map(|r| r.map(|r| r.map(|_| ()))), desc()));
					return;
				}
			};
			mc.push_text(item(1));
			settle().await;
			// whatever the background tasks still had queued from the first subscription is worked off now
			mc.shared.gates.open("w");
			settle().await;
			mc.push_text(item(2));
			settle().await;
			let mut got = vec![];
			let mut ended = false;
			loop {
				match b.next().now_or_never() {
					Some(Some(Ok(v))) => got.push(v),
					Some(None) => {
						ended = true;
						break;
					}
					_ => break,
				}
			}
			obs.check(got == vec![json!({"n": 1}), json!({"n": 2})] && !ended, "c05/stream-lost-items", || format!("the second subscription was sent n=1 and n=2 under the reused id; its stream gave {got:?}, ended={ended}; {}", desc()));
			let unsubs = mc.wire_all().iter().filter(|m| m["method"] == json!("unsub")).count();
			obs.check(unsubs == 1, "c05/unsubscribe-request-count", || format!("{unsubs} unsubscribe requests on the wire, one subscription was given up; {}", desc()));
			obs.check(mc.client.is_connected(), "c05/client-disconnected", || desc());
			obs.nontrivial();
			obs.class(if case.slow_write { "reuse:unsubscribe-write-completes-late" } else { "reuse:plain" });
		});
	}
}

// ---------------------------------------------------------------------------------------------
// a subscription falls behind inside an array that also carries the answers of a pending batch;
// a subscription falls behind, is given up, and the next holder of its id falls behind as well
// ---------------------------------------------------------------------------------------------

#[derive(Clone, Debug, Serialize, Deserialize)]
pub struct LagCase {
	pub id_kind: IdK,
	pub string_sub_id: bool,
	/// 0 = the items that make the subscription lag come in one array together with the answers of a pending batch
	///     (answers first / last / around the items),
	/// 1 = the subscription lags, is unsubscribed and acknowledged; a new subscription gets the same id and lags too
	pub scenario: u8,
	pub layout: u8,
}

pub struct LagCorners;

impl SubCheck for LagCorners {
	type Case = LagCase;
	fn name(&self) -> &'static str {
		"lag-corners"
	}
	fn cases(&self, tier: Tier) -> u32 {
		tier.pick(600, 6_000)
	}
	fn strategy(&self, _tier: Tier) -> BoxedStrategy<LagCase> {
		(prop_oneof![Just(IdK::Number), Just(IdK::String)], any::<bool>(), 0u8..2, 0u8..3).prop_map(|(id_kind, string_sub_id, scenario, layout)| LagCase { id_kind, string_sub_id, scenario, layout }).boxed()
	}
	fn run(&self, case: &LagCase, obs: &mut Obs) {
		use jsonrpsee_core::client::ClientT;
		let rt = rt();
		rt.block_on(async {
			let mc = MockClient::new(ClientCfg { id_kind: case.id_kind, sub_buffer: 1, ..ClientCfg::default() });
			let desc = || format!("case={case:?} wire={:?} events={:?}", mc.wire_all(), mc.shared.events.lock());
			let sid = if case.string_sub_id { json!("lagging") } else { json!(5) };
			let item = |n: u32| json!({"jsonrpc":"2.0","method":"feed","params":{"subscription":sid,"result":{"n": n}}});
			let rounds = if case.scenario % 2 == 1 { 2 } else { 1 };
			obs.nontrivial();
			obs.class(if rounds == 2 { "lag:twice-under-one-id" } else { "lag:inside-an-array-with-batch-answers" });
			for round in 0..rounds {
				let c = mc.client.clone();
				let name = format!("sub_{round}");
				let name2 = name.clone();
				let t = tokio::spawn(async move { c.subscribe::<Value, _>(&name2, rpc_params![], "unsub").await });
				settle().await;
				let Some(id) = wire_id_of(&mc.wire_all(), &name) else {
					obs.fail("c05/subscribe-not-sent", desc());
					return;
				};
				mc.push_text(json!({"jsonrpc":"2.0","id":id,"result":sid}).to_string());
				settle().await;
				let Some(Ok(Ok(mut stream))) = t.now_or_never() else {
					obs.fail("c05/subscribe-failed", format!("round {round}; {}", desc()));
					return;
				};
				let unsubs_before = mc.wire_all().iter().filter(|m| m["method"] == json!("unsub")).count();
				if rounds == 1 {
					// a batch is pending; its answers and the items come in one array
					let c = mc.client.clone();
					let tb = tokio::spawn(async move {
						let mut b = jsonrpsee_core::params::BatchRequestBuilder::new();
						b.insert("b0", rpc_params![]).unwrap();
						b.insert("b1", rpc_params![]).unwrap();
						c.batch_request::<Value>(b).await.map(|r| r.into_iter().map(|e| e.ok()).collect::<Vec<_>>()).map_err(|e| format!("{e:?}"))
					});
					settle().await;
					let w = mc.wire_all();
					let ids: Vec<Value> = w.iter().filter_map(|m| m.as_array()).flatten().map(|e| e["id"].clone()).collect();
					if ids.len() != 2 {
						obs.fail("c05/batch-not-sent", desc());
						return;
					}
					let a0 = json!({"jsonrpc":"2.0","id":ids[0],"result":"r0"});
					let a1 = json!({"jsonrpc":"2.0","id":ids[1],"result":"r1"});
					let arr = match case.layout % 3 {
						0 => vec![a0, a1, item(0), item(1), item(2)],
						1 => vec![item(0), item(1), item(2), a0, a1],
						_ => vec![a0, item(0), item(1), item(2), a1],
					};
					mc.push_text(Value::Array(arr).to_string());
					settle().await;
					match tb.now_or_never() {
						Some(Ok(Ok(v))) if v == vec![Some(json!("r0")), Some(json!("r1"))] => {}
						other => obs.fail("c05/batch-in-the-same-array-not-completed", format!("{other:?}; {}", desc())),
					}
				} else {
					for n in 0..3 {
						mc.push_text(item(n).to_string());
					}
					settle().await;
				}
				// the stream yields what fitted, ends, and reports why; exactly one unsubscribe request went out for it
				let first = stream.next().now_or_never();
				obs.check(matches!(&first, Some(Some(Ok(v))) if *v == json!({"n": 0})), "c05/stream-lost-items", || format!("round {round}: {first:?}; {}", desc()));
				let end = stream.next().now_or_never();
				obs.check(matches!(end, Some(None)), "c05/stream-end-state", || format!("round {round}: the subscription fell behind but its stream did not end: {end:?}; {}", desc()));
				obs.check(matches!(stream.close_reason(), Some(SubscriptionCloseReason::Lagged)), "c05/stream-end-state", || format!("round {round}: ended as {:?}; {}", stream.close_reason(), desc()));
				let w = mc.wire_all();
				let new_unsubs: Vec<&Value> = w.iter().filter(|m| m["method"] == json!("unsub")).skip(unsubs_before).collect();
				obs.check(new_unsubs.len() == 1 && new_unsubs[0]["params"] == json!([sid]), "c05/unsubscribe-request-count", || format!("round {round}: {} unsubscribe requests after the subscription fell behind; {}", new_unsubs.len(), desc()));
				// the server acknowledges; the application lets go of the stream
				for u in new_unsubs {
					mc.push_text(json!({"jsonrpc":"2.0","id":u["id"],"result":true}).to_string());
				}
				settle().await;
				drop(stream);
				settle().await;
				if !obs.failures.is_empty() {
					return;
				}
			}
			obs.check(mc.client.is_connected(), "c05/client-disconnected", || desc());
		});
	}
}
