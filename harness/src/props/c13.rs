//! C13 — method registry: names are unique, failed registrations change nothing, clones are isolated.

use crate::engine::*;
use jsonrpsee_core::server::{Methods, RpcModule};
use proptest::prelude::*;
use serde::{Deserialize, Serialize};
use serde_json::{Value, json};
use std::collections::BTreeMap;

pub const NAMES: [&str; 6] = ["alpha", "beta", "gamma", "delta", "eps", "zeta"];

#[derive(Clone, Debug, Serialize, Deserialize, PartialEq)]
pub enum Op {
	Reg { kind: u8, name: u8 },
	RegSub { sub: u8, unsub: u8, raw: bool },
	Alias { new: u8, existing: u8 },
	Merge {
		other: Vec<Op>,
		via_methods: bool,
		/// a clone of the merged-in module stays alive (as when the same module is also handed to a server)
		#[serde(default)]
		keep_clone: bool,
	},
	Remove { name: u8 },
	/// merge a clone of the module itself (`which` = 0) or of an earlier snapshot of it (`which` - 1, if there is one)
	/// back into the module: tables that are or were shared with the receiver
	MergeOwn { which: u8 },
	Snapshot,
	Call { name: u8 },
}

#[derive(Clone, Debug, Serialize, Deserialize)]
pub struct C13Case {
	pub ops: Vec<Op>,
}

#[derive(Clone, Debug, PartialEq)]
enum Tag {
	Method(u32),
	Sub(u32),
	Unsub(u32),
}

type Model = BTreeMap<&'static str, Tag>;

fn nm(i: u8) -> &'static str {
	NAMES[i as usize % NAMES.len()]
}

struct St {
	next_tag: u32,
}

/// apply one op to (module, model); returns failures
fn apply(st: &mut St, module: &mut RpcModule<()>, model: &mut Model, op: &Op, snaps: &mut Vec<(Methods, Model)>, clones: &mut Vec<Methods>, fails: &mut Vec<(String, String)>, depth: u8) -> &'static str {
	match op {
		Op::Reg { kind, name } => {
			let name = nm(*name);
			st.next_tag += 1;
			let tag = st.next_tag;
			let res = match kind % 3 {
				0 => module.register_method(name, move |_, _, _| tag).map(|_| ()),
				1 => module.register_async_method(name, move |_, _, _| async move { tag }).map(|_| ()),
				_ => module.register_blocking_method(name, move |_, _, _| tag).map(|_| ()),
			};
			let want_ok = !model.contains_key(name);
			if res.is_ok() != want_ok {
				fails.push(("c13/register-result".into(), format!("register {name}: {res:?}, name taken={}", !want_ok)));
			}
			if want_ok {
				model.insert(name, Tag::Method(tag));
				"register-ok"
			} else {
				"register-taken"
			}
		}
		Op::RegSub { sub, unsub, raw } => {
			let (s, u) = (nm(*sub), nm(*unsub));
			st.next_tag += 1;
			let tag = st.next_tag;
			let res = if *raw {
				module
					.register_subscription_raw(s, "notif", u, move |_, pending, _, _| {
						tokio::spawn(async move {
							let _ = pending.accept().await;
						});
					})
					.map(|_| ())
			} else {
				module
					.register_subscription(s, "notif", u, move |_, pending, _, _| async move {
						let _sink = pending.accept().await;
					})
					.map(|_| ())
			};
			let want_ok = s != u && !model.contains_key(s) && !model.contains_key(u);
			if res.is_ok() != want_ok {
				fails.push(("c13/register-subscription-result".into(), format!("register_subscription({s},{u}): {res:?}, expected ok={want_ok}")));
			}
			if want_ok {
				model.insert(s, Tag::Sub(tag));
				model.insert(u, Tag::Unsub(tag));
				"subscription-ok"
			} else {
				"subscription-fails"
			}
		}
		Op::Alias { new, existing } => {
			let (n, e) = (nm(*new), nm(*existing));
			let res = module.register_alias(n, e);
			let want_ok = !model.contains_key(n) && model.contains_key(e);
			if res.is_ok() != want_ok {
				fails.push(("c13/alias-result".into(), format!("register_alias({n},{e}): {res:?}, expected ok={want_ok}")));
			}
			if want_ok {
				let t = model[e].clone();
				model.insert(n, t);
				"alias-ok"
			} else {
				"alias-fails"
			}
		}
		Op::Merge { other, via_methods, keep_clone } => {
			let mut om = RpcModule::new(());
			let mut omodel = Model::new();
			if depth < 2 {
				for o in other {
					if matches!(o, Op::Snapshot | Op::Call { .. } | Op::MergeOwn { .. }) {
						continue;
					}
					apply(st, &mut om, &mut omodel, o, snaps, clones, fails, depth + 1);
				}
			}
			let shared = omodel.keys().any(|k| model.contains_key(k));
			let res = if *via_methods {
				let m: Methods = om.into();
				if *keep_clone {
					clones.push(m.clone());
				}
				module.merge(m)
			} else {
				if *keep_clone {
					clones.push(om.clone().into());
				}
				module.merge(om)
			};
			if res.is_ok() == shared {
				fails.push(("c13/merge-result".into(), format!("merge of {:?} into {:?}: {res:?}", omodel.keys().collect::<Vec<_>>(), model.keys().collect::<Vec<_>>())));
			}
			if !shared {
				for (k, v) in omodel {
					model.insert(k, v);
				}
				"merge-ok"
			} else if model.is_empty() {
				"merge-fails"
			} else {
				"merge-fails-on-nonempty"
			}
		}
		Op::Remove { name } => {
			let n = nm(*name);
			let res = module.remove_method(n);
			let had = model.remove(n).is_some();
			if res.is_some() != had {
				fails.push(("c13/remove-result".into(), format!("remove_method({n}) returned Some={}, model had={had}", res.is_some())));
			}
			"remove"
		}
		Op::MergeOwn { which } => {
			if depth != 0 {
				return "merge-own-skipped";
			}
			let (other, omodel): (Methods, Model) = match snaps.get((*which as usize).wrapping_sub(1)) {
				Some((m, mm)) if *which > 0 => (m.clone(), mm.clone()),
				_ => (module.clone().into(), model.clone()),
			};
			let shared = omodel.keys().any(|k| model.contains_key(k));
			let res = module.merge(other);
			if res.is_ok() == shared {
				fails.push(("c13/merge-result".into(), format!("merge of its own clone / snapshot {:?} into {:?}: {res:?}", omodel.keys().collect::<Vec<_>>(), model.keys().collect::<Vec<_>>())));
			}
			if !shared {
				for (k, v) in omodel {
					model.insert(k, v);
				}
				"merge-own-ok"
			} else {
				"merge-own-fails"
			}
		}
		Op::Snapshot => {
			if depth == 0 && snaps.len() < 4 {
				let m: Methods = module.clone().into();
				snaps.push((m, model.clone()));
			}
			"snapshot"
		}
		Op::Call { .. } => "call",
	}
}

async fn check_methods(methods: &Methods, model: &Model, what: &str, fails: &mut Vec<(String, String)>) {
	let mut names: Vec<&'static str> = methods.method_names().collect();
	names.sort();
	let want: Vec<&'static str> = model.keys().copied().collect();
	if names != want {
		fails.push((format!("c13/{what}-method-names"), format!("method_names() = {names:?}, model = {want:?}")));
		return;
	}
	for n in NAMES {
		let req = format!(r#"{{"jsonrpc":"2.0","id":1,"method":"{n}"}}"#);
		let (rp, _rx) = match methods.raw_json_request(&req, 4).await {
			Ok(x) => x,
			Err(e) => {
				fails.push((format!("c13/{what}-call-error"), format!("{n}: {e}")));
				continue;
			}
		};
		let v: Value = serde_json::from_str(rp.get()).unwrap_or(Value::Null);
		let code = v["error"]["code"].as_i64();
		match model.get(n) {
			None => {
				if code != Some(-32601) {
					fails.push((format!("c13/{what}-unbound-name-answered"), format!("{n} is unbound but the call gave {v}")));
				}
				if let Ok(got) = methods.call::<_, Value>(n, jsonrpsee_core::params::ArrayParams::new()).await {
					fails.push((format!("c13/{what}-unbound-name-answered"), format!("{n} is unbound but Methods::call gave {got}")));
				}
			}
			Some(Tag::Method(t)) => {
				if v["result"] != json!(t) {
					fails.push((format!("c13/{what}-dispatch-to-wrong-handler"), format!("{n} is bound to handler {t} but the call gave {v}")));
				}
				// the typed helper reaches the same handler
				match methods.call::<_, u32>(n, jsonrpsee_core::params::ArrayParams::new()).await {
					Ok(got) if got == *t => {}
					other => fails.push((format!("c13/{what}-dispatch-to-wrong-handler"), format!("Methods::call({n}) gave {other:?}, bound handler is {t}"))),
				}
			}
			Some(Tag::Sub(_)) => {
				if code == Some(-32601) || v.get("result").is_none() {
					fails.push((format!("c13/{what}-subscribe-name-not-dispatched"), format!("{n}: {v}")));
				}
			}
			Some(Tag::Unsub(_)) => {
				if v["result"] != json!(false) {
					fails.push((format!("c13/{what}-unsubscribe-name-not-dispatched"), format!("{n}: {v}")));
				}
			}
		}
	}
}

pub struct Registry;

fn arb_op(depth: u32) -> BoxedStrategy<Op> {
	let leaf = prop_oneof![
		6 => (0u8..3, 0u8..6).prop_map(|(kind, name)| Op::Reg { kind, name }),
		3 => (0u8..6, 0u8..6, any::<bool>()).prop_map(|(sub, unsub, raw)| Op::RegSub { sub, unsub, raw }),
		3 => (0u8..6, 0u8..6).prop_map(|(new, existing)| Op::Alias { new, existing }),
		3 => (0u8..6).prop_map(|name| Op::Remove { name }),
		2 => Just(Op::Snapshot),
		2 => (0u8..4).prop_map(|which| Op::MergeOwn { which }),
		2 => (0u8..6).prop_map(|name| Op::Call { name }),
	];
	if depth == 0 {
		leaf.boxed()
	} else {
		prop_oneof![
			10 => leaf,
			3 => (proptest::collection::vec(arb_op(depth - 1), 0..4), any::<bool>(), any::<bool>()).prop_map(|(other, via_methods, keep_clone)| Op::Merge { other, via_methods, keep_clone }),
		]
		.boxed()
	}
}

impl SubCheck for Registry {
	type Case = C13Case;
	fn name(&self) -> &'static str {
		"registry"
	}
	fn cases(&self, tier: Tier) -> u32 {
		tier.pick(60_000, 1_200_000)
	}
	fn strategy(&self, tier: Tier) -> BoxedStrategy<C13Case> {
		let max = tier.pick(25usize, 60);
		proptest::collection::vec(arb_op(2), 1..max).prop_map(|ops| C13Case { ops }).boxed()
	}
	fn run(&self, case: &C13Case, obs: &mut Obs) {
		let rt = crate::fix::server::rt();
		rt.block_on(async {
			let mut st = St { next_tag: 0 };
			let mut module = RpcModule::new(());
			let mut model = Model::new();
			let mut snaps: Vec<(Methods, Model)> = vec![];
			let mut clones: Vec<Methods> = vec![];
			let mut fails: Vec<(String, String)> = vec![];
			let mut nontrivial = false;
			for (i, op) in case.ops.iter().enumerate() {
				let label = apply(&mut st, &mut module, &mut model, op, &mut snaps, &mut clones, &mut fails, 0);
				obs.class(label);
				if matches!(label, "merge-fails-on-nonempty") || (label == "subscription-fails" && !model.is_empty()) {
					nontrivial = true;
				}
				// after every step: the module is exactly the model, and so is every earlier snapshot
				check_methods(&module, &model, "module", &mut fails).await;
				for (m, mm) in &snaps {
					check_methods(m, mm, "snapshot", &mut fails).await;
				}
				if !fails.is_empty() {
					for (s, d) in fails.drain(..) {
						obs.fail(s, format!("after op #{i} {op:?}: {d}; case={case:?}"));
					}
					break;
				}
			}
			if nontrivial {
				obs.nontrivial();
			}
			crate::fix::server::settle().await;
		});
	}
}

pub fn check(ctx: &mut Ctx) {
	ctx.rule = "sequences of up to 25 (quick) / 60 operations {register sync/async/blocking method, register subscription (plain and raw) with any pair of names, alias, merge of a module built by a nested sequence (as RpcModule or as Methods), remove, clone (snapshot), call} over six names. \
		Oracle: a name->handler-tag map per module; after every step the Result matches the model, method_names() equals the model's keys (unchanged after a failure), a call to each of the six names returns the bound handler's tag or -32601 exactly when unbound, and every earlier snapshot still equals its own model. \
		Non-trivial = a failing multi-name operation (subscription or merge) on a non-empty module; distinct by case value."
		.into();
	ctx.run_sub(&Registry);
}

pub fn replay(file: &serde_json::Value) -> Option<i32> {
	replay_with(&Registry, file, "C13")
}
