//! C16 — params decoding agrees with a plain JSON parse and fails only with -32602.

use crate::engine::*;
use crate::json::*;
use jsonrpsee_types::{ErrorObjectOwned, Params, ParamsSequence};
use proptest::prelude::*;
use serde::{Deserialize, Serialize};
use serde_json::{Value, json};

#[derive(Clone, Copy, Debug, Serialize, Deserialize, PartialEq)]
pub enum Ty {
	Value,
	U64,
	I64,
	Str,
	BorrowedStr,
	Bool,
	VecValue,
	PairU8Str,
	F64,
	Unit,
}

#[derive(Clone, Debug, Serialize, Deserialize)]
pub struct Read {
	pub ty: Ty,
	pub optional: bool,
}

#[derive(Clone, Debug, Serialize, Deserialize)]
pub enum Shape {
	/// array with separately rendered elements and generated blanks around every delimiter
	Array { elems: Vec<(J, Vec<u8>)>, gaps: Vec<u8> },
	/// any other JSON value as params
	Other(J, Vec<u8>),
	Absent,
}

#[derive(Clone, Debug, Serialize, Deserialize)]
pub struct SeqCase {
	pub shape: Shape,
	pub outer: (u8, u8),
	pub reads: Vec<Read>,
	/// matched plan: choose read types from the element values
	pub matched: bool,
}

fn blank(sel: u8) -> &'static str {
	match sel % 12 {
		0..=5 => "",
		6 => " ",
		7 => "\n",
		8 => "\t",
		9 => "\r\n",
		10 => "  ",
		_ => " \t\n ",
	}
}

/// Returns (whole text, per-element source texts) for an array shape.
pub fn render_array(elems: &[(J, Vec<u8>)], gaps: &[u8]) -> (String, Vec<String>) {
	let mut g = gaps.iter().copied().cycle();
	let mut gap = move || if gaps.is_empty() { "" } else { blank(g.next().unwrap()) };
	let mut out = String::from("[");
	let mut texts = vec![];
	out.push_str(gap());
	for (i, (e, tape)) in elems.iter().enumerate() {
		if i > 0 {
			out.push(',');
			out.push_str(gap());
		}
		let t = e.styled(&mut Style::new(tape.clone()));
		out.push_str(&t);
		texts.push(t);
		out.push_str(gap());
	}
	out.push(']');
	(out, texts)
}

fn typed<'a, T: Deserialize<'a> + Serialize>(r: Result<T, ErrorObjectOwned>) -> Result<Value, i32> {
	match r {
		Ok(v) => Ok(serde_json::to_value(&v).unwrap_or(Value::Null)),
		Err(e) => Err(e.code()),
	}
}
fn typed_opt<'a, T: Deserialize<'a> + Serialize>(r: Result<Option<T>, ErrorObjectOwned>) -> Result<Option<Value>, i32> {
	match r {
		Ok(Some(v)) => Ok(Some(serde_json::to_value(&v).unwrap_or(Value::Null))),
		Ok(None) => Ok(None),
		Err(e) => Err(e.code()),
	}
}

/// Outcome of one read through the library: Ok(Some(value)) / Ok(None)=absent / Err(code)
fn lib_read<'a>(seq: &mut ParamsSequence<'a>, r: &Read) -> Result<Option<Value>, i32> {
	macro_rules! go {
		($t:ty) => {
			if r.optional { typed_opt::<$t>(seq.optional_next::<$t>()) } else { typed::<$t>(seq.next::<$t>()).map(Some) }
		};
	}
	match r.ty {
		Ty::Value => go!(Value),
		Ty::U64 => go!(u64),
		Ty::I64 => go!(i64),
		Ty::Str => go!(String),
		Ty::BorrowedStr => go!(&'a str),
		Ty::Bool => go!(bool),
		Ty::VecValue => go!(Vec<Value>),
		Ty::PairU8Str => go!((u8, String)),
		Ty::F64 => go!(f64),
		Ty::Unit => go!(()),
	}
}

/// Reference: plain serde_json parse of the element's own source text.
fn ref_read(text: &str, r: &Read) -> Result<Option<Value>, ()> {
	macro_rules! go {
		($t:ty) => {
			if r.optional {
				serde_json::from_str::<Option<$t>>(text).map(|o| o.map(|v| serde_json::to_value(&v).unwrap_or(Value::Null))).map_err(|_| ())
			} else {
				serde_json::from_str::<$t>(text).map(|v| Some(serde_json::to_value(&v).unwrap_or(Value::Null))).map_err(|_| ())
			}
		};
	}
	match r.ty {
		Ty::Value => go!(Value),
		Ty::U64 => go!(u64),
		Ty::I64 => go!(i64),
		Ty::Str => go!(String),
		Ty::BorrowedStr => go!(&str),
		Ty::Bool => go!(bool),
		Ty::VecValue => go!(Vec<Value>),
		Ty::PairU8Str => go!((u8, String)),
		Ty::F64 => go!(f64),
		Ty::Unit => go!(()),
	}
}

fn whole<'a, T: Deserialize<'a> + Serialize>(p: &'a Params<'a>, one: bool) -> Result<Value, i32> {
	if one { typed::<T>(p.one::<T>()) } else { typed::<T>(p.parse::<T>()) }
}

fn natural_ty(j: &J) -> Ty {
	match j {
		J::Null => Ty::Unit,
		J::Bool(_) => Ty::Bool,
		J::Num(t) if t.parse::<u64>().is_ok() => Ty::U64,
		J::Num(t) if t.parse::<i64>().is_ok() => Ty::I64,
		J::Num(_) => Ty::F64,
		J::Str(_) => Ty::Str,
		J::Arr(_) => Ty::VecValue,
		J::Obj(_) => Ty::Value,
	}
}

pub struct Sequence;

pub fn arb_ty() -> BoxedStrategy<Ty> {
	prop_oneof![
		4 => Just(Ty::Value),
		1 => Just(Ty::U64),
		1 => Just(Ty::I64),
		2 => Just(Ty::Str),
		1 => Just(Ty::BorrowedStr),
		1 => Just(Ty::Bool),
		1 => Just(Ty::VecValue),
		1 => Just(Ty::PairU8Str),
		1 => Just(Ty::F64),
		1 => Just(Ty::Unit),
	]
	.boxed()
}

fn arb_elem(d: u32) -> BoxedStrategy<J> {
	prop_oneof![
		4 => arb_json(d),
		1 => (0u8..=255, arb_string(6)).prop_map(|(n, s)| J::Arr(vec![J::num(n), J::Str(s)])),
		1 => Just(J::Arr(vec![])),
		1 => Just(J::Obj(vec![])),
		1 => Just(J::Str("],[".into())),
		1 => Just(J::Null),
	]
	.boxed()
}

impl SubCheck for Sequence {
	type Case = SeqCase;
	fn name(&self) -> &'static str {
		"sequence"
	}
	fn cases(&self, tier: Tier) -> u32 {
		tier.pick(1_000_000, 20_000_000)
	}
	fn strategy(&self, tier: Tier) -> BoxedStrategy<SeqCase> {
		let d = tier.pick(3, 6);
		let n = tier.pick(6usize, 10);
		let shape = prop_oneof![
			8 => (proptest::collection::vec((arb_elem(d), arb_tape()), 0..n), proptest::collection::vec(any::<u8>(), 0..8))
				.prop_map(|(elems, gaps)| Shape::Array { elems, gaps }),
			2 => (arb_json(d).prop_filter("non-array", |j| !matches!(j, J::Arr(_))), arb_tape()).prop_map(|(j, t)| Shape::Other(j, t)),
			1 => Just(Shape::Absent),
		];
		(shape, any::<(u8, u8)>(), proptest::collection::vec((arb_ty(), any::<bool>()).prop_map(|(ty, optional)| Read { ty, optional }), 0..10), any::<bool>())
			.prop_map(|(shape, outer, reads, matched)| SeqCase { shape, outer, reads, matched })
			.boxed()
	}
	fn run(&self, case: &SeqCase, obs: &mut Obs) {
		let (inner, elem_texts, elems): (Option<String>, Vec<String>, Vec<J>) = match &case.shape {
			Shape::Array { elems, gaps } => {
				let (t, texts) = render_array(elems, gaps);
				(Some(t), texts, elems.iter().map(|e| e.0.clone()).collect())
			}
			Shape::Other(j, tape) => (Some(j.styled(&mut Style::new(tape.clone()))), vec![], vec![]),
			Shape::Absent => (None, vec![], vec![]),
		};
		let text = inner.as_ref().map(|t| format!("{}{}{}", blank(case.outer.0), t, blank(case.outer.1)));
		let is_array = matches!(case.shape, Shape::Array { .. });
		obs.class(match &case.shape {
			Shape::Array { elems, .. } if elems.is_empty() => "array-empty",
			Shape::Array { .. } => "array",
			Shape::Other(..) => "non-array",
			Shape::Absent => "absent",
		});
		if is_array {
			let inner = inner.as_ref().unwrap();
			let delim_in_elem = elem_texts.iter().any(|t| t.contains('[') || t.contains(']') || t.contains(','));
			let ws_next_to_delim = inner.contains("[ ") || inner.contains(" ]") || inner.contains(" ,") || inner.contains(", ")
				|| inner.contains("[\n") || inner.contains("\n]") || inner.contains("\t") || inner.contains("\r");
			if delim_in_elem || ws_next_to_delim {
				obs.nontrivial();
			}
			if delim_in_elem {
				obs.class("elem-with-delimiters");
			}
			if ws_next_to_delim {
				obs.class("blank-next-to-delimiter");
			}
		}
		// the read plan: either generated types or the natural type of each element (+ tail reads)
		let mut reads = case.reads.clone();
		if case.matched {
			for (i, e) in elems.iter().enumerate() {
				let ty = natural_ty(e);
				if i < reads.len() {
					reads[i].ty = ty;
				} else {
					reads.push(Read { ty, optional: false });
				}
			}
			reads.push(Read { ty: Ty::Value, optional: true });
			reads.push(Read { ty: Ty::Value, optional: false });
		}
		obs.sample(json!({"params": text, "reads": reads}));

		// for a share of the cases the Params come out of a parsed request (`Request::params()`, the route an
		// RPC middleware takes) instead of `Params::new`
		let req_text = format!(r#"{{"jsonrpc":"2.0","id":1,"method":"m"{}}}"#, text.as_ref().map(|t| format!(r#","params":{t}"#)).unwrap_or_default());
		let req: Option<jsonrpsee_types::Request> = if case.outer.0 % 2 == 1 { serde_json::from_str(&req_text).ok() } else { None };
		// (`"params":null` in a request is the same as no params member: through this route the text `null` behaves as absent
		// params, while `Params::new(Some("null"))` is a non-array text)
		let null_in_request = req.is_some() && inner.as_deref().map(|t| t.trim()) == Some("null");
		if null_in_request {
			obs.class("params-null-in-a-parsed-request");
		}
		if req.is_some() {
			obs.class("params-taken-from-a-parsed-request");
		}
		let params = match &req {
			Some(r) => r.params(),
			None => Params::new(text.as_deref()),
		};
		// ... and for a share of them they are detached from the request text first, as the server does for blocking methods
		let params: Params<'_> = if case.outer.1 % 3 == 0 {
			obs.class("params-made-owned");
			params.clone().into_owned()
		} else {
			params
		};
		let r = std::panic::catch_unwind(std::panic::AssertUnwindSafe(|| {
			let mut fails: Vec<(String, String)> = vec![];
			let mut seq = params.sequence();
			let mut pos = 0usize;
			let mut failed = false;
			let (mut n_ok, mut n_mismatch) = (0u32, 0u32);
			for (k, rd) in reads.iter().enumerate() {
				let got = lib_read(&mut seq, rd);
				let ctx = || format!("params={text:?} read#{k}={rd:?} pos={pos} got={got:?}");
				if failed {
					// after a failed read: only errors or 'absent'
					match &got {
						Ok(Some(_)) => fails.push(("sequence/value-after-failed-read".into(), ctx())),
						Err(c) if *c != -32602 => fails.push(("sequence/wrong-error-code".into(), ctx())),
						_ => {}
					}
					continue;
				}
				if !is_array {
					// absent behaves as the empty array; any other non-array text is a shape mismatch
					let absent = matches!(case.shape, Shape::Absent) || null_in_request;
					match (absent, &got) {
						(true, Ok(None)) if rd.optional => {}
						(true, Err(-32602)) if !rd.optional => {}
						(false, Err(-32602)) => failed = true,
						_ => fails.push(("sequence/non-array-params".into(), ctx())),
					}
					continue;
				}
				if pos >= elem_texts.len() {
					match (&got, rd.optional) {
						(Ok(None), true) => {}
						(Err(-32602), false) => {}
						_ => {
							let sig = if elem_texts.is_empty() && rd.optional { "sequence/blank-empty-array" } else { "sequence/exhaustion" };
							fails.push((sig.into(), ctx()))
						}
					}
					continue;
				}
				let want = ref_read(&elem_texts[pos], rd);
				match (want, &got) {
					(Ok(w), Ok(g)) => {
						n_ok += 1;
						if w != *g {
							fails.push(("sequence/different-value".into(), format!("{} want={w:?}", ctx())));
						}
						pos += 1;
					}
					(Err(()), Err(-32602)) => {
						n_mismatch += 1;
						failed = true
					}
					(Err(()), Err(_)) => fails.push(("sequence/wrong-error-code".into(), ctx())),
					(Ok(w), Err(_)) => fails.push(("sequence/rejects-valid-element".into(), format!("{} want={w:?}", ctx()))),
					(Err(()), Ok(_)) => fails.push(("sequence/accepts-mismatching-element".into(), ctx())),
				}
			}
			// whole-value and single-value parsing agree with a plain parse (absent == null)
			let reference_text = inner.clone().unwrap_or_else(|| "null".to_string());
			macro_rules! whole_ty {
				($t:ty, $name:literal) => {{
					let got = whole::<$t>(&params, false);
					let want = serde_json::from_str::<$t>(&reference_text).map(|v| serde_json::to_value(&v).unwrap()).map_err(|_| ());
					match (&want, &got) {
						(Ok(w), Ok(g)) if w == g => {}
						(Err(()), Err(-32602)) => {}
						_ => fails.push((format!("parse/{}", $name), format!("params={text:?} got={got:?} want={want:?}"))),
					}
					let got1 = whole::<$t>(&params, true);
					let want1 = serde_json::from_str::<[$t; 1]>(&reference_text).map(|[v]| serde_json::to_value(&v).unwrap()).map_err(|_| ());
					match (&want1, &got1) {
						(Ok(w), Ok(g)) if w == g => {}
						(Err(()), Err(-32602)) => {}
						_ => fails.push((format!("one/{}", $name), format!("params={text:?} got={got1:?} want={want1:?}"))),
					}
				}};
			}
			whole_ty!(Value, "value");
			whole_ty!(Vec<Value>, "vec");
			whole_ty!(Option<u64>, "opt-u64");
			whole_ty!(String, "string");
			whole_ty!((u8, String), "pair");
			(fails, n_ok, n_mismatch)
		}));
		match r {
			Ok((fails, n_ok, n_mismatch)) => {
				if n_ok >= 2 {
					obs.class("two-or-more-successful-typed-reads");
				}
				if n_mismatch > 0 {
					obs.class("type-mismatch-read");
				}
				for (s, d) in fails {
					obs.fail(s, d);
				}
			}
			Err(p) => obs.fail("sequence/panic", format!("params={text:?}: {}", panic_msg(&p))),
		}
	}
}

/// Byte-level oracle (fuzz target / corpus replay): no panic; if serde_json reads the text as an array, reading it
/// fully as values reproduces the elements and then reports exhaustion.
pub fn params_bytes_oracle(bytes: &[u8]) -> Option<String> {
	let Ok(text) = std::str::from_utf8(bytes) else { return None };
	let r = std::panic::catch_unwind(|| {
		let params = Params::new(Some(text));
		let mut seq = params.sequence();
		let mut got = vec![];
		let mut err = None;
		for _ in 0..10_000 {
			match seq.optional_next::<Value>() {
				Ok(Some(v)) => got.push(v),
				Ok(None) => {
					// null element or exhaustion: distinguish by a further strict read
					match seq.next::<Value>() {
						Ok(v) => {
							got.push(Value::Null);
							got.push(v);
						}
						Err(_) => {
							break;
						}
					}
				}
				Err(e) => {
					err = Some(e.code());
					break;
				}
			}
		}
		let _ = params.parse::<Value>();
		let _ = params.one::<Value>();
		(got, err)
	});
	match r {
		Err(p) => Some(format!("panic on {text:?}: {}", panic_msg(&p))),
		Ok((got, err)) => {
			if let Some(c) = err {
				if c != -32602 {
					return Some(format!("error code {c} on {text:?}"));
				}
			}
			if let Ok(Value::Array(want)) = serde_json::from_str::<Value>(text) {
				// the reconstruction above cannot tell a trailing run of nulls from exhaustion; compare modulo that
				let mut w = want.clone();
				while w.last() == Some(&Value::Null) {
					w.pop();
				}
				let mut g = got.clone();
				while g.last() == Some(&Value::Null) {
					g.pop();
				}
				if err.is_some() || g != w {
					return Some(format!("array {text:?}: read {got:?} err={err:?}, plain parse {want:?}"));
				}
			}
			None
		}
	}
}

pub fn corpus_replay(ctx: &mut Ctx) {
	let dir = verif_root().join("corpus/c16_params");
	let mut n = 0u64;
	if let Ok(rd) = std::fs::read_dir(&dir) {
		let mut files: Vec<_> = rd.filter_map(|e| e.ok()).map(|e| e.path()).collect();
		files.sort();
		for f in files {
			let Ok(bytes) = std::fs::read(&f) else { continue };
			n += 1;
			if let Some(d) = params_bytes_oracle(&bytes) {
				let sig = if String::from_utf8_lossy(&bytes).trim().starts_with('[') && String::from_utf8_lossy(&bytes).replace(|c: char| c.is_whitespace(), "") == "[]" {
					"sequence/blank-empty-array"
				} else {
					"params/bytes-differential"
				};
				ctx.violation_raw("params-bytes", sig, &d, json!({"file": f.display().to_string(), "text": String::from_utf8_lossy(&bytes)}));
			}
		}
	}
	ctx.add_evaluations(n);
	ctx.note_class("params-bytes:corpus-files", n);
}

pub fn check(ctx: &mut Ctx) {
	ctx.rule = "params texts rendered from generated JSON (array elements rendered separately so each element's exact source text is known; \
		generated blanks around every delimiter and outside) x read plans of typed next/optional_next (generated types, or the natural type of each element \
		plus tail reads); oracle = serde_json::from_str of the element's own text; parse/one vs plain parse of the whole text. \
		Non-trivial = an element containing '[' ']' or ',' or a blank next to a delimiter; distinct by case value."
		.into();
	ctx.assumptions = vec!["serde_json::from_str is the reference 'plain JSON parse'".into()];
	ctx.run_sub(&Sequence);
	corpus_replay(ctx);
	fuzz_campaign(ctx, "c16_params", 5_000_000, 256);
}

pub fn replay(file: &serde_json::Value) -> Option<i32> {
	replay_with(&Sequence, file, "C16")
}
