//! C11 — server: connections never exceed max_connections and slots are reused.

use crate::engine::*;
use crate::fix::server::*;
use futures_util::FutureExt;
use proptest::prelude::*;
use serde::{Deserialize, Serialize};
use serde_json::{Value, json};
use tokio::io::{AsyncReadExt, AsyncWriteExt};

#[derive(Clone, Debug, Serialize, Deserialize, PartialEq)]
pub enum K {
	HttpGated,
	HttpRelease(u16),
	HttpAbort(u16),
	HttpQuick,
	WsOpen,
	WsClose(u16, bool),
	WsGatedCallThenDrop(u16),
	WsHalfUpgrade,
	/// (ping enabled) a session with a call in flight whose peer stops reading/answering: the server gives it up for inactivity
	WsSilentWithCall(u16),
	MalformedUpgrade(u8),
	/// a session whose peer sends a frame that violates the WebSocket protocol (reserved opcode, invalid UTF-8,
	/// oversized control frame, unmasked client frame) and then goes away: the session ends on a receive error
	WsBadFrame(u8),
	RawHttp,
	/// n cycles of one open/exit path
	Repeat(u8, u8),
}

#[derive(Clone, Debug, Serialize, Deserialize)]
pub struct C11Case {
	pub limit: u32,
	pub mode: u8,
	pub steps: Vec<K>,
	#[serde(default)]
	pub ping: bool,
	#[serde(default)]
	pub via_set_http_middleware: bool,
	/// the limit is set on the service builder (`TowerServiceBuilder::max_connections`), not in the ServerConfig
	#[serde(default)]
	pub limit_via_service_builder: bool,
}

pub struct Connections;

struct HttpInFlight {
	token: String,
	task: tokio::task::JoinHandle<HttpResp>,
}

const UPGRADE_OK: &str = "GET / HTTP/1.1\r\nHost: localhost\r\nUpgrade: websocket\r\nConnection: Upgrade\r\nSec-WebSocket-Key: dGhlIHNhbXBsZSBub25jZQ==\r\nSec-WebSocket-Version: 13\r\n\r\n";

struct W11 {
	fix: Fixture,
	limit: usize,
	http: Vec<HttpInFlight>,
	ws: Vec<WsPeer>,
	tokens: u32,
	silent: Vec<WsPeer>,
	fails: Vec<(String, String)>,
	reached_limit: u32,
	abnormal_exits: u32,
	ws_enabled: bool,
	http_enabled: bool,
	ping: bool,
	bad_frames: u32,
}

impl W11 {
	fn in_use(&self) -> usize {
		self.http.len() + self.ws.len()
	}

	/// at a quiescent point: the number of free slots must be limit - model
	async fn probe(&mut self, after: &str) {
		if !self.http_enabled {
			return;
		}
		let model = self.in_use();
		let log0 = self.fix.ctx.log_len();
		let r = self.fix.http_post(br#"{"jsonrpc":"2.0","id":1,"method":"guard_probe"}"#).await;
		settle().await;
		if model >= self.limit {
			if r.status != 429 || self.fix.ctx.log_len() != log0 {
				self.fails.push(("c11/attempt-beyond-limit-served".into(), format!("after {after}: {model} in use, limit {}; probe got status {} and the handler {}", self.limit, r.status, if self.fix.ctx.log_len() != log0 { "ran" } else { "did not run" })));
			}
		} else {
			let v: Value = serde_json::from_slice(&r.body).unwrap_or(Value::Null);
			let avail = v["result"]["available"].as_u64();
			let want = (self.limit - model - 1) as u64;
			if r.status != 200 || avail != Some(want) || v["result"]["max"].as_u64() != Some(self.limit as u64) {
				let sig = if avail.is_some_and(|a| a < want) || r.status == 429 { "c11/slot-leaked" } else { "c11/slot-count-too-high" };
				self.fails.push((sig.into(), format!("after {after}: model has {model} in use of {}; the probe saw status {} {v} (expected available={want})", self.limit, r.status)));
			}
		}
	}

	/// the same question through the GET proxy middleware (`GET /health` -> `guard_probe`)
	async fn probe_via_get_proxy(&mut self, after: &str) {
		if !self.http_enabled {
			return;
		}
		let model = self.in_use();
		let log0 = self.fix.ctx.log_len();
		let r = self.fix.http_get_via_proxy("/health").await;
		settle().await;
		if model >= self.limit {
			if r.status != 429 || self.fix.ctx.log_len() != log0 {
				self.fails.push(("c11/get-proxy-attempt-beyond-limit-not-429".into(), format!("after {after}: {model} in use, limit {}; GET /health through ProxyGetRequestLayer got status {} {:?} and the handler {}", self.limit, r.status, String::from_utf8_lossy(&r.body), if self.fix.ctx.log_len() != log0 { "ran" } else { "did not run" })));
			}
		} else {
			let v: Value = serde_json::from_slice(&r.body).unwrap_or(Value::Null);
			let want = (self.limit - model - 1) as u64;
			if r.status != 200 || v["available"].as_u64() != Some(want) {
				self.fails.push(("c11/get-proxy-slot-count".into(), format!("after {after}: model has {model} in use of {}; GET /health saw status {} {v} (expected available={want})", self.limit, r.status)));
			}
		}
	}

	async fn step(&mut self, k: &K) {
		let at_limit = self.in_use() >= self.limit;
		if at_limit {
			self.reached_limit += 1;
		}
		match k {
			K::HttpGated => {
				if !self.http_enabled {
					return;
				}
				self.tokens += 1;
				let token = format!("t{}", self.tokens);
				let body = format!(r#"{{"jsonrpc":"2.0","id":1,"method":"gated_async","params":["{token}"]}}"#);
				let mut svc = self.fix.service();
				let log0 = self.fix.ctx.log_len();
				// the slot is taken when the service is called, like a request arriving on a connection
				let fut = {
					use tower::Service;
					let req = build_request(&HttpReq::post_json(body.as_bytes())).unwrap();
					svc.call(req)
				};
				let task = tokio::spawn(async move {
					use http_body_util::BodyExt;
					match fut.await {
						Ok(r) => {
							let status = r.status().as_u16();
							let body = r.into_body().collect().await.map(|c| c.to_bytes().to_vec()).unwrap_or_default();
							HttpResp { status, body, content_type: None }
						}
						Err(e) => HttpResp { status: 599, body: e.to_string().into_bytes(), content_type: None },
					}
				});
				settle().await;
				if at_limit {
					let r = task.now_or_never();
					let status = r.and_then(|r| r.ok()).map(|r| r.status);
					if status != Some(429) || self.fix.ctx.log_len() != log0 {
						self.fails.push(("c11/attempt-beyond-limit-served".into(), format!("HTTP request with {} in use (limit {}): {status:?}", self.in_use(), self.limit)));
					}
				} else {
					// inside the handler: max - available == model (including itself)
					let seen = self.fix.ctx.guard_seen.lock().last().copied();
					let want_avail = self.limit - self.in_use() - 1;
					if seen != Some((self.limit, want_avail)) {
						self.fails.push(("c11/guard-count-inside-handler".into(), format!("handler saw (max, available) = {seen:?}, model expects ({}, {want_avail})", self.limit)));
					}
					self.http.push(HttpInFlight { token, task });
				}
			}
			K::HttpRelease(p) => {
				if self.http.is_empty() {
					return;
				}
				let h = self.http.remove(pick_idx(*p, self.http.len()));
				self.fix.ctx.gates.release(&h.token);
				settle().await;
				match h.task.now_or_never() {
					Some(Ok(r)) if r.status == 200 => {}
					other => self.fails.push(("c11/released-request-not-answered".into(), format!("{:?}", other.map(|r| r.map(|r| r.status))))),
				}
			}
			K::HttpAbort(p) => {
				if self.http.is_empty() {
					return;
				}
				let h = self.http.remove(pick_idx(*p, self.http.len()));
				h.task.abort();
				self.abnormal_exits += 1;
				settle().await;
				// the handler itself keeps waiting on its gate; let it go afterwards
				self.fix.ctx.gates.release(&h.token);
			}
			K::HttpQuick => {
				if !self.http_enabled {
					return;
				}
				let log0 = self.fix.ctx.log_len();
				let r = self.fix.http_post(br#"{"jsonrpc":"2.0","id":1,"method":"echo_sync"}"#).await;
				let want = if at_limit { 429 } else { 200 };
				if r.status != want || (at_limit && self.fix.ctx.log_len() != log0) {
					self.fails.push((if at_limit { "c11/attempt-beyond-limit-served".into() } else { "c11/attempt-within-limit-refused".into() }, format!("HTTP call with {} in use (limit {}): status {}", self.in_use(), self.limit, r.status)));
				}
			}
			K::WsOpen => {
				let r = self.fix.ws().await;
				match (r, at_limit, self.ws_enabled) {
					(Ok(ws), false, true) => self.ws.push(ws),
					(Err(e), true, _) => {
						if !e.contains("429") {
							self.fails.push(("c11/attempt-beyond-limit-not-429".into(), format!("WS handshake with {} in use: {e}", self.in_use())));
						}
					}
					(Err(e), false, false) => {
						if !e.contains("403") {
							self.fails.push(("c11/ws-disabled-unexpected-answer".into(), e));
						}
					}
					(Ok(_), true, _) => self.fails.push(("c11/attempt-beyond-limit-served".into(), format!("WS session established with {} in use (limit {})", self.in_use(), self.limit))),
					(Ok(_), false, false) => self.fails.push(("c11/ws-session-on-http-only-server".into(), String::new())),
					(Err(e), false, true) => self.fails.push(("c11/attempt-within-limit-refused".into(), format!("WS handshake with {} in use (limit {}): {e}", self.in_use(), self.limit))),
				}
			}
			K::WsClose(p, abrupt) => {
				if self.ws.is_empty() {
					return;
				}
				let mut ws = self.ws.remove(pick_idx(*p, self.ws.len()));
				if *abrupt {
					ws.abort();
					self.abnormal_exits += 1;
				} else {
					ws.close().await;
				}
				settle().await;
			}
			K::WsGatedCallThenDrop(p) => {
				if self.ws.is_empty() {
					return;
				}
				let mut ws = self.ws.remove(pick_idx(*p, self.ws.len()));
				self.tokens += 1;
				let token = format!("w{}", self.tokens);
				let _ = ws.send_text(&format!(r#"{{"jsonrpc":"2.0","id":1,"method":"gated_async","params":["{token}"]}}"#)).await;
				settle().await;
				ws.abort();
				self.abnormal_exits += 1;
				settle().await;
				self.fix.ctx.gates.release(&token);
			}
			K::WsSilentWithCall(p) => {
				// NOT generated: the server measures inactivity with std::time::Instant (the real clock), so under the
				// paused tokio clock a silent peer is never given up; kept for replaying hand-written cases only
				if self.ws.is_empty() || !self.ping {
					return;
				}
				let mut ws = self.ws.remove(pick_idx(*p, self.ws.len()));
				self.tokens += 1;
				let token = format!("q{}", self.tokens);
				let _ = ws.send_text(&format!(r#"{{"jsonrpc":"2.0","id":1,"method":"gated_async","params":["{token}"]}}"#)).await;
				settle().await;
				// the peer stops reading (no pongs any more) but keeps its end open; the barrier below advances the
				// clock far beyond the inactivity limit, so the server closes the session on its own
				ws.read_gate.pause();
				settle().await;
				settle().await;
				self.abnormal_exits += 1;
				self.fix.ctx.gates.release(&token);
				settle().await;
				// keep the silent peer around until the end of the history (its TCP side stays open)
				self.silent.push(ws);
			}
			K::WsHalfUpgrade => {
				let (mut io, _task) = self.fix.raw_conn(4096);
				let _ = io.write_all(UPGRADE_OK.as_bytes()).await;
				// gone before the 101 is read
				drop(io);
				self.abnormal_exits += 1;
				settle().await;
			}
			K::MalformedUpgrade(kind) => {
				let req = match kind % 3 {
					0 => UPGRADE_OK.replace("Sec-WebSocket-Key: dGhlIHNhbXBsZSBub25jZQ==\r\n", ""),
					1 => UPGRADE_OK.replace("Sec-WebSocket-Version: 13", "Sec-WebSocket-Version: 7"),
					_ => UPGRADE_OK.replace("GET /", "POST /"),
				};
				let (mut io, _task) = self.fix.raw_conn(4096);
				let _ = io.write_all(req.as_bytes()).await;
				settle().await;
				let mut buf = vec![0u8; 2048];
				let n = io.read(&mut buf).now_or_never().and_then(|r| r.ok()).unwrap_or(0);
				let head = String::from_utf8_lossy(&buf[..n]).to_string();
				// (whether such a request is upgraded at all is not C11's business: a POST upgrade is accepted by the
				// handshake code; either way the slot must be free again once the peer is gone)
				if at_limit && !head.starts_with("HTTP/1.1 429") {
					self.fails.push(("c11/attempt-beyond-limit-not-429".into(), format!("malformed upgrade with {} in use: {head:?}", self.in_use())));
				}
				drop(io);
				self.abnormal_exits += 1;
				settle().await;
			}
			K::WsBadFrame(kind) => {
				if at_limit || !self.ws_enabled {
					return;
				}
				let (mut io, _task) = self.fix.raw_conn(4096);
				let _ = io.write_all(UPGRADE_OK.as_bytes()).await;
				settle().await;
				let mut buf = vec![0u8; 2048];
				let n = io.read(&mut buf).now_or_never().and_then(|r| r.ok()).unwrap_or(0);
				let head = String::from_utf8_lossy(&buf[..n]).to_string();
				if !head.starts_with("HTTP/1.1 101") {
					self.fails.push(("c11/attempt-within-limit-refused".into(), format!("WS upgrade with {} in use (limit {}): {:?}", self.in_use(), self.limit, head.lines().next())));
					return;
				}
				// (client frames are masked; with the all-zero masking key the payload bytes stay as written)
				let frame: &[u8] = match kind % 4 {
					0 => &[0x83, 0x80, 0, 0, 0, 0],
					1 => &[0x81, 0x82, 0, 0, 0, 0, 0xff, 0xfe],
					2 => &[0x89, 0xfe, 0x00, 0x7e, 0, 0, 0, 0],
					_ => &[0x81, 0x01, b'x'],
				};
				let _ = io.write_all(frame).await;
				settle().await;
				drop(io);
				self.abnormal_exits += 1;
				self.bad_frames += 1;
				settle().await;
			}
			K::RawHttp => {
				// a keep-alive HTTP/1.1 connection through hyper with two sequential requests
				if !self.http_enabled {
					return;
				}
				let (mut io, _task) = self.fix.raw_conn(8192);
				let body = r#"{"jsonrpc":"2.0","id":1,"method":"echo_sync","params":[1]}"#;
				let req = format!("POST / HTTP/1.1\r\nHost: localhost\r\nContent-Type: application/json\r\nContent-Length: {}\r\n\r\n{body}", body.len());
				for _ in 0..2 {
					let _ = io.write_all(req.as_bytes()).await;
					settle().await;
					let mut buf = vec![0u8; 4096];
					let n = io.read(&mut buf).now_or_never().and_then(|r| r.ok()).unwrap_or(0);
					let head = String::from_utf8_lossy(&buf[..n]).to_string();
					let want = if at_limit { "HTTP/1.1 429" } else { "HTTP/1.1 200" };
					if !head.starts_with(want) {
						self.fails.push((if at_limit { "c11/attempt-beyond-limit-served".into() } else { "c11/attempt-within-limit-refused".into() }, format!("raw HTTP request with {} in use (limit {}): {:?}", self.in_use(), self.limit, head.lines().next())));
					}
				}
				drop(io);
				settle().await;
			}
			K::Repeat(path, n) => {
				for _ in 0..(*n as usize) {
					let k = match path % 7 {
						6 => vec![K::WsBadFrame(*n)],
						0 => vec![K::WsOpen, K::WsClose(0, false)],
						1 => vec![K::WsOpen, K::WsClose(0, true)],
						2 => vec![K::WsHalfUpgrade],
						3 => vec![K::HttpGated, K::HttpAbort(u16::MAX)],
						4 => vec![K::WsOpen, K::WsGatedCallThenDrop(u16::MAX)],
						_ => vec![K::MalformedUpgrade(0), K::HttpQuick],
					};
					for s in k {
						Box::pin(self.step(&s)).await;
					}
					if !self.fails.is_empty() {
						return;
					}
				}
			}
		}
	}
}

impl SubCheck for Connections {
	type Case = C11Case;
	fn name(&self) -> &'static str {
		"connections"
	}
	fn cases(&self, tier: Tier) -> u32 {
		tier.pick(80_000, 1_500_000)
	}
	fn strategy(&self, tier: Tier) -> BoxedStrategy<C11Case> {
		let max = tier.pick(20usize, 40);
		let rep = tier.pick(20u8, 120);
		let k = prop_oneof![
			4 => Just(K::HttpGated),
			3 => any::<u16>().prop_map(K::HttpRelease),
			2 => any::<u16>().prop_map(K::HttpAbort),
			2 => Just(K::HttpQuick),
			4 => Just(K::WsOpen),
			3 => (any::<u16>(), any::<bool>()).prop_map(|(p, a)| K::WsClose(p, a)),
			1 => any::<u16>().prop_map(K::WsGatedCallThenDrop),
			2 => Just(K::WsHalfUpgrade),
			1 => (0u8..3).prop_map(K::MalformedUpgrade),
			2 => (0u8..4).prop_map(K::WsBadFrame),
			1 => Just(K::RawHttp),
			1 => (0u8..7, 2u8..rep).prop_map(|(p, n)| K::Repeat(p, n)),
		];
		(0u32..4, prop_oneof![6 => Just(0u8), 1 => Just(1u8), 1 => Just(2u8)], proptest::collection::vec(k, 1..max), proptest::bool::weighted(0.3), proptest::bool::weighted(0.3), proptest::bool::weighted(0.25))
			.prop_map(|(limit, mode, steps, ping, via_set_http_middleware, limit_via_service_builder)| C11Case { limit, mode, steps, ping, via_set_http_middleware, limit_via_service_builder })
			.boxed()
	}
	fn run(&self, case: &C11Case, obs: &mut Obs) {
		let rt = rt();
		rt.block_on(async {
			let fix = Fixture::new(Cfg { max_connections: case.limit, mode: case.mode, ping: if case.ping { Some((600, 1500)) } else { None }, via_set_http_middleware: case.via_set_http_middleware, limit_via_service_builder: case.limit_via_service_builder, ..Cfg::default() });
			let mut w = W11 { fix, limit: case.limit as usize, http: vec![], ws: vec![], tokens: 0, silent: vec![], ping: case.ping, bad_frames: 0, fails: vec![], reached_limit: 0, abnormal_exits: 0, ws_enabled: case.mode != 1, http_enabled: case.mode != 2 };
			for (i, k) in case.steps.iter().enumerate() {
				w.step(k).await;
				if w.fails.is_empty() {
					w.probe(&format!("step #{i} {k:?}")).await;
				}
				if w.fails.is_empty() && case.mode != 2 && !case.limit_via_service_builder && i % 3 == 2 {
					w.probe_via_get_proxy(&format!("step #{i} {k:?}")).await;
				}
				if !w.fails.is_empty() {
					break;
				}
			}
			if w.reached_limit >= 2 && w.abnormal_exits >= 1 {
				obs.nontrivial();
			}
			obs.class(format!("limit:{}", case.limit));
			obs.class(match case.mode {
				1 => "http-only",
				2 => "ws-only",
				_ => "http+ws",
			});
			if w.abnormal_exits > 0 {
				obs.class("with-abnormal-exit");
			}
			if case.ping {
				obs.class("ping-enabled");
			}
			if case.via_set_http_middleware {
				obs.class("service-built-through-set_http_middleware");
			}
			if case.limit_via_service_builder {
				obs.class("limit-set-on-the-service-builder");
			}
			if !w.silent.is_empty() {
				obs.class("session-given-up-for-inactivity");
			}
			if w.bad_frames > 0 {
				obs.class("session-ended-by-protocol-violation");
			}
			if case.steps.iter().any(|k| matches!(k, K::Repeat(..))) {
				obs.class("with-repetition");
			}
			for (s, d) in w.fails.drain(..) {
				obs.fail(s, format!("{d}; case={case:?}"));
			}
			w.fix.ctx.gates.release_all();
			settle().await;
		});
	}
}

// ---------------------------------------------------------------------------------------------
// sessions the server gives up on its own (ping inactivity)
// ---------------------------------------------------------------------------------------------

/// The server measures ping inactivity with `std::time::Instant`, which the paused tokio clock does not move. The
/// ping *interval* is a tokio timer, though, so a history can be made deterministic in the one direction that
/// matters here: every WebSocket peer of the case is silent (it stops reading, so it never answers a ping), the
/// inactivity limit is 1 ms of real time, the harness really sleeps 3 ms and then lets the paused clock run over
/// hundreds of ping intervals. Each silent session has then been given up by the server, whatever it had in flight.
#[derive(Clone, Debug, Serialize, Deserialize)]
pub struct GiveUpCase {
	pub limit: u32,
	pub max_failures: u8,
	/// per silent session: number of calls left in flight on it, and whether a subscription is open on it
	pub sessions: Vec<(u8, bool)>,
	pub http_gated: bool,
	pub via_set_http_middleware: bool,
	pub lowlevel: bool,
}

pub struct GiveUp;

impl SubCheck for GiveUp {
	type Case = GiveUpCase;
	fn name(&self) -> &'static str {
		"given-up-for-inactivity"
	}
	fn cases(&self, tier: Tier) -> u32 {
		tier.pick(4_000, 80_000)
	}
	fn strategy(&self, _tier: Tier) -> BoxedStrategy<GiveUpCase> {
		(1u32..4, 1u8..4, proptest::collection::vec((0u8..3, proptest::bool::weighted(0.3)), 1..4), any::<bool>(), proptest::bool::weighted(0.3), proptest::bool::weighted(0.3))
			.prop_map(|(limit, max_failures, sessions, http_gated, via_set_http_middleware, lowlevel)| GiveUpCase { limit, max_failures, sessions, http_gated, via_set_http_middleware, lowlevel })
			.boxed()
	}
	fn run(&self, case: &GiveUpCase, obs: &mut Obs) {
		let rt = rt();
		rt.block_on(async {
			let fix = Fixture::new(Cfg { max_connections: case.limit, ping_fine: Some((10, 1, case.max_failures as usize)), via_set_http_middleware: case.via_set_http_middleware, ..Cfg::default() });
			let mut w = W11 { fix, limit: case.limit as usize, http: vec![], ws: vec![], tokens: 0, silent: vec![], ping: true, bad_frames: 0, fails: vec![], reached_limit: 0, abnormal_exits: 0, ws_enabled: true, http_enabled: true };
			if case.http_gated && case.limit >= 2 {
				w.step(&K::HttpGated).await;
			}
			let mut in_flight = 0;
			let mut tokens = vec![];
			for (calls, sub) in &case.sessions {
				if w.in_use() + w.silent.len() >= w.limit {
					break;
				}
				let opened = if case.lowlevel { w.fix.ws_lowlevel().await } else { w.fix.ws().await };
				let Ok(mut ws) = opened else {
					w.fails.push(("c11/attempt-below-limit-refused".into(), format!("session with {} in use (limit {}) refused", w.in_use() + w.silent.len(), w.limit)));
					break;
				};
				if *sub {
					let _ = ws.send_text(r#"{"jsonrpc":"2.0","id":"s","method":"sub_a"}"#).await;
					settle().await;
					if let Some(a) = w.fix.ctx.actors.lock().last() {
						let (atx, _arx) = tokio::sync::oneshot::channel();
						let _ = a.tx.send((Cmd::Accept, atx));
					}
				}
				// the peer stops reading for good (its reader task is gone): no pong is ever sent from here on
				ws.stop_reading();
				for _ in 0..*calls {
					w.tokens += 1;
					let token = format!("q{}", w.tokens);
					let _ = ws.send_text(&format!(r#"{{"jsonrpc":"2.0","id":1,"method":"gated_async","params":["{token}"]}}"#)).await;
					tokens.push(token);
					in_flight += 1;
				}
				settle().await;
				w.silent.push(ws);
			}
			let n_silent = w.silent.len();
			// real time passes (the inactivity limit is 1 ms), then hundreds of ping intervals of the paused clock
			std::thread::sleep(std::time::Duration::from_millis(3));
			settle().await;
			settle().await;
			// every silent session has been given up: only the gated HTTP request still holds a slot
			w.probe(&format!("{n_silent} silent session(s) with {in_flight} call(s) in flight were given up for inactivity")).await;
			if w.fails.is_empty() {
				// ... and the limit can be reached again (with HTTP requests: a fresh WebSocket session would itself be
				// judged against the 1 ms limit)
				while w.in_use() < w.limit {
					w.step(&K::HttpGated).await;
					if !w.fails.is_empty() {
						break;
					}
				}
				if w.fails.is_empty() {
					w.probe("refilling to the limit after the give-up").await;
				}
			}
			for t in &tokens {
				w.fix.ctx.gates.release(t);
			}
			if in_flight > 0 && n_silent > 0 {
				obs.nontrivial();
				obs.class("given-up-with-calls-in-flight");
			}
			if case.sessions.iter().any(|s| s.1) {
				obs.class("given-up-with-subscription");
			}
			obs.class(format!("max-failures:{}", case.max_failures));
			for (s, d) in w.fails.drain(..) {
				obs.fail(s, format!("{d}; case={case:?}"));
			}
			w.fix.ctx.gates.release_all();
			settle().await;
		});
	}
}

pub fn long_cycles(tier: Tier) -> Vec<C11Case> {
	let n = tier.pick(200u8, 250);
	let mut v = vec![];
	for path in 0..7u8 {
		for limit in 1..=3u32 {
			v.push(C11Case { limit, mode: 0, steps: vec![K::Repeat(path, n), K::WsOpen, K::HttpGated, K::WsOpen, K::HttpQuick], ping: false, via_set_http_middleware: path % 2 == 1, limit_via_service_builder: path % 3 == 2 });
		}
	}
	v
}

pub fn check(ctx: &mut Ctx) {
	ctx.rule = "limits 0..3 x {http+ws, http-only, ws-only}; histories of {HTTP request to a gated handler, release, client abort of an in-flight request, quick HTTP call, keep-alive HTTP/1.1 connection through hyper, WebSocket session open, clean close, abrupt drop, drop with a call in flight, \
		upgrade request dropped before the 101 is read, malformed upgrades (missing key / wrong version / POST)}, with up to 120 repetitions of an open/exit cycle inside a history and 200 cycles per exit path as dedicated cases. \
		Oracle: counter model of requests/sessions in progress: an attempt at the limit is answered 429 and no handler runs, otherwise it is served; inside a handler max-available equals the model; after EVERY step a probe request must see exactly limit-model-1 free slots (or 429 at the limit), so a leaked slot shows at once. \
		Sub-check given-up-for-inactivity: 1..3 silent WebSocket peers (0..2 gated calls in flight, optional subscription; TowerService or low-level ws::connect) with ping enabled and a 1 ms real-time inactivity limit, max_failures 1..3; after a real 3 ms sleep and ~700 ping intervals of the paused clock the probe must see every one of their slots free and the limit must be reachable again. 		Non-trivial = the limit was reached >= 2 times with >= 1 abnormal exit in between (histories) / a session was given up with a call in flight (give-up); distinct by case value. Further sub-checks: low-level-server-side-close (ws::connect sessions under a shared ConnectionGuard, closed by dropping the connection future) and connections-over-tcp (Server::start on loopback; peers close their sockets while their calls execute; real clock, ten-second budget). The main histories also include protocol-violating frames, the limit set on the service builder and probes through ProxyGetRequestLayer."
		.into();
	ctx.assumptions = vec!["S-mem: the service is called directly (HTTP) or served by hyper over an in-memory duplex (WS, raw HTTP); the TCP accept loop of `Server::start` is covered by C10's fixture".into()];
	let cyc = long_cycles(ctx.tier);
	ctx.run_cases_parallel(&Connections, cyc, 16);
	ctx.run_sub(&Connections);
	ctx.run_sub(&GiveUp);
	ctx.run_sub(&LowLevelServerDrop);
	ctx.run_sub(&LowLevelHttp);
	ctx.run_sub(&OverTcp);
	ctx.extra.insert("tcp_inconclusive_cases".into(), json!(TCP_INCONCLUSIVE.load(std::sync::atomic::Ordering::SeqCst)));
}

pub fn replay(file: &serde_json::Value) -> Option<i32> {
	replay_with(&Connections, file, "C11").or_else(|| replay_with(&GiveUp, file, "C11")).or_else(|| replay_with(&LowLevelServerDrop, file, "C11")).or_else(|| replay_with(&LowLevelHttp, file, "C11")).or_else(|| replay_with(&OverTcp, file, "C11"))
}

#[allow(dead_code)]
fn _j() -> Value {
	json!(null)
}

// ---------------------------------------------------------------------------------------------
// S-tcp: `Server::start` on loopback (the accept loop and hyper's own connection handling), real clock
// ---------------------------------------------------------------------------------------------

#[derive(Clone, Debug, Serialize, Deserialize)]
pub struct TcpConnCase {
	pub limit: u8,
	/// how each of the `limit` occupying peers leaves while its call is still executing:
	/// 0 = HTTP, socket closed; 1 = HTTP, write half shut down then closed; 2 = WebSocket, socket dropped
	pub leave: Vec<u8>,
	pub rounds: u8,
}

pub struct OverTcp;

pub static TCP_INCONCLUSIVE: std::sync::atomic::AtomicU64 = std::sync::atomic::AtomicU64::new(0);

async fn http_status(addr: std::net::SocketAddr, body: &str, wall: std::time::Duration) -> Result<u16, String> {
	let mut s = tokio::net::TcpStream::connect(addr).await.map_err(|e| format!("INCONCLUSIVE connect {e}"))?;
	let req = format!("POST / HTTP/1.1\r\nHost: localhost\r\nContent-Type: application/json\r\nConnection: close\r\nContent-Length: {}\r\n\r\n{body}", body.len());
	s.write_all(req.as_bytes()).await.map_err(|e| format!("INCONCLUSIVE write {e}"))?;
	let mut buf = vec![];
	tokio::time::timeout(wall, s.read_to_end(&mut buf)).await.map_err(|_| "INCONCLUSIVE no HTTP response within the wall budget".to_string())?.ok();
	let text = String::from_utf8_lossy(&buf).to_string();
	text.split_whitespace().nth(1).and_then(|x| x.parse().ok()).ok_or_else(|| format!("INCONCLUSIVE unreadable response {text:?}"))
}

async fn run_over_tcp(case: &TcpConnCase, obs: &mut Obs) -> Result<(), String> {
	use tokio::net::TcpStream;
	let wall = std::time::Duration::from_secs(20);
	let ctx = std::sync::Arc::new(HCtx { log: Default::default(), gates: Gates::default(), actors: Default::default(), guard_seen: Default::default(), sub_ids: Default::default() });
	let module = build_module(ctx.clone());
	let limit = case.limit.clamp(1, 3) as usize;
	let cfg = Cfg { max_connections: limit as u32, ..Cfg::default() };
	let server = jsonrpsee_server::Server::builder().set_config(server_config(&cfg, false)).build("127.0.0.1:0").await.map_err(|e| format!("INCONCLUSIVE bind: {e}"))?;
	let addr = server.local_addr().map_err(|e| format!("INCONCLUSIVE addr: {e}"))?;
	let handle = server.start(module);
	let probe = r#"{"jsonrpc":"2.0","id":1,"method":"echo_sync","params":[1]}"#;
	let mut n = 0u32;
	for round in 0..case.rounds.clamp(1, 3) {
		// fill every slot with a peer whose call does not return
		let mut http: Vec<(TcpStream, u8)> = vec![];
		let mut ws: Vec<WsPeer> = vec![];
		for k in 0..limit {
			n += 1;
			let token = format!("tcp{n}");
			let call = format!(r#"{{"jsonrpc":"2.0","id":1,"method":"gated_async","params":["{token}"]}}"#);
			let how = case.leave.get(k).copied().unwrap_or(0) % 3;
			let mut s = TcpStream::connect(addr).await.map_err(|e| format!("INCONCLUSIVE connect {e}"))?;
			if how == 2 {
				let mut p = WsPeer::connect(s, tokio::spawn(async {})).await.map_err(|e| format!("INCONCLUSIVE handshake {e}"))?;
				p.send_text(&call).await.map_err(|e| format!("INCONCLUSIVE send {e}"))?;
				ws.push(p);
			} else {
				let req = format!("POST / HTTP/1.1\r\nHost: localhost\r\nContent-Type: application/json\r\nContent-Length: {}\r\n\r\n{call}", call.len());
				s.write_all(req.as_bytes()).await.map_err(|e| format!("INCONCLUSIVE write {e}"))?;
				http.push((s, how));
			}
			// the handler has started (bounded wait)
			let t0 = std::time::Instant::now();
			while !ctx.log.lock().iter().any(|l| l.phase == "started" && l.params.as_deref().is_some_and(|p| p.contains(&token))) {
				if t0.elapsed() > wall {
					return Err("INCONCLUSIVE handler did not start within the wall budget".into());
				}
				tokio::time::sleep(std::time::Duration::from_millis(2)).await;
			}
		}
		// every slot is taken: one more is refused, and its handler does not run
		let log0 = ctx.log_len();
		let st = http_status(addr, probe, wall).await?;
		if st != 429 || ctx.log_len() != log0 {
			obs.fail("c11/server-attempt-beyond-limit-served", format!("round {round}: {limit} calls executing on {limit} slots, one more request got status {st}; case={case:?}"));
			break;
		}
		// the peers go away while their calls are still executing
		for (mut s, how) in http {
			if how == 1 {
				let _ = s.shutdown().await;
				tokio::time::sleep(std::time::Duration::from_millis(5)).await;
			}
			drop(s);
		}
		for mut p in ws {
			p.abort();
		}
		// a finished connection frees its slot: asked again and again, the server serves `limit` requests at once soon
		// (loopback, an idle server: ten seconds of refusals after every peer has gone is not a matter of scheduling)
		let t0 = std::time::Instant::now();
		let mut served = false;
		let mut polls = 0;
		while t0.elapsed() < std::time::Duration::from_secs(10) {
			polls += 1;
			if http_status(addr, probe, wall).await? == 200 {
				served = true;
				break;
			}
			tokio::time::sleep(std::time::Duration::from_millis(50)).await;
		}
		if !served {
			if polls < 20 {
				return Err("INCONCLUSIVE fewer than 20 polls fitted into ten seconds".into());
			}
			obs.fail("c11/server-slot-leaked", format!("round {round}: all {limit} peers closed their connections while their calls were executing; ten seconds and {polls} requests later the server still answers 429; case={case:?}"));
			break;
		}
		obs.nontrivial();
	}
	ctx.gates.release_all();
	let _ = handle.stop();
	let _ = tokio::time::timeout(std::time::Duration::from_secs(5), handle.stopped()).await;
	Ok(())
}

impl SubCheck for OverTcp {
	type Case = TcpConnCase;
	fn name(&self) -> &'static str {
		"connections-over-tcp"
	}
	fn cases(&self, tier: Tier) -> u32 {
		tier.pick(200, 4_000)
	}
	fn shards(&self, _tier: Tier) -> u32 {
		8
	}
	fn strategy(&self, _tier: Tier) -> BoxedStrategy<TcpConnCase> {
		(1u8..4, proptest::collection::vec(0u8..3, 3), 1u8..3).prop_map(|(limit, leave, rounds)| TcpConnCase { limit, leave, rounds }).boxed()
	}
	fn run(&self, case: &TcpConnCase, obs: &mut Obs) {
		let rt = tokio::runtime::Builder::new_multi_thread().worker_threads(2).enable_all().build().unwrap();
		let r = rt.block_on(run_over_tcp(case, obs));
		rt.shutdown_timeout(std::time::Duration::from_millis(200));
		match r {
			Ok(()) => obs.class("completed"),
			Err(e) => {
				obs.class("inconclusive");
				TCP_INCONCLUSIVE.fetch_add(1, std::sync::atomic::Ordering::SeqCst);
				if std::env::var("VERIF_VERBOSE").is_ok() {
					eprintln!("[C11/tcp] {e}");
				}
			}
		}
	}
}

// ---------------------------------------------------------------------------------------------
// low-level `ws::connect`: the server closes a session by dropping the connection future
// ---------------------------------------------------------------------------------------------

#[derive(Clone, Debug, Serialize, Deserialize)]
pub struct ServerDropCase {
	pub limit: u8,
	/// per session: a gated call is in flight when the server lets go of it
	pub with_call: Vec<bool>,
	pub rounds: u8,
}

pub struct LowLevelServerDrop;

impl SubCheck for LowLevelServerDrop {
	type Case = ServerDropCase;
	fn name(&self) -> &'static str {
		"low-level-server-side-close"
	}
	fn cases(&self, tier: Tier) -> u32 {
		tier.pick(3_000, 60_000)
	}
	fn strategy(&self, _tier: Tier) -> BoxedStrategy<ServerDropCase> {
		(1u8..4, proptest::collection::vec(any::<bool>(), 3), 1u8..4).prop_map(|(limit, with_call, rounds)| ServerDropCase { limit, with_call, rounds }).boxed()
	}
	fn run(&self, case: &ServerDropCase, obs: &mut Obs) {
		let rt = rt();
		rt.block_on(async {
			let limit = case.limit.clamp(1, 3) as usize;
			let fix = Fixture::new(Cfg { max_connections: limit as u32, ..Cfg::default() });
			let desc = || format!("case={case:?}");
			let mut tokens = 0;
			for round in 0..case.rounds {
				let mut peers = vec![];
				for k in 0..limit {
					match fix.ws_lowlevel().await {
						Ok(mut p) => {
							if case.with_call.get(k).copied().unwrap_or(false) {
								tokens += 1;
								let _ = p.send_text(&format!(r#"{{"jsonrpc":"2.0","id":1,"method":"gated_async","params":["d{tokens}"]}}"#)).await;
							}
							peers.push(p);
						}
						Err(e) => {
							obs.fail("c11/attempt-within-limit-refused", format!("round {round}: low-level session #{k} with {k} in use (limit {limit}): {e}; {}", desc()));
							return;
						}
					}
				}
				settle().await;
				obs.check(fix.lowlevel_guard.available_connections() == 0, "c11/slot-count-too-high", || format!("round {round}: {limit} sessions open, {} slots free; {}", fix.lowlevel_guard.available_connections(), desc()));
				obs.check(fix.ws_lowlevel().await.is_err(), "c11/attempt-beyond-limit-served", || format!("round {round}: a session beyond the limit was established; {}", desc()));
				// the server lets go of every session: dropping the future `ws::connect` returned closes the connection
				for t in fix.lowlevel_conn_tasks.lock().drain(..) {
					t.abort();
				}
				settle().await;
				let free = fix.lowlevel_guard.available_connections();
				obs.check(free == limit, "c11/slot-leaked", || format!("round {round}: the server dropped the connection futures of all {limit} sessions (peers still connected); {free} of {limit} slots are free; {}", desc()));
				for p in peers.iter_mut() {
					let ev = p.drain();
					obs.check(ev.iter().any(|e| matches!(e, WsEvent::Closed | WsEvent::Error(_))), "c11/session-dropped-by-server-still-open", || format!("round {round}: the peer saw {ev:?}; {}", desc()));
				}
				if !obs.failures.is_empty() {
					break;
				}
			}
			obs.nontrivial();
			fix.ctx.gates.release_all();
			settle().await;
		});
	}
}

// ---------------------------------------------------------------------------------------------
// low-level `http::call_with_service_builder`: a request holds its slot until it is answered
// ---------------------------------------------------------------------------------------------

#[derive(Clone, Debug, Serialize, Deserialize)]
pub enum LlStep {
	/// a POST whose handler waits for its gate: stays in flight
	Gated,
	/// a POST answered at once
	Quick,
	/// release the k-th request in flight
	Release(u8),
	/// a WebSocket session through `ws::connect` (shares the guard)
	WsOpen,
	WsClose(u8),
}

#[derive(Clone, Debug, Serialize, Deserialize)]
pub struct LlHttpCase {
	pub limit: u8,
	pub steps: Vec<LlStep>,
}

pub struct LowLevelHttp;

impl SubCheck for LowLevelHttp {
	type Case = LlHttpCase;
	fn name(&self) -> &'static str {
		"low-level-http"
	}
	fn cases(&self, tier: Tier) -> u32 {
		tier.pick(3_000, 60_000)
	}
	fn strategy(&self, _tier: Tier) -> BoxedStrategy<LlHttpCase> {
		let step = prop_oneof![
			4 => Just(LlStep::Gated),
			3 => Just(LlStep::Quick),
			3 => any::<u8>().prop_map(LlStep::Release),
			1 => Just(LlStep::WsOpen),
			1 => any::<u8>().prop_map(LlStep::WsClose),
		];
		(1u8..4, proptest::collection::vec(step, 1..14)).prop_map(|(limit, steps)| LlHttpCase { limit, steps }).boxed()
	}
	fn run(&self, case: &LlHttpCase, obs: &mut Obs) {
		let rt = rt();
		rt.block_on(async {
			let limit = case.limit.clamp(1, 3) as usize;
			let fix = Fixture::new(Cfg { max_connections: limit as u32, ..Cfg::default() });
			let desc = || format!("case={case:?}");
			let mut flying: Vec<(String, tokio::task::JoinHandle<HttpResp>)> = vec![];
			let mut sessions: Vec<WsPeer> = vec![];
			let mut tokens = 0u32;
			let mut at_limit = false;
			for (n, st) in case.steps.iter().enumerate() {
				let in_use = flying.len() + sessions.len();
				match st {
					LlStep::Gated | LlStep::Quick => {
						tokens += 1;
						let token = format!("ll{tokens}");
						let body = if matches!(st, LlStep::Gated) { format!(r#"{{"jsonrpc":"2.0","id":{tokens},"method":"gated_async","params":["{token}"]}}"#) } else { format!(r#"{{"jsonrpc":"2.0","id":{tokens},"method":"echo_sync","params":[{tokens}]}}"#) };
						let mut h = tokio::spawn(fix.http_lowlevel_detached(HttpReq::post_json(body.as_bytes())));
						settle().await;
						let done = if h.is_finished() { Some((&mut h).await) } else { None };
						if in_use >= limit {
							at_limit = true;
							match done {
								Some(Ok(r)) => {
									obs.check(r.status == 429, "c11/attempt-beyond-limit-served", || format!("step #{n} {st:?} with {in_use} of {limit} slots in use was answered {} {}; {}", r.status, String::from_utf8_lossy(&r.body), desc()));
								}
								Some(Err(e)) => obs.fail("c11/background-panic", format!("{e}; {}", desc())),
								None => {
									obs.fail("c11/attempt-beyond-limit-served", format!("step #{n} {st:?} with {in_use} of {limit} slots in use was taken on (its handler is running); {}", desc()));
									flying.push((token, h));
								}
							}
						} else {
							match (st, done) {
								(LlStep::Gated, None) => flying.push((token, h)),
								(LlStep::Quick, Some(Ok(r))) => {
									obs.check(r.status == 200, "c11/attempt-within-limit-refused", || format!("step #{n} {st:?} with {in_use} of {limit} slots in use was answered {} {}; {}", r.status, String::from_utf8_lossy(&r.body), desc()));
								}
								(_, Some(Ok(r))) => obs.fail("c11/attempt-within-limit-refused", format!("step #{n} {st:?} with {in_use} of {limit} slots in use was answered {} {} at once; {}", r.status, String::from_utf8_lossy(&r.body), desc())),
								(_, Some(Err(e))) => obs.fail("c11/background-panic", format!("{e}; {}", desc())),
								(_, None) => obs.fail("c11/request-not-answered", format!("step #{n} {st:?}; {}", desc())),
							}
						}
					}
					LlStep::Release(k) => {
						if flying.is_empty() {
							continue;
						}
						let (token, h) = flying.remove(*k as usize % flying.len());
						fix.ctx.gates.release(&token);
						settle().await;
						match h.now_or_never() {
							Some(Ok(r)) => {
								obs.check(r.status == 200, "c11/started-call-not-answered", || format!("step #{n}: released request answered {}; {}", r.status, desc()));
							}
							other => obs.fail("c11/started-call-not-answered", format!("step #{n}: released request: {:?}; {}", other.map(|r| r.map(|x| x.status)), desc())),
						}
					}
					LlStep::WsOpen => {
						let r = fix.ws_lowlevel().await;
						settle().await;
						match r {
							Ok(p) if in_use < limit => sessions.push(p),
							Ok(_) => obs.fail("c11/attempt-beyond-limit-served", format!("step #{n}: a session with {in_use} of {limit} slots in use; {}", desc())),
							Err(e) if in_use < limit => obs.fail("c11/attempt-within-limit-refused", format!("step #{n}: session with {in_use} of {limit} in use: {e}; {}", desc())),
							Err(_) => at_limit = true,
						}
					}
					LlStep::WsClose(k) => {
						if sessions.is_empty() {
							continue;
						}
						let mut p = sessions.remove(*k as usize % sessions.len());
						p.close().await;
						settle().await;
					}
				}
				let used = flying.len() + sessions.len();
				let free = fix.lowlevel_guard.available_connections();
				obs.check(free + used == limit, "c11/slot-count-wrong", || format!("after step #{n} {st:?}: {used} requests / sessions in flight, {free} of {limit} slots free; {}", desc()));
				if !obs.failures.is_empty() {
					break;
				}
			}
			if at_limit {
				obs.nontrivial();
				obs.class("low-level-http:limit-reached");
			}
			fix.ctx.gates.release_all();
			settle().await;
		});
	}
}
