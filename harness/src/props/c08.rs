//! C08 — no response payload above max_response_body_size is ever sent (apart from the fixed "too big" errors).

use crate::engine::*;
use crate::fix::server::*;
use crate::json::*;
use crate::props::c15::{GId, arb_gid};
use jsonrpsee_core::server::{BatchResponseBuilder, MethodResponse, ResponsePayload};
use jsonrpsee_types::ErrorObject;
use proptest::prelude::*;
use serde::{Deserialize, Serialize};
use serde_json::{Value, json};

/// The exact response text, built independently of the library (own renderer; member order as on the wire).
pub fn response_text(id: &GId, result: Result<&J, (i32, &str, Option<&J>)>) -> String {
	let mut m = vec![("jsonrpc".to_string(), J::str("2.0")), ("id".to_string(), id.to_j())];
	match result {
		Ok(v) => m.push(("result".to_string(), v.clone())),
		Err((code, msg, data)) => {
			let mut e = vec![("code".to_string(), J::num(code)), ("message".to_string(), J::str(msg))];
			if let Some(d) = data {
				e.push(("data".to_string(), d.clone()));
			}
			m.push(("error".to_string(), J::Obj(e)));
		}
	}
	J::Obj(m).compact()
}

pub fn too_big_text(id: &GId, limit: usize) -> String {
	response_text(id, Err((-32008, "Response is too big", Some(&J::str(format!("Exceeded max limit of {limit}"))))))
}

pub fn batch_too_big_text(limit: usize) -> String {
	response_text(&GId::Null, Err((-32011, "The batch response was too large", Some(&J::str(format!("Exceeded max limit of {limit}"))))))
}

/// what must be sent for one call whose full response text is `full`
pub fn limited(full: &str, id: &GId, limit: usize) -> String {
	if full.len() <= limit { full.to_string() } else { too_big_text(id, limit) }
}

pub fn batch_expected(elems: &[String], limit: usize) -> String {
	let total = 2 + elems.iter().map(|e| e.len()).sum::<usize>() + elems.len().saturating_sub(1);
	if total > limit { batch_too_big_text(limit) } else { format!("[{}]", elems.join(",")) }
}

// ---------------------------------------------------------------------------------------------
// pure layer
// ---------------------------------------------------------------------------------------------

#[derive(Clone, Debug, Serialize, Deserialize)]
pub enum PurePayload {
	Ok(J),
	Err(i32, String, Option<J>),
}

#[derive(Clone, Debug, Serialize, Deserialize)]
pub struct PureCase {
	pub entries: Vec<(GId, PurePayload)>,
	/// limit = (exact size of the judged text) + delta
	pub delta: i8,
	/// which entry's single response the limit is aligned to; None = the whole batch
	pub align: Option<u8>,
}

pub struct Pure;

fn arb_pure_payload(d: u32) -> BoxedStrategy<PurePayload> {
	prop_oneof![
		4 => arb_json(d).prop_map(PurePayload::Ok),
		1 => (crate::props::c15::arb_code(), arb_string(10), proptest::option::of(arb_json(2))).prop_map(|(c, m, d)| PurePayload::Err(c, m, d)),
	]
	.boxed()
}

fn full_text(id: &GId, p: &PurePayload) -> String {
	match p {
		PurePayload::Ok(j) => response_text(id, Ok(&J::from_value(&j.to_value()))),
		PurePayload::Err(c, m, d) => {
			let d = d.as_ref().map(|d| J::from_value(&d.to_value()));
			response_text(id, Err((*c, m, d.as_ref())))
		}
	}
}

fn lib_response(id: &GId, p: &PurePayload, limit: usize) -> MethodResponse {
	match p {
		PurePayload::Ok(j) => MethodResponse::response(id.to_id(), ResponsePayload::success(j.to_value()), limit),
		PurePayload::Err(c, m, d) => {
			MethodResponse::response::<()>(id.to_id(), ResponsePayload::error(ErrorObject::owned(*c, m.clone(), d.as_ref().map(|d| d.to_value()))), limit)
		}
	}
}

impl SubCheck for Pure {
	type Case = PureCase;
	fn name(&self) -> &'static str {
		"pure-layer"
	}
	fn cases(&self, tier: Tier) -> u32 {
		tier.pick(400_000, 8_000_000)
	}
	fn strategy(&self, tier: Tier) -> BoxedStrategy<PureCase> {
		let d = tier.pick(3, 5);
		(proptest::collection::vec((arb_gid(), arb_pure_payload(d)), 1..6), prop_oneof![6 => -2i8..=2, 1 => -20i8..20], proptest::option::of(0u8..6))
			.prop_map(|(entries, delta, align)| PureCase { entries, delta, align })
			.boxed()
	}
	fn run(&self, case: &PureCase, obs: &mut Obs) {
		// serde_json sorts object members of `Value`; the independent text is built from the same normalised value
		let fulls: Vec<String> = case.entries.iter().map(|(id, p)| full_text(id, p)).collect();
		let unlimited_batch = format!("[{}]", fulls.join(","));
		let aligned_len = match case.align {
			Some(i) => fulls[i as usize % fulls.len()].len(),
			None => unlimited_batch.len(),
		};
		let limit = (aligned_len as i64 + case.delta as i64).max(0) as usize;
		if (-2..=2).contains(&case.delta) {
			obs.nontrivial();
		}
		obs.class(if case.align.is_some() { "aligned-to-single" } else { "aligned-to-batch" });
		obs.sample(json!({"limit": limit, "responses": fulls.iter().map(|f| truncate(f, 120)).collect::<Vec<_>>()}));
		let r = std::panic::catch_unwind(|| {
			let mut fails: Vec<(String, String)> = vec![];
			let mut elems = vec![];
			let mut builder = BatchResponseBuilder::new_with_limit(limit);
			let mut batch_err: Option<String> = None;
			for ((id, p), full) in case.entries.iter().zip(&fulls) {
				let rp = lib_response(id, p, limit);
				let got = rp.as_json().get().to_string();
				let want = limited(full, id, limit);
				if got != want {
					let sig = if full.len() <= limit { "c08/fitting-response-changed" } else { "c08/oversized-response-not-replaced" };
					fails.push((sig.into(), format!("limit={limit} full({})={} got={}", full.len(), truncate(full, 300), truncate(&got, 300))));
				}
				if got.len() > limit && got != too_big_text(id, limit) {
					fails.push(("c08/response-above-limit".into(), format!("limit={limit} sent {} bytes: {}", got.len(), truncate(&got, 300))));
				}
				elems.push(want);
				if batch_err.is_none() {
					if let Err(e) = builder.append(rp) {
						batch_err = Some(e.as_json().get().to_string());
					}
				}
			}
			let got_batch = match batch_err {
				Some(e) => e,
				None => MethodResponse::from_batch(builder.finish()).as_json().get().to_string(),
			};
			let want_batch = batch_expected(&elems, limit);
			if got_batch != want_batch {
				let fits = want_batch.starts_with('[');
				fails.push((
					if fits { "c08/fitting-batch-changed".into() } else { "c08/oversized-batch-not-replaced".into() },
					format!("limit={limit} want({})={} got({})={}", want_batch.len(), truncate(&want_batch, 300), got_batch.len(), truncate(&got_batch, 300)),
				));
			}
			fails
		});
		match r {
			Ok(f) => {
				for (s, d) in f {
					obs.fail(s, d);
				}
			}
			Err(p) => obs.fail("c08/panic", panic_msg(&p)),
		}
	}
}

// ---------------------------------------------------------------------------------------------
// through the server
// ---------------------------------------------------------------------------------------------

#[derive(Clone, Debug, Serialize, Deserialize)]
pub struct WireEntry {
	pub id: GId,
	pub kind: u8,
	pub handler: u8,
	/// Some(data length) => a `fail_*` call whose error carries a string of that length
	pub fail: Option<u16>,
	/// (batches only) an entry without a method: answered by the fixed "Invalid request" error, which counts towards
	/// the size of the batch reply like any other entry
	#[serde(default)]
	pub malformed: bool,
}

#[derive(Clone, Debug, Serialize, Deserialize)]
pub struct WireCase {
	pub limit: u32,
	pub delta: i8,
	pub entries: Vec<WireEntry>,
	pub batch: bool,
	pub ws: bool,
	pub lowlevel: bool,
	/// (batches) notifications mixed in between the entries: they are run but add nothing to the reply
	#[serde(default)]
	pub notifs: u8,
	/// instead of the entries: one unsubscribe call over WebSocket whose (string) id is as long as it takes for the
	/// answer `{"jsonrpc":"2.0","id":"...","result":false}` to have the length limit+delta
	#[serde(default)]
	pub unsub_probe: bool,
}

pub struct Wire;

fn unit_len(kind: u8) -> (usize, usize) {
	// (raw chars repeated, escaped byte length per unit)
	match kind % 6 {
		0 => (1, 1),
		1 => (1, 2),
		2 => (1, 2),
		3 => (1, 2),
		4 => (1, 4),
		_ => (1, 2),
	}
}

impl SubCheck for Wire {
	type Case = WireCase;
	fn name(&self) -> &'static str {
		"through-server"
	}
	fn cases(&self, tier: Tier) -> u32 {
		tier.pick(100_000, 2_000_000)
	}
	fn strategy(&self, _tier: Tier) -> BoxedStrategy<WireCase> {
		let entry = (arb_gid(), 0u8..6, 0u8..3, proptest::option::weighted(0.2, 0u16..200), proptest::bool::weighted(0.2)).prop_map(|(id, kind, handler, fail, malformed)| WireEntry { id, kind, handler, fail, malformed });
		(
			prop_oneof![3 => 40u32..400, 2 => 400u32..5_000, 1 => 5_000u32..200_000],
			prop_oneof![6 => -2i8..=2, 1 => -30i8..30],
			proptest::collection::vec(entry, 1..5),
			any::<bool>(),
			any::<bool>(),
			proptest::bool::weighted(0.2),
			prop_oneof![3 => Just(0u8), 1 => 1u8..4, 1 => 4u8..30],
			proptest::bool::weighted(0.08),
		)
			.prop_map(|(limit, delta, entries, batch, ws, lowlevel, notifs, unsub_probe)| WireCase { limit, delta, entries, batch, ws, lowlevel, notifs, unsub_probe })
			.boxed()
	}
	fn run(&self, case: &WireCase, obs: &mut Obs) {
		if case.unsub_probe {
			return unsub_probe(case, obs);
		}
		let limit = case.limit as usize;
		let entries: Vec<WireEntry> = if case.batch { case.entries.clone() } else { vec![case.entries[0].clone()] };
		let n = entries.len();
		let target = (limit as i64 + case.delta as i64).max(0) as usize;
		// malformed entries only in batches, with a limit the fixed error always fits into, and never all of them
		let mut entries = entries;
		let allow_malformed = case.batch && n >= 2 && limit >= 160;
		for (i, e) in entries.iter_mut().enumerate() {
			if !allow_malformed || i == 0 {
				e.malformed = false;
			}
		}
		let invalid_text = |id: &GId| response_text(id, Err((-32600, "Invalid request", None)));
		// the last well-formed entry is sized so that the judged text (single response, or whole batch) has length limit+delta
		let steer = (0..n).rev().find(|i| !entries[*i].malformed).unwrap_or(0);
		let mut requests: Vec<Option<J>> = vec![None; n];
		let mut fulls: Vec<Option<String>> = vec![None; n];
		let fixed: usize = 2 + (n - 1);
		let order: Vec<usize> = (0..n).filter(|i| *i != steer).chain(std::iter::once(steer)).collect();
		for i in order {
			let e = &entries[i];
			if e.malformed {
				fulls[i] = Some(invalid_text(&e.id));
				requests[i] = Some(J::obj(vec![("jsonrpc", J::str("2.0")), ("id", e.id.to_j())]));
				continue;
			}
			let hk = KINDS[e.handler as usize % 3];
			// payload budget for this entry
			let empty_full = match e.fail {
				None => response_text(&e.id, Ok(&J::str(""))),
				Some(_) => response_text(&e.id, Err((-32050, "boom", Some(&J::str(""))))),
			};
			let budget = if case.batch {
				if i != steer {
					((target.saturating_sub(fixed)) / n).saturating_sub(empty_full.len())
				} else {
					let others: usize = (0..n).filter(|j| *j != steer).map(|j| limited(fulls[j].as_ref().unwrap(), &entries[j].id, limit).len()).sum();
					target.saturating_sub(fixed + others + empty_full.len())
				}
			} else {
				target.saturating_sub(empty_full.len())
			};
			match e.fail {
				None => {
					let (_, ub) = unit_len(e.kind);
					let len = budget / ub;
					let prefix = budget - len * ub;
					let s = format!("{}{}", "a".repeat(prefix), big_string(len, e.kind));
					fulls[i] = Some(response_text(&e.id, Ok(&J::str(s))));
					requests[i] = Some(J::obj(vec![
						("jsonrpc", J::str("2.0")),
						("id", e.id.to_j()),
						("method", J::str(format!("big_{hk}"))),
						("params", J::Arr(vec![J::num(len), J::num(e.kind % 6), J::num(prefix)])),
					]));
				}
				Some(_) => {
					let data = "d".repeat(budget);
					fulls[i] = Some(response_text(&e.id, Err((-32050, "boom", Some(&J::str(data.clone()))))));
					requests[i] = Some(J::obj(vec![
						("jsonrpc", J::str("2.0")),
						("id", e.id.to_j()),
						("method", J::str(format!("fail_{hk}"))),
						("params", J::Arr(vec![J::num(-32050), J::str("boom"), J::str(data)])),
					]));
				}
			}
		}
		let requests: Vec<J> = requests.into_iter().map(|r| r.unwrap()).collect();
		let fulls: Vec<String> = fulls.into_iter().map(|f| f.unwrap()).collect();
		if entries.iter().any(|e| e.malformed) {
			obs.class("batch-with-malformed-entry");
			if entries[n - 1].malformed {
				obs.class("batch-malformed-entry-last");
			}
		}
		let elems: Vec<String> = fulls.iter().zip(&entries).map(|(f, e)| limited(f, &e.id, limit)).collect();
		let want = if case.batch { batch_expected(&elems, limit) } else { elems[0].clone() };
		let judged_len = if case.batch { 2 + elems.iter().map(|e| e.len()).sum::<usize>() + n - 1 } else { fulls[0].len() };
		if judged_len.abs_diff(limit) <= 2 {
			obs.nontrivial();
			obs.class("boundary");
		}
		if case.batch && n >= 2 {
			obs.class("batch");
			// an interior entry alone exceeds the limit
			if fulls[..n - 1].iter().any(|f| f.len() > limit) {
				obs.class("batch-interior-entry-too-big");
			}
		}
		obs.class(if want.contains("-32008") || want.contains("-32011") { "replaced-by-too-big-error" } else { "sent-unchanged" });
		let mut requests = requests;
		if case.batch && case.notifs > 0 {
			for k in 0..case.notifs as usize {
				let at = (k * 7 + 3) % (requests.len() + 1);
				requests.insert(at, J::obj(vec![("jsonrpc", J::str("2.0")), ("method", J::str("echo_sync")), ("params", J::Arr(vec![J::num(k)]))]));
			}
			obs.class("batch-with-notifications");
		}
		let msg = if case.batch { J::Arr(requests.clone()).compact() } else { requests[0].compact() };
		obs.sample(json!({"limit": limit, "request": truncate(&msg, 300), "judged_len": judged_len}));
		let rt = rt();
		rt.block_on(async {
			let fix = Fixture::new(Cfg { max_response: case.limit, ..Cfg::default() });
			let got: Option<Vec<u8>> = if case.ws {
				let ws = if case.lowlevel { fix.ws_lowlevel().await } else { fix.ws().await };
				let Ok(mut ws) = ws else {
					obs.fail("c08/ws-handshake", "failed");
					return;
				};
				let _ = ws.send_text(&msg).await;
				settle().await;
				let frames = ws.drain();
				if frames.len() != 1 {
					obs.fail("c08/ws-frame-count", format!("limit={limit} request={} => {} frames", truncate(&msg, 300), frames.len()));
					return;
				}
				match &frames[0] {
					WsEvent::Text(t) => Some(t.clone().into_bytes()),
					other => {
						obs.fail("c08/ws-unexpected-event", format!("{other:?}"));
						None
					}
				}
			} else {
				let r = if case.lowlevel { fix.http_lowlevel(HttpReq::post_json(msg.as_bytes())).await } else { fix.http_post(msg.as_bytes()).await };
				settle().await;
				obs.check(r.status == 200, "c08/http-status", || format!("{}", r.status));
				Some(r.body)
			};
			let Some(got) = got else { return };
			let got_s = String::from_utf8_lossy(&got).to_string();
			if got_s != want {
				let fits = !(want.contains("\"code\":-32008") && !case.batch) && !want.contains("\"code\":-32011");
				// the reply as a JSON value (member order is not part of the property)
				let same_value = serde_json::from_str::<Value>(&got_s).ok() == serde_json::from_str::<Value>(&want).ok();
				if !same_value || got_s.len() != want.len() {
					obs.fail(
						if fits { "c08/fitting-reply-changed" } else { "c08/oversized-reply-not-replaced" },
						format!("limit={limit} judged_len={judged_len} request={} want({})={} got({})={}", truncate(&msg, 300), want.len(), truncate(&want, 300), got_s.len(), truncate(&got_s, 300)),
					);
				}
			}
			let exempt = got_s.contains("\"code\":-32008") || got_s.contains("\"code\":-32011");
			if got.len() > limit && !exempt {
				obs.fail("c08/reply-above-limit", format!("limit={limit} sent {} bytes: {}", got.len(), truncate(&got_s, 300)));
			}
		});
	}
}

/// The answer of an unsubscribe call is a response like any other: the limit applies to it.
fn unsub_probe(case: &WireCase, obs: &mut Obs) {
	let limit = case.limit as usize;
	let target = (limit as i64 + case.delta as i64).max(45) as usize;
	let base = r#"{"jsonrpc":"2.0","id":"","result":false}"#.len();
	let id = "i".repeat(target.saturating_sub(base));
	let full = format!(r#"{{"jsonrpc":"2.0","id":"{id}","result":false}}"#);
	let want = if full.len() <= limit { full.clone() } else { format!(r#"{{"jsonrpc":"2.0","id":"{id}","error":{{"code":-32008,"message":"Response is too big","data":"Exceeded max limit of {limit}"}}}}"#) };
	obs.class("unsubscribe-answer");
	if full.len().abs_diff(limit) <= 2 {
		obs.nontrivial();
		obs.class("boundary");
	}
	let rt = rt();
	rt.block_on(async {
		let fix = Fixture::new(Cfg { max_response: case.limit, ..Cfg::default() });
		let ws = if case.lowlevel { fix.ws_lowlevel().await } else { fix.ws().await };
		let Ok(mut ws) = ws else {
			obs.fail("c08/ws-handshake", "failed");
			return;
		};
		let msg = format!(r#"{{"jsonrpc":"2.0","id":"{id}","method":"unsub_a","params":[1]}}"#);
		let _ = ws.send_text(&msg).await;
		settle().await;
		let frames = ws.drain_texts();
		if frames.len() != 1 {
			obs.fail("c08/ws-frame-count", format!("limit={limit} unsubscribe with an id of {} characters => {} frames", id.len(), frames.len()));
			return;
		}
		let got = &frames[0];
		let same = serde_json::from_str::<Value>(got).ok() == serde_json::from_str::<Value>(&want).ok() && got.len() == want.len();
		if !same {
			obs.fail(
				if full.len() <= limit { "c08/fitting-reply-changed" } else { "c08/oversized-reply-not-replaced" },
				format!("limit={limit}: the answer of an unsubscribe call would be {} bytes; want({})={} got({})={}", full.len(), want.len(), truncate(&want, 200), got.len(), truncate(got, 200)),
			);
		}
	});
}

pub fn check(ctx: &mut Ctx) {
	ctx.rule = "pure layer: MethodResponse::response + BatchResponseBuilder on generated ids/payloads with the limit placed at (exact independent text length) + delta, delta in -2..2 (and far); \
		through the server: big_*/fail_* calls whose exact serialised response length is computed by an independent renderer (id width, escaped bytes for quotes/newlines/backslashes, 2- and 4-byte UTF-8) and placed at limit-2..limit+2, \
		single and in batches of 2..4 whose total straddles the limit, over HTTP and WS, TowerService and low-level entry points. Oracle: byte-exact expected reply (the response itself, -32008 with the call's id, or -32011/id null). \
		Non-trivial = |judged length - limit| <= 2; distinct by case value."
		.into();
	ctx.assumptions = vec![
		"library-generated errors for unknown methods / invalid requests are not judged against tiny limits (the property exempts the fixed small errors)".into(),
		"serde_json::Value normalises object member order; the independent text is rendered from the same normalised value".into(),
	];
	ctx.run_sub(&Pure);
	ctx.run_sub(&Wire);
}

pub fn replay(file: &serde_json::Value) -> Option<i32> {
	replay_with(&Pure, file, "C08").or_else(|| replay_with(&Wire, file, "C08"))
}
