//! C01 — every message gets at most one well-formed reply carrying its own id (HTTP and WebSocket).

use crate::engine::*;
use crate::fix::server::*;
use crate::json::*;
use crate::oracle::*;
use crate::props::c15::{GId, arb_gid};
use proptest::prelude::*;
use serde::{Deserialize, Serialize};
use serde_json::{Value, json};

// ---------------------------------------------------------------------------------------------
// message generators
// ---------------------------------------------------------------------------------------------

#[derive(Clone, Debug, Serialize, Deserialize, PartialEq)]
pub enum IdSpec {
	In(GId),
	/// raw JSON text of an out-of-domain id
	Out(String),
	Absent,
}

#[derive(Clone, Debug, Serialize, Deserialize, PartialEq)]
pub enum ParamsSel {
	Absent,
	Any(J),
	Typed(u64, String),
	Fail(i32, String, Option<J>),
	Big(u16, u8),
}

#[derive(Clone, Debug, Serialize, Deserialize, PartialEq)]
pub enum Mutn {
	None,
	DropMember(u8),
	Version(u8),
	NonStringMethod(u8),
	TruncateAt(u16),
	Append(u8),
	BreakEscape,
	RawControl,
	TrailingComma,
	BareScalar(u8),
	/// byte edits: (position selector, op, value)
	Edits(Vec<(u16, u8, u8)>),
}

#[derive(Clone, Debug, Serialize, Deserialize, PartialEq)]
pub struct Built {
	pub id: IdSpec,
	pub method: String,
	pub params: ParamsSel,
	pub extra: Vec<(String, J)>,
	pub order: Vec<u16>,
	pub lead: u8,
	pub tape: Vec<u8>,
	pub mutn: Mutn,
}

#[derive(Clone, Debug, Serialize, Deserialize, PartialEq)]
pub enum Msg {
	Built(Built),
	Tokens(Vec<u8>),
	Bytes(Vec<u8>),
	/// token-level edits (position, op, token) of the canonical request token sequence
	TokenEdits(Vec<(u16, u8, u8)>),
	/// sequence of whole members (indices into MEMBERS), joined into one object
	Members(Vec<u8>),
}

/// `{"jsonrpc":"2.0","id":1,"method":"echo_sync","params":[null]}` as indices into TOKENS
pub const CANON: [u8; 19] = [0, 6, 4, 7, 5, 8, 4, 9, 5, 10, 4, 11, 5, 12, 4, 2, 13, 3, 1];

pub const MEMBERS: [&str; 16] = [
	r#""jsonrpc":"2.0""#,
	r#""jsonrpc":"1.0""#,
	r#""jsonrpc":null"#,
	r#""id":1"#,
	r#""id":null"#,
	r#""id":"s""#,
	r#""id":-1"#,
	r#""id":[7]"#,
	r#""method":"echo_sync""#,
	r#""method":"typed_async""#,
	r#""method":"nope""#,
	r#""method":1"#,
	r#""params":[1,"x"]"#,
	r#""params":null"#,
	r#""params":{"a":1}"#,
	r#""x":{"id":9}"#,
];

pub const TOKENS: [&str; 14] = ["{", "}", "[", "]", ":", ",", "\"jsonrpc\"", "\"2.0\"", "\"id\"", "1", "\"method\"", "\"echo_sync\"", "\"params\"", "null"];

pub const OUT_IDS: [&str; 12] = ["-1", "1.5", "1e2", "18446744073709551616", "true", "false", "[]", "{}", "[1]", "{\"a\":1}", "-0", "1.0"];

pub fn method_names() -> Vec<&'static str> {
	vec![
		"echo_sync", "echo_async", "echo_blocking", "typed_sync", "typed_async", "typed_blocking", "fail_sync", "fail_async", "fail_blocking",
		"big_sync", "big_async", "big_blocking", "blocking_panic", "unser_sync", "unser_async", "unser_blocking", "ext_sync", "ext_async", "ext_blocking",
	]
}

pub fn arb_method() -> BoxedStrategy<String> {
	prop_oneof![
		8 => proptest::sample::select(method_names()).prop_map(|s| s.to_string()),
		1 => arb_string(8),
		1 => proptest::sample::select(vec!["", "echo", "echo_sync ", "Echo_sync", "rpc.discover", "é", "echo_sync\u{0}", "unsub_a", "unsub_b", "unsub_r"]).prop_map(|s| s.to_string()),
	]
	.boxed()
}

pub fn arb_params(d: u32) -> BoxedStrategy<ParamsSel> {
	prop_oneof![
		1 => Just(ParamsSel::Absent),
		5 => arb_json(d).prop_map(ParamsSel::Any),
		2 => (crate::props::c15::arb_u64_boundary(), arb_string(8)).prop_map(|(n, s)| ParamsSel::Typed(n, s)),
		2 => (crate::props::c15::arb_code(), arb_string(8), proptest::option::of(arb_json(2))).prop_map(|(c, m, d)| ParamsSel::Fail(c, m, d)),
		1 => (0u16..300, 0u8..6).prop_map(|(l, k)| ParamsSel::Big(l, k)),
		// params a full `serde_json::Value` parse refuses although they are JSON: nested deeper than its recursion limit,
		// a number beyond the range of a double. The message is a call all the same (its params are not looked into
		// before dispatch) and the handler answers -32602
		1 => (130usize..260, any::<bool>()).prop_map(|(depth, obj)| {
			let mut j = J::Arr(vec![]);
			for k in 0..depth {
				j = if obj && k % 2 == 1 { J::Obj(vec![("k".to_string(), j)]) } else { J::Arr(vec![j]) };
			}
			ParamsSel::Any(if matches!(j, J::Obj(_)) { j } else { J::Arr(vec![j]) })
		}),
		1 => proptest::sample::select(vec!["1e999", "-1e999", "1e400", "123456789e9999"]).prop_map(|t| ParamsSel::Any(J::Arr(vec![J::Num(t.to_string())]))),
	]
	.boxed()
}

pub fn arb_idspec() -> BoxedStrategy<IdSpec> {
	prop_oneof![
		8 => arb_gid().prop_map(IdSpec::In),
		1 => proptest::sample::select(OUT_IDS.to_vec()).prop_map(|s| IdSpec::Out(s.to_string())),
		1 => Just(IdSpec::Absent),
	]
	.boxed()
}

pub fn arb_mutn() -> BoxedStrategy<Mutn> {
	prop_oneof![
		10 => Just(Mutn::None),
		1 => any::<u8>().prop_map(Mutn::DropMember),
		1 => any::<u8>().prop_map(Mutn::Version),
		1 => any::<u8>().prop_map(Mutn::NonStringMethod),
		1 => any::<u16>().prop_map(Mutn::TruncateAt),
		1 => any::<u8>().prop_map(Mutn::Append),
		1 => Just(Mutn::BreakEscape),
		1 => Just(Mutn::RawControl),
		1 => Just(Mutn::TrailingComma),
		1 => any::<u8>().prop_map(Mutn::BareScalar),
		2 => proptest::collection::vec(any::<(u16, u8, u8)>(), 1..4).prop_map(Mutn::Edits),
	]
	.boxed()
}

pub fn arb_built(d: u32) -> BoxedStrategy<Built> {
	(
		arb_idspec(),
		arb_method(),
		arb_params(d),
		proptest::collection::vec((arb_key().prop_filter("not a request member", |k| !["jsonrpc", "id", "method", "params"].contains(&k.as_str())), arb_json(1)), 0..2),
		proptest::collection::vec(any::<u16>(), 6),
		prop_oneof![6 => Just(0u8), 2 => 0u8..8, 1 => 120u8..=127, 1 => 128u8..140],
		arb_tape(),
		arb_mutn(),
	)
		.prop_map(|(id, method, params, extra, order, lead, tape, mutn)| Built { id, method, params, extra, order, lead, tape, mutn })
		.boxed()
}

pub fn params_j(p: &ParamsSel) -> Option<J> {
	match p {
		ParamsSel::Absent => None,
		ParamsSel::Any(j) => Some(j.clone()),
		ParamsSel::Typed(n, s) => Some(J::Arr(vec![J::num(n), J::str(s.clone())])),
		ParamsSel::Fail(c, m, d) => {
			let mut a = vec![J::num(c), J::str(m.clone())];
			if let Some(d) = d {
				a.push(d.clone());
			}
			Some(J::Arr(a))
		}
		ParamsSel::Big(l, k) => Some(J::Arr(vec![J::num(l), J::num(k)])),
	}
}

pub fn built_members(b: &Built) -> Vec<(String, J)> {
	let mut m: Vec<(String, J)> = vec![("jsonrpc".into(), J::str("2.0"))];
	match &b.id {
		IdSpec::In(g) => m.push(("id".into(), g.to_j())),
		IdSpec::Out(t) => m.push(("id".into(), parse_strict(t.as_bytes()).expect("out id text"))),
		IdSpec::Absent => {}
	}
	m.push(("method".into(), J::str(b.method.clone())));
	if let Some(p) = params_j(&b.params) {
		m.push(("params".into(), p));
	}
	let mut seen: std::collections::HashSet<String> = m.iter().map(|(k, _)| k.clone()).collect();
	for (k, v) in &b.extra {
		if seen.insert(k.clone()) {
			m.push((k.clone(), v.clone()));
		}
	}
	m
}

pub fn render_built(b: &Built) -> Vec<u8> {
	let mut m = built_members(b);
	// structural mutations
	match &b.mutn {
		Mutn::DropMember(i) => {
			let idx = (*i as usize) % m.len();
			m.remove(idx);
		}
		Mutn::Version(i) => {
			let v = match i % 5 {
				0 => J::str("1.0"),
				1 => J::num("2.0"),
				2 => J::Null,
				3 => J::str("2"),
				_ => J::str("2.00"),
			};
			m[0].1 = v;
		}
		Mutn::NonStringMethod(i) => {
			let v = match i % 4 {
				0 => J::num(1),
				1 => J::Null,
				2 => J::Arr(vec![J::str("echo_sync")]),
				_ => J::Bool(true),
			};
			for e in m.iter_mut() {
				if e.0 == "method" {
					e.1 = v.clone();
				}
			}
		}
		_ => {}
	}
	// member order
	for i in (1..m.len()).rev() {
		let j = pick_idx(b.order[i % b.order.len()], i + 1);
		m.swap(i, j);
	}
	let text = J::Obj(m).styled(&mut Style::new(b.tape.clone()));
	let mut bytes: Vec<u8> = vec![];
	let blanks = [b' ', b'\n', b'\t', b'\r'];
	for i in 0..b.lead as usize {
		bytes.push(blanks[(i + b.lead as usize) % 4]);
	}
	bytes.extend_from_slice(text.as_bytes());
	// textual mutations
	match &b.mutn {
		Mutn::TruncateAt(p) => {
			let body_len = text.len();
			let cut = b.lead as usize + pick_idx(*p, body_len.max(1));
			bytes.truncate(cut);
		}
		Mutn::Append(i) => {
			let tail: &[u8] = match i % 5 {
				0 => b"{}",
				1 => b" x",
				2 => b",",
				3 => b"null",
				_ => b"}",
			};
			bytes.extend_from_slice(tail);
		}
		Mutn::BreakEscape => {
			// turn the first closing quote of "jsonrpc" into a bad escape
			if let Some(p) = find(&bytes, b"\"2.0\"") {
				bytes.splice(p + 1..p + 1, b"\\x".iter().copied());
			}
		}
		Mutn::RawControl => {
			if let Some(p) = find(&bytes, b"\"2.0\"") {
				bytes.insert(p + 1, 0x01);
			}
		}
		Mutn::TrailingComma => {
			if let Some(p) = bytes.iter().rposition(|c| *c == b'}') {
				bytes.insert(p, b',');
			}
		}
		Mutn::BareScalar(i) => {
			let s: &[u8] = match i % 6 {
				0 => b"1",
				1 => b"\"echo_sync\"",
				2 => b"null",
				3 => b"true",
				4 => b"-",
				_ => b"",
			};
			bytes.truncate(b.lead as usize);
			bytes.extend_from_slice(s);
		}
		Mutn::Edits(ed) => {
			for (pos, op, val) in ed {
				if bytes.is_empty() {
					break;
				}
				let p = pick_idx(*pos, bytes.len());
				match op % 3 {
					0 => bytes[p] = *val,
					1 => bytes.insert(p, *val),
					_ => {
						bytes.remove(p);
					}
				}
			}
		}
		_ => {}
	}
	bytes
}

fn find(h: &[u8], n: &[u8]) -> Option<usize> {
	h.windows(n.len()).position(|w| w == n)
}

pub fn render_msg(m: &Msg) -> Vec<u8> {
	match m {
		Msg::Built(b) => render_built(b),
		Msg::Tokens(t) => t.iter().map(|i| TOKENS[*i as usize % TOKENS.len()]).collect::<Vec<_>>().concat().into_bytes(),
		Msg::Bytes(b) => b.clone(),
		Msg::TokenEdits(ed) => {
			let mut t: Vec<u8> = CANON.to_vec();
			for (pos, op, tok) in ed {
				let tok = tok % 14;
				if t.is_empty() {
					t.push(tok);
					continue;
				}
				let p = pick_idx(*pos, t.len());
				match op % 4 {
					0 => t[p] = tok,
					1 => t.insert(p, tok),
					2 => {
						t.remove(p);
					}
					_ => {
						let q = (p + 1) % t.len();
						t.swap(p, q);
					}
				}
			}
			t.iter().map(|i| TOKENS[*i as usize]).collect::<Vec<_>>().concat().into_bytes()
		}
		Msg::Members(m) => {
			let parts: Vec<&str> = m.iter().map(|i| MEMBERS[*i as usize % MEMBERS.len()]).collect();
			format!("{{{}}}", parts.join(",")).into_bytes()
		}
	}
}

pub fn arb_msg(d: u32) -> BoxedStrategy<Msg> {
	prop_oneof![
		12 => arb_built(d).prop_map(Msg::Built),
		2 => proptest::collection::vec(0u8..14, 0..14).prop_map(Msg::Tokens),
		3 => proptest::collection::vec(any::<(u16, u8, u8)>(), 0..4).prop_map(Msg::TokenEdits),
		2 => proptest::collection::vec(0u8..16, 0..7).prop_map(Msg::Members),
		1 => proptest::collection::vec(any::<u8>(), 0..40).prop_map(Msg::Bytes),
		1 => proptest::collection::vec(proptest::sample::select(b"{}[]:,\"\\ 0123456789.eE+-ntfalsrueidjonpcmh\n\x0c".to_vec()), 0..40).prop_map(Msg::Bytes),
	]
	.boxed()
}

// ---------------------------------------------------------------------------------------------
// the oracle for one message on both transports
// ---------------------------------------------------------------------------------------------

pub struct Session {
	pub fix: Fixture,
	pub ws: WsPeer,
	pub sentinel: u64,
	/// Some(c): WebSocket messages of this session go out as two frames, cut at a place chosen by c
	pub frag: Option<u16>,
}

impl Session {
	pub async fn new(cfg: Cfg) -> Session {
		let fix = Fixture::new(cfg);
		let ws = fix.ws_e().await.expect("ws handshake");
		Session { fix, ws, sentinel: 0, frag: None }
	}
}

fn id_value(j: &J) -> Value {
	j.to_value()
}

fn is_err_reply(v: &Value, codes: &[i64], id: &Value) -> Result<(), String> {
	let code = v.get("error").and_then(|e| e.get("code")).and_then(|c| c.as_i64());
	if !code.is_some_and(|c| codes.contains(&c)) {
		return Err(format!("expected error code in {codes:?}"));
	}
	if v.get("id") != Some(id) {
		return Err(format!("expected id {id}"));
	}
	Ok(())
}

/// Sends `bytes` as one message over HTTP and over the session's WebSocket connection and checks
/// everything C01 states. Returns the class label.
pub async fn check_message(s: &mut Session, bytes: &[u8], prefer_text: bool, obs: &mut Obs) -> String {
	let class = classify_message(bytes);
	let shown = || truncate(&String::from_utf8_lossy(bytes), 400);
	let label = match &class {
		Class::NotJson => "not-json".to_string(),
		Class::Batch => "batch".to_string(),
		Class::Call { method, .. } => format!("call:{}", if is_registered_call(method) { method.as_str() } else { "<unknown>" }),
		Class::Notification => "notification".to_string(),
		Class::InvalidWithId(_) => "invalid-with-id".to_string(),
		Class::InvalidNoId => "invalid-no-id".to_string(),
		Class::Outside(w) => format!("outside:{w}"),
	};
	// blanks beyond the documented window are outside the property
	let first = bytes.iter().position(|b| !b.is_ascii_whitespace());
	let beyond_window = matches!(first, Some(p) if p >= 128);

	// ---- HTTP
	let log0 = s.fix.ctx.log_len();
	let http = s.fix.http_post_e(bytes).await;
	settle().await;
	let http_log = s.fix.ctx.log_since(log0);
	// ---- the same POST to a path that a `ProxyGetRequestLayer` in front maps (for GET requests) to some method: the
	// path of a POST is of no concern, the answer is the same
	if s.fix.cfg.via_set_http_middleware {
		let via = s.fix.http_post_via_proxy("/health", bytes).await;
		settle().await;
		obs.class("http-post-to-a-proxied-path");
		obs.check(via.status == http.status && via.body == http.body, "c01/post-to-proxied-path-answered-differently", || {
			format!("{} => {} {:?} when POSTed to /health behind ProxyGetRequestLayer, {} {:?} otherwise", shown(), via.status, String::from_utf8_lossy(&via.body), http.status, String::from_utf8_lossy(&http.body))
		});
	}
	// ---- WS
	let log1 = s.fix.ctx.log_len();
	let sent = match s.frag {
		Some(c) if bytes.len() >= 2 => {
			let text = prefer_text && std::str::from_utf8(bytes).is_ok();
			let mut cut = 1 + pick_idx(c, bytes.len() - 1);
			if text {
				// (a text message is cut between characters)
				let st = std::str::from_utf8(bytes).unwrap();
				while cut > 0 && !st.is_char_boundary(cut) {
					cut -= 1;
				}
			}
			if cut == 0 { s.ws.send_bytes(bytes, prefer_text).await } else { s.ws.send_fragmented(bytes, text, &[cut]).await }
		}
		_ => s.ws.send_bytes(bytes, prefer_text).await,
	};
	if let Err(e) = sent {
		obs.fail("c01/ws-send-failed", format!("{e}: {}", shown()));
		return label;
	}
	settle().await;
	let frames = s.ws.drain();
	let ws_log = s.fix.ctx.log_since(log1);
	// ---- sentinel: the connection keeps serving
	s.sentinel += 1;
	let n = s.sentinel;
	let sent = format!(r#"{{"jsonrpc":"2.0","id":"sentinel-{n}","method":"echo_sync","params":[{n}]}}"#);
	let _ = s.ws.send_text(&sent).await;
	settle().await;
	let after = s.ws.drain();
	let want_sentinel = json!({"jsonrpc":"2.0","id":format!("sentinel-{n}"),"result":[n]});
	let sentinel_ok = after.len() == 1 && matches!(&after[0], WsEvent::Text(t) if serde_json::from_str::<Value>(t).ok() == Some(want_sentinel.clone()));
	obs.check(sentinel_ok, "c01/connection-not-serving-after-message", || format!("after {}: {after:?}", shown()));

	if beyond_window {
		return "outside:beyond-window".into();
	}

	// ---- universal invariants
	if !obs.check(frames.len() <= 1, "c01/more-than-one-ws-reply", || format!("{} => {frames:?}", shown())) {
		return label;
	}
	let ws_reply: Option<Value> = match frames.first() {
		None => None,
		Some(WsEvent::Text(t)) => match serde_json::from_str::<Value>(t) {
			Ok(v) => Some(v),
			Err(_) => {
				obs.fail("c01/ws-reply-not-json", format!("{} => {t}", shown()));
				return label;
			}
		},
		Some(other) => {
			obs.fail("c01/ws-unexpected-event", format!("{} => {other:?}", shown()));
			return label;
		}
	};
	let http_reply: Option<Value> = if http.body.is_empty() || http.body == b"null" {
		None
	} else {
		match serde_json::from_slice::<Value>(&http.body) {
			Ok(v) => Some(v),
			Err(_) => {
				obs.fail("c01/http-body-not-json", format!("{} => status {} body {}", shown(), http.status, String::from_utf8_lossy(&http.body)));
				return label;
			}
		}
	};
	let status_ok = match (&class, &http_reply) {
		(_, None) => http.status == 200,
		(Class::NotJson, Some(_)) | (Class::Outside(_), Some(_)) => http.status == 200 || http.status == 400,
		(_, Some(_)) => http.status == 200,
	};
	obs.check(status_ok, "c01/http-status", || format!("{} => status {} body {}", shown(), http.status, String::from_utf8_lossy(&http.body)));
	// (a message the server takes for a batch - also one outside the judged domain, e.g. a form feed in front of `[` -
	// is answered by an array; arrays are C02's business)
	let is_batch = class == Class::Batch || (matches!(class, Class::Outside(_)) && bytes.iter().find(|b| !b.is_ascii_whitespace()) == Some(&b'['));
	for (which, r) in [("ws", &ws_reply), ("http", &http_reply)] {
		if let Some(v) = r {
			if !is_batch || !v.is_array() {
				if let Some(p) = reply_shape_problem(v) {
					obs.fail(format!("c01/{which}-reply-malformed"), format!("{p}: {} => {v}", shown()));
				}
			}
		}
	}
	// (whatever the class: a message that names a subscribe / unsubscribe method is served by the WebSocket transport only)
	// (found with a forgiving reading: invalid UTF-8 replaced, blanks of any ASCII kind in front dropped; as a last
	// resort the plain text of the names)
	let lossy = String::from_utf8_lossy(bytes).to_string();
	let names_subscription = match parse_strict(lossy.trim_start_matches(|c: char| c.is_ascii_whitespace() || c == '\u{b}').as_bytes()) {
		Ok(j) => matches!(j.get("method"), Some(J::Str(m)) if matches!(expected_payload(m, None), Payload::Bound)),
		Err(_) => ["unsub_a", "unsub_b", "unsub_r", "\"sub_a\"", "\"sub_b\"", "\"sub_r\""].iter().any(|n| lossy.contains(n)),
	};
	let skip_equivalence = names_subscription
		|| matches!(&class, Class::Call { method, .. } if matches!(expected_payload(method, None), Payload::Skip | Payload::Bound))
		|| (is_batch && (find(bytes, b"sub_").is_some() || find(bytes, b"gated_").is_some()));
	if !skip_equivalence {
		obs.check(ws_reply == http_reply, "c01/http-and-ws-disagree", || format!("{} => ws {ws_reply:?} http {http_reply:?}", shown()));
	}

	// ---- exact expectations by class
	let both = [("ws", &ws_reply, &ws_log), ("http", &http_reply, &http_log)];
	match &class {
		Class::Outside(_) | Class::Batch => {}
		Class::NotJson => {
			for (which, r, log) in both {
				match r {
					Some(v) => {
						if let Err(e) = is_err_reply(v, &[-32700], &Value::Null) {
							obs.fail(format!("c01/{which}-not-json-answer"), format!("{e}: {} => {v}", shown()));
						}
					}
					None => obs.fail(format!("c01/{which}-not-json-unanswered"), shown()),
				}
				obs.check(log.is_empty(), "c01/handler-ran-for-non-call", || format!("{} => {log:?}", shown()));
			}
		}
		Class::Notification => {
			for (which, r, log) in both {
				obs.check(r.is_none(), &format!("c01/{which}-notification-answered"), || format!("{} => {r:?}", shown()));
				obs.check(log.is_empty(), "c01/handler-ran-for-non-call", || format!("{} => {log:?}", shown()));
			}
		}
		Class::InvalidWithId(id) => {
			for (which, r, log) in both {
				match r {
					Some(v) => {
						if let Err(e) = is_err_reply(v, &[-32600, -32700], &id_value(id)) {
							obs.fail(format!("c01/{which}-invalid-request-answer"), format!("{e}: {} => {v}", shown()));
						}
					}
					None => obs.fail(format!("c01/{which}-invalid-request-unanswered"), shown()),
				}
				obs.check(log.is_empty(), "c01/handler-ran-for-non-call", || format!("{} => {log:?}", shown()));
			}
		}
		Class::InvalidNoId => {
			for (which, r, log) in both {
				match r {
					Some(v) => {
						if let Err(e) = is_err_reply(v, &[-32600, -32700], &Value::Null) {
							obs.fail(format!("c01/{which}-invalid-request-answer"), format!("{e}: {} => {v}", shown()));
						}
					}
					None => obs.fail(format!("c01/{which}-invalid-request-unanswered"), shown()),
				}
				obs.check(log.is_empty(), "c01/handler-ran-for-non-call", || format!("{} => {log:?}", shown()));
			}
		}
		Class::Call { id, method, params } => {
			let want = expected_payload(method, params.as_ref());
			if want == Payload::Bound {
				// a registered subscription name: over HTTP it cannot be served, over WebSocket a subscription starts -
				// either way the name is bound and the answer is not "method not found"
				for (which, r, _) in both {
					if let Some(v) = r {
						if let Err(e) = payload_matches(v, &want) {
							obs.fail(format!("c01/{which}-bound-name-answered-method-not-found"), format!("{} => {v}: {e}", shown()));
						}
					}
				}
			} else if want != Payload::Skip {
				for (which, r, log) in both {
					match r {
						None => obs.fail(format!("c01/{which}-call-unanswered"), shown()),
						Some(v) => {
							if v.get("id") != Some(&id_value(id)) {
								let sig = if method == "blocking_panic" { "c01/blocking-panic-null-id".to_string() } else { format!("c01/{which}-wrong-id") };
								obs.fail(sig, format!("{} => {v}", shown()));
							}
							if let Err(e) = payload_matches(v, &want) {
								obs.fail(format!("c01/{which}-wrong-payload"), format!("{e}: {} => {}", shown(), truncate(&v.to_string(), 400)));
							}
						}
					}
					// the handler ran exactly once, for exactly those params, iff the name is registered
					if is_registered_call(method) {
						// `"params":null` and absent params are the same thing to a handler (C16: absent behaves as null)
						let seen = log.first().and_then(|l| l.params.as_ref()).map(|p| parse_strict(p.as_bytes()).map(|j| j.to_value()).ok());
						let seen = if seen == Some(Some(Value::Null)) { None } else { seen };
						let sent = params.as_ref().map(|p| Some(p.to_value()));
						let sent = if sent == Some(Some(Value::Null)) { None } else { sent };
						let ok = log.len() == 1 && log[0].name == *method && seen == sent;
						obs.check(ok, "c01/handler-invocation-mismatch", || format!("{which}: {} => log {log:?}", shown()));
					} else {
						obs.check(log.is_empty(), "c01/handler-ran-for-unknown-method", || format!("{} => {log:?}", shown()));
					}
				}
			}
		}
	}
	label
}

// ---------------------------------------------------------------------------------------------
// sub-checks
// ---------------------------------------------------------------------------------------------

#[derive(Clone, Debug, Serialize, Deserialize)]
pub struct MsgsCase {
	pub msgs: Vec<Msg>,
	pub binary: bool,
	/// 0 = TowerService, 1 = low-level entry points, 2 = TowerService built through set_http_middleware
	#[serde(default)]
	pub entry: u8,
	/// the WebSocket copies of the messages are sent as two frames each
	#[serde(default)]
	pub frag: Option<u16>,
}

pub struct Messages;

pub fn run_bytes_session(list: &[Vec<u8>], binary: bool, obs: &mut Obs) {
	run_bytes_session_on(list, binary, 0, obs)
}

pub fn run_bytes_session_on(list: &[Vec<u8>], binary: bool, entry: u8, obs: &mut Obs) {
	run_bytes_session_frag(list, binary, entry, None, obs)
}

pub fn run_bytes_session_frag(list: &[Vec<u8>], binary: bool, entry: u8, frag: Option<u16>, obs: &mut Obs) {
	let rt = rt();
	rt.block_on(async {
		let mut s = Session::new(Cfg { entry: if entry == 1 { 1 } else { 0 }, via_set_http_middleware: entry == 2, ..Cfg::default() }).await;
		s.frag = frag;
		if frag.is_some() {
			obs.class("ws-messages-in-two-frames");
		}
		obs.class(match entry {
			1 => "entry:low-level",
			2 => "entry:set_http_middleware",
			_ => "entry:tower-service",
		});
		for bytes in list {
			let label = check_message(&mut s, bytes, !binary, obs).await;
			let first = bytes.iter().take(128).find(|b| !b.is_ascii_whitespace());
			if first == Some(&b'{') {
				obs.nontrivial();
				obs.nontrivial_keys.push(hash_of(bytes));
			}
			obs.class(label);
		}
		s.fix.ctx.gates.release_all();
		settle().await;
	});
	obs.weight = list.len() as u64 * 2;
}

impl SubCheck for Messages {
	type Case = MsgsCase;
	fn name(&self) -> &'static str {
		"messages"
	}
	fn cases(&self, tier: Tier) -> u32 {
		tier.pick(100_000, 2_000_000)
	}
	fn strategy(&self, tier: Tier) -> BoxedStrategy<MsgsCase> {
		let d = tier.pick(3, 6);
		(proptest::collection::vec(arb_msg(d), 1..6), any::<bool>(), prop_oneof![6 => Just(0u8), 3 => Just(1u8), 1 => Just(2u8)], proptest::option::weighted(0.2, any::<u16>())).prop_map(|(msgs, binary, entry, frag)| MsgsCase { msgs, binary, entry, frag }).boxed()
	}
	fn run(&self, case: &MsgsCase, obs: &mut Obs) {
		let list: Vec<Vec<u8>> = case.msgs.iter().map(render_msg).collect();
		for m in &case.msgs {
			if let Msg::Built(b) = m {
				obs.class(format!("mutation:{}", format!("{:?}", b.mutn).split('(').next().unwrap_or("")));
				if let IdSpec::In(g) = &b.id {
					obs.class(match g {
						GId::Null => "id:null",
						GId::Num(_) => "id:number",
						GId::Str(_) => "id:string",
					});
				}
			}
		}
		obs.sample(json!({"messages": list.iter().map(|b| String::from_utf8_lossy(b).to_string()).collect::<Vec<_>>(), "binary": case.binary}));
		run_bytes_session_frag(&list, case.binary, case.entry, case.frag, obs);
	}
}

/// Token-level enumeration: every sequence over TOKENS up to length n, in chunks that share a session.
#[derive(Clone, Debug, Serialize, Deserialize)]
pub struct TokenChunk {
	pub seqs: Vec<Vec<u8>>,
}

pub struct TokenEnum;

impl SubCheck for TokenEnum {
	type Case = TokenChunk;
	fn name(&self) -> &'static str {
		"token-enumeration"
	}
	fn cases(&self, _tier: Tier) -> u32 {
		0
	}
	fn strategy(&self, _tier: Tier) -> BoxedStrategy<TokenChunk> {
		proptest::collection::vec(proptest::collection::vec(0u8..14, 0..8), 1..8).prop_map(|seqs| TokenChunk { seqs }).boxed()
	}
	fn run(&self, case: &TokenChunk, obs: &mut Obs) {
		let list: Vec<Vec<u8>> = case.seqs.iter().map(|t| render_msg(&Msg::Tokens(t.clone()))).collect();
		run_bytes_session(&list, false, obs);
	}
	fn split(&self, case: &TokenChunk) -> Vec<TokenChunk> {
		if case.seqs.len() <= 1 {
			return vec![];
		}
		case.seqs.iter().map(|s| TokenChunk { seqs: vec![s.clone()] }).collect()
	}
}

pub fn all_token_seqs(max_len: usize) -> Vec<Vec<u8>> {
	let mut out: Vec<Vec<u8>> = vec![vec![]];
	let mut frontier: Vec<Vec<u8>> = vec![vec![]];
	for _ in 0..max_len {
		let mut next = Vec::with_capacity(frontier.len() * 14);
		for s in &frontier {
			// only sequences that start with `{` reach the classifier; others are all the same class
			for t in 0..14u8 {
				if s.is_empty() && t != 0 {
					continue;
				}
				let mut n = s.clone();
				n.push(t);
				next.push(n);
			}
		}
		out.extend(next.iter().cloned());
		frontier = next;
	}
	// plus each single non-`{` token as a first token
	for t in 1..14u8 {
		out.push(vec![t]);
		out.push(vec![t, 0, 1]);
	}
	out
}

/// every sequence of MEMBERS up to `max_len` (all subsets, orders and duplications)
pub fn all_member_seqs(max_len: usize) -> Vec<Vec<u8>> {
	let mut out: Vec<Vec<u8>> = vec![vec![]];
	let mut frontier: Vec<Vec<u8>> = vec![vec![]];
	for _ in 0..max_len {
		let mut next = Vec::with_capacity(frontier.len() * MEMBERS.len());
		for s in &frontier {
			for t in 0..MEMBERS.len() as u8 {
				let mut n = s.clone();
				n.push(t);
				next.push(n);
			}
		}
		out.extend(next.iter().cloned());
		frontier = next;
	}
	out
}

#[derive(Clone, Debug, Serialize, Deserialize)]
pub struct MemberChunk {
	pub seqs: Vec<Vec<u8>>,
}

pub struct MemberEnum;

impl SubCheck for MemberEnum {
	type Case = MemberChunk;
	fn name(&self) -> &'static str {
		"member-enumeration"
	}
	fn cases(&self, _tier: Tier) -> u32 {
		0
	}
	fn strategy(&self, _tier: Tier) -> BoxedStrategy<MemberChunk> {
		proptest::collection::vec(proptest::collection::vec(0u8..16, 0..6), 1..8).prop_map(|seqs| MemberChunk { seqs }).boxed()
	}
	fn run(&self, case: &MemberChunk, obs: &mut Obs) {
		let list: Vec<Vec<u8>> = case.seqs.iter().map(|t| render_msg(&Msg::Members(t.clone()))).collect();
		run_bytes_session(&list, false, obs);
	}
	fn split(&self, case: &MemberChunk) -> Vec<MemberChunk> {
		if case.seqs.len() <= 1 {
			return vec![];
		}
		case.seqs.iter().map(|s| MemberChunk { seqs: vec![s.clone()] }).collect()
	}
}

/// one message through a fresh session (fuzz target); failures whose signature is an open known finding are tolerated
pub fn bytes_oracle(data: &[u8]) -> Option<String> {
	// (libFuzzer aborts on any panic, also on the intentional one of the `blocking_panic` handler)
	if data.len() > 20_000 || data.windows(14).any(|w| w == b"blocking_panic") {
		return None;
	}
	let mut obs = Obs::new();
	run_bytes_session(&[data.to_vec()], data.first().is_some_and(|b| b % 2 == 1), &mut obs);
	let known = load_known_findings();
	obs.failures.into_iter().find(|f| !tolerated_signature(&known, "C01", &f.signature)).map(|f| format!("{} — {}", f.signature, f.detail))
}

pub fn corpus_replay(ctx: &mut Ctx) {
	let dir = verif_root().join("corpus/c01_server_msg");
	let mut list = vec![];
	if let Ok(rd) = std::fs::read_dir(&dir) {
		let mut files: Vec<_> = rd.filter_map(|e| e.ok()).map(|e| e.path()).collect();
		files.sort();
		for f in files {
			if let Ok(b) = std::fs::read(&f) {
				if b.len() < 100_000 {
					list.push(b);
				}
			}
		}
	}
	let n = list.len() as u64;
	for chunk in list.chunks(32) {
		let case = MsgsCase { msgs: chunk.iter().map(|b| Msg::Bytes(b.clone())).collect(), binary: true, entry: 0, frag: None };
		ctx.run_case(&Messages, &case);
	}
	ctx.note_class("corpus-files", n);
}

pub fn check(ctx: &mut Ctx) {
	ctx.rule = "messages = constructed JSON-RPC requests (ids over null/u64 boundaries/escaped strings, registered x {sync,async,blocking,blocking-that-panics} and unknown methods, \
		params any JSON or absent, extra members, member order, generated whitespace, 0..127(+) leading blanks) x structural/textual mutators, token-level texts, arbitrary bytes; \
		each sent over HTTP and over one long-lived WebSocket connection (text or binary frame) of the same entry point {TowerService 60%, low-level http::call_with_service_builder + ws::connect 30%, TowerService built through set_http_middleware 10%}, followed by a sentinel call. Oracle = own JSON-RPC classifier over an own strict JSON reader + handler model. \
		Non-trivial = message whose first non-blank byte (within the 128-byte window) is '{'; distinct by message bytes."
		.into();
	ctx.assumptions = vec![
		"messages with duplicate member names, non-UTF-8 bytes, lone surrogate escapes, leading form feeds or > 127 leading blanks get only the universal invariants".into(),
		"arrays (batches) are judged by C02; here only: at most one reply, HTTP == WS, connection alive".into(),
		"in-memory transport: tower service called directly for HTTP; hyper+soketto over tokio duplex for WS".into(),
	];
	ctx.run_sub(&Messages);
	ctx.run_sub(&HttpKeepAlive);
	// token-level enumeration (exhaustive up to the tier's length)
	let mlen = ctx.tier.pick(4, 5);
	let mseqs = all_member_seqs(mlen);
	let mtotal = mseqs.len();
	let mchunks: Vec<MemberChunk> = mseqs.chunks(64).map(|c| MemberChunk { seqs: c.to_vec() }).collect();
	ctx.run_cases_parallel(&MemberEnum, mchunks, 16);
	ctx.extra.insert("member_enumeration".into(), json!({"members": MEMBERS, "max_len": mlen, "objects": mtotal, "exhaustive_over": "all sequences (subsets, orders, duplications) of the member alphabet up to max_len"}));
	let max_len = ctx.tier.pick(5, 6);
	let seqs = all_token_seqs(max_len);
	let total = seqs.len();
	let chunks: Vec<TokenChunk> = seqs.chunks(48).map(|c| TokenChunk { seqs: c.to_vec() }).collect();
	ctx.run_cases_parallel(&TokenEnum, chunks, 16);
	ctx.extra.insert("token_enumeration".into(), json!({"alphabet": TOKENS, "max_len": max_len, "sequences": total, "exhaustive_over": "all sequences starting with '{' up to max_len, plus each other first token"}));
	corpus_replay(ctx);
	fuzz_campaign(ctx, "c01_server_msg", 150_000, 512);
}

pub fn replay(file: &serde_json::Value) -> Option<i32> {
	replay_with(&Messages, file, "C01").or_else(|| replay_with(&HttpKeepAlive, file, "C01")).or_else(|| replay_with(&TokenEnum, file, "C01")).or_else(|| replay_with(&MemberEnum, file, "C01"))
}

// ---------------------------------------------------------------------------------------------
// several messages on one persistent HTTP/1.1 connection
// ---------------------------------------------------------------------------------------------

#[derive(Clone, Debug, Serialize, Deserialize)]
pub struct KeepAliveCase {
	pub msgs: Vec<Msg>,
}

pub struct HttpKeepAlive;

/// one HTTP/1.1 response out of `buf` (status, body), if it is complete; the rest stays in `buf`
fn take_http_response(buf: &mut Vec<u8>) -> Option<(u16, Vec<u8>)> {
	let head_end = buf.windows(4).position(|w| w == b"\r\n\r\n")?;
	let head = String::from_utf8_lossy(&buf[..head_end]).to_string();
	let status: u16 = head.split_whitespace().nth(1)?.parse().ok()?;
	let len: usize = head.lines().find_map(|l| l.to_ascii_lowercase().strip_prefix("content-length:").map(|v| v.trim().parse::<usize>().ok())).flatten().unwrap_or(0);
	if buf.len() < head_end + 4 + len {
		return None;
	}
	let body = buf[head_end + 4..head_end + 4 + len].to_vec();
	buf.drain(..head_end + 4 + len);
	Some((status, body))
}

impl SubCheck for HttpKeepAlive {
	type Case = KeepAliveCase;
	fn name(&self) -> &'static str {
		"http-keep-alive"
	}
	fn cases(&self, tier: Tier) -> u32 {
		tier.pick(20_000, 400_000)
	}
	fn strategy(&self, tier: Tier) -> BoxedStrategy<KeepAliveCase> {
		proptest::collection::vec(arb_msg(tier.pick(2, 3)), 1..5).prop_map(|msgs| KeepAliveCase { msgs }).boxed()
	}
	fn run(&self, case: &KeepAliveCase, obs: &mut Obs) {
		use futures_util::FutureExt;
		use tokio::io::{AsyncReadExt, AsyncWriteExt};
		let rt = rt();
		rt.block_on(async {
			let fix = Fixture::new(Cfg::default());
			let (mut io, _task) = fix.raw_conn(1 << 20);
			let mut inbox: Vec<u8> = vec![];
			let exchange = |body: Vec<u8>| {
				let mut req = format!("POST / HTTP/1.1\r\nHost: localhost\r\nContent-Type: application/json\r\nContent-Length: {}\r\n\r\n", body.len()).into_bytes();
				req.extend_from_slice(&body);
				req
			};
			let mut closed_after: Option<usize> = None;
			let mut any_rejected = false;
			for (k, m) in case.msgs.iter().enumerate() {
				let body = render_msg(m);
				// what the service answers to these bytes on a connection of their own
				let alone = fix.http_post_e(&body).await;
				settle().await;
				let wrote = io.write_all(&exchange(body.clone())).await.is_ok();
				settle().await;
				let mut chunk = vec![0u8; 1 << 16];
				while let Some(Ok(n)) = io.read(&mut chunk).now_or_never() {
					if n == 0 {
						break;
					}
					inbox.extend_from_slice(&chunk[..n]);
				}
				match take_http_response(&mut inbox) {
					Some((status, got)) => {
						any_rejected |= status != 200;
						obs.check(status == alone.status && got == alone.body, "c01/http-answer-depends-on-the-connection", || {
							format!("message #{k} {:?} on the persistent connection => {status} {:?}, alone => {} {:?}", String::from_utf8_lossy(&body), String::from_utf8_lossy(&got), alone.status, String::from_utf8_lossy(&alone.body))
						});
					}
					None => {
						closed_after = Some(k);
						obs.fail("c01/connection-not-serving-after-message", format!("message #{k} {:?} on a persistent HTTP/1.1 connection (wrote={wrote}) got no complete response; earlier messages: {:?}", String::from_utf8_lossy(&body), case.msgs.iter().take(k).map(|m| String::from_utf8_lossy(&render_msg(m)).to_string()).collect::<Vec<_>>()));
						break;
					}
				}
			}
			if closed_after.is_none() {
				// the connection still serves
				let sentinel = br#"{"jsonrpc":"2.0","id":"sentinel","method":"echo_sync","params":[7]}"#.to_vec();
				let _ = io.write_all(&exchange(sentinel)).await;
				settle().await;
				let mut chunk = vec![0u8; 1 << 16];
				while let Some(Ok(n)) = io.read(&mut chunk).now_or_never() {
					if n == 0 {
						break;
					}
					inbox.extend_from_slice(&chunk[..n]);
				}
				let ok = matches!(take_http_response(&mut inbox), Some((200, b)) if serde_json::from_slice::<Value>(&b).ok() == Some(json!({"jsonrpc":"2.0","id":"sentinel","result":[7]})));
				obs.check(ok, "c01/connection-not-serving-after-message", || format!("the sentinel call after {:?} on one persistent HTTP/1.1 connection was not answered", case.msgs.iter().map(|m| String::from_utf8_lossy(&render_msg(m)).to_string()).collect::<Vec<_>>()));
			}
			if any_rejected {
				obs.nontrivial();
				obs.class("keep-alive:after-a-rejected-message");
			}
			fix.ctx.gates.release_all();
		});
	}
}
