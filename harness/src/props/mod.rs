pub mod c01;
pub mod c02;
pub mod c03;
pub mod c04;
pub mod c05;
pub mod c06;
pub mod c06m;
pub mod c07;
pub mod c08;
pub mod c09;
pub mod c10;
pub mod c11;
pub mod c12;
pub mod c13;
pub mod c14;
pub mod c15;
pub mod c16;
pub mod c17;
pub mod c18;
pub mod c19;
pub mod c20;
pub mod subs;

use crate::PropEntry;

pub fn registry() -> Vec<PropEntry> {
	vec![
		PropEntry { id: "C01", level: "exploration", check: c01::check, replay: c01::replay },
		PropEntry { id: "C02", level: "exploration", check: c02::check, replay: c02::replay },
		PropEntry { id: "C03", level: "exploration", check: c03::check, replay: c03::replay },
		PropEntry { id: "C04", level: "exploration", check: c04::check, replay: c04::replay },
		PropEntry { id: "C05", level: "exploration", check: c05::check, replay: c05::replay },
		PropEntry { id: "C06", level: "fault_enumeration", check: c06::check, replay: c06::replay },
		PropEntry { id: "C07", level: "exploration", check: c07::check, replay: c07::replay },
		PropEntry { id: "C08", level: "exploration", check: c08::check, replay: c08::replay },
		PropEntry { id: "C09", level: "fault_enumeration", check: c09::check, replay: c09::replay },
		PropEntry { id: "C10", level: "exploration", check: c10::check, replay: c10::replay },
		PropEntry { id: "C11", level: "exploration", check: c11::check, replay: c11::replay },
		PropEntry { id: "C12", level: "exploration", check: c12::check, replay: c12::replay },
		PropEntry { id: "C13", level: "exploration", check: c13::check, replay: c13::replay },
		PropEntry { id: "C14", level: "exploration", check: c14::check, replay: c14::replay },
		PropEntry { id: "C15", level: "exploration", check: c15::check, replay: c15::replay },
		PropEntry { id: "C16", level: "exploration", check: c16::check, replay: c16::replay },
		PropEntry { id: "C17", level: "exploration", check: c17::check, replay: c17::replay },
		PropEntry { id: "C18", level: "exploration", check: c18::check, replay: c18::replay },
		PropEntry { id: "C19", level: "exploration", check: c19::check, replay: c19::replay },
		PropEntry { id: "C20", level: "exploration", check: c20::check, replay: c20::replay },
	]
}
