pub mod c15;

use crate::PropEntry;

pub fn registry() -> Vec<PropEntry> {
	vec![PropEntry { id: "C15", level: "exploration", check: c15::check, replay: c15::replay }]
}
