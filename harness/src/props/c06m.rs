//! C06 (module level): the same bookkeeping through `Methods::raw_json_request`, where every call runs on
//! connection id 0 and "the connection" of a subscription is the receiver handed back to the caller.
//! Reaches what a served connection cannot: an unsubscribe naming the id of a subscription whose
//! connection has already gone away (connection ids are never reused by a server).

use crate::engine::*;
use crate::fix::server::*;
use parking_lot::Mutex;
use proptest::prelude::*;
use serde::{Deserialize, Serialize};
use serde_json::{Value, json};
use std::sync::Arc;
use tokio::sync::{mpsc, oneshot};

#[derive(Clone, Debug, Serialize, Deserialize, PartialEq)]
pub enum M {
	Subscribe { b: bool },
	/// subscribe through the raw registration (`sub_r`): the handler runs in its own task
	SubscribeRaw,
	/// the caller gives up on the subscribe call of instance k before the handler decided (only raw instances:
	/// their handler lives on and may still try to accept)
	AbandonCall { inst: u16 },
	Act { inst: u16, cmd: Cmd },
	/// drop the receiver of instance k: its connection is gone
	CloseConn { inst: u16 },
	Unsub { inst: u16, other_family: bool },
	UnsubStale,
}

#[derive(Clone, Debug, Serialize, Deserialize)]
pub struct ModCase {
	pub steps: Vec<M>,
}

struct MInst {
	raw: bool,
	abandoned: bool,
	b: bool,
	sub_id: Option<Value>,
	accepted: bool,
	sinks_live: usize,
	returned: bool,
	unsubscribed: bool,
	conn_open: bool,
	rx: Option<mpsc::Receiver<Box<serde_json::value::RawValue>>>,
	pending_call: Option<tokio::task::JoinHandle<Option<(String, mpsc::Receiver<Box<serde_json::value::RawValue>>)>>>,
}

pub struct ModuleLevel;

impl SubCheck for ModuleLevel {
	type Case = ModCase;
	fn name(&self) -> &'static str {
		"module-level"
	}
	fn cases(&self, tier: Tier) -> u32 {
		tier.pick(30_000, 600_000)
	}
	fn strategy(&self, tier: Tier) -> BoxedStrategy<ModCase> {
		let max = tier.pick(14usize, 28);
		// instance picks lean towards the newest instance, so that short stories about one subscription are common
		let inst = || prop_oneof![2 => Just(u16::MAX), 1 => any::<u16>()];
		let step = prop_oneof![
			3 => any::<bool>().prop_map(|b| M::Subscribe { b }),
			3 => Just(M::SubscribeRaw),
			3 => inst().prop_map(|inst| M::AbandonCall { inst }),
			8 => (inst(), crate::props::subs::arb_cmd()).prop_map(|(inst, cmd)| M::Act { inst, cmd }),
			3 => inst().prop_map(|inst| M::CloseConn { inst }),
			4 => (inst(), proptest::bool::weighted(0.1)).prop_map(|(inst, other_family)| M::Unsub { inst, other_family }),
			1 => Just(M::UnsubStale),
		];
		proptest::collection::vec(step, 1..max)
			.prop_map(|mut steps| {
				steps.insert(0, M::Act { inst: 0, cmd: Cmd::Accept });
				steps.insert(0, M::Subscribe { b: false });
				ModCase { steps }
			})
			.boxed()
	}
	fn run(&self, case: &ModCase, obs: &mut Obs) {
		let rt = rt();
		rt.block_on(async {
			let ctx = Arc::new(HCtx { log: Mutex::new(vec![]), gates: Gates::default(), actors: Mutex::new(vec![]), guard_seen: Mutex::new(vec![]), sub_ids: Default::default() });
			let methods: jsonrpsee_server::Methods = build_module(ctx.clone()).into();
			let mut insts: Vec<MInst> = vec![];
			let mut req = 0u32;
			let mut classes: std::collections::BTreeSet<&'static str> = Default::default();
			let mut n_false = 0;
			for (k, step) in case.steps.iter().enumerate() {
				match step {
					M::Subscribe { .. } | M::SubscribeRaw => {
						let raw = matches!(step, M::SubscribeRaw);
						let b = &matches!(step, M::Subscribe { b: true });
						req += 1;
						let m = methods.clone();
						let text = json!({"jsonrpc":"2.0","id":req,"method": if raw { "sub_r" } else if *b { "sub_b" } else { "sub_a" }}).to_string();
						// the call only returns once the handler accepted / rejected: run it as a task
						let h = tokio::spawn(async move { m.raw_json_request(&text, 64).await.ok().map(|(r, rx)| (r.get().to_string(), rx)) });
						settle().await;
						insts.push(MInst { raw, abandoned: false, b: *b, sub_id: None, accepted: false, sinks_live: 0, returned: false, unsubscribed: false, conn_open: true, rx: None, pending_call: Some(h) });
					}
					M::Act { inst, cmd } => {
						if insts.is_empty() {
							continue;
						}
						let i = pick_idx(*inst, insts.len());
						let Some(tx) = ctx.actors.lock().get(i).map(|a| a.tx.clone()) else { continue };
						let (atx, mut arx) = oneshot::channel();
						if tx.send((cmd.clone(), atx)).is_err() {
							continue;
						}
						settle().await;
						let ack = arx.try_recv().ok();
						let x = &mut insts[i];
						match &ack {
							Some(Ack::Accepted(id)) => {
								if x.abandoned {
									// the subscribe call is gone: nobody can be told the id, so nobody could ever unsubscribe
									obs.fail("c06m/accept-succeeded-for-a-given-up-subscribe-call", format!("step #{k} {step:?}: accept() returned a live sink with id {id} although the subscribe call had been given up; case={case:?}"));
								}
								x.accepted = true;
								x.sinks_live = 1;
								x.sub_id = Some(id.clone());
							}
							Some(Ack::Cloned(_)) => x.sinks_live += 1,
							Some(Ack::SinkDropped(_)) => x.sinks_live = x.sinks_live.saturating_sub(1),
							Some(Ack::Returned) => {
								x.returned = true;
								x.sinks_live = 0;
							}
							Some(Ack::Closed(b)) | Some(Ack::ClosedReady(b)) => {
								let want = x.unsubscribed || !x.conn_open;
								if *b != want {
									obs.fail("c06m/is-closed-disagrees-with-model", format!("step #{k} {step:?}: handler sees closed={b}, model says {want}; case={case:?}"));
								}
							}
							_ => {}
						}
						// the subscribe call has been answered now: keep its receiver (= the connection of this subscription)
						if let Some(h) = x.pending_call.take() {
							if h.is_finished() {
								if let Ok(Some((_resp, rx))) = h.await {
									x.rx = Some(rx);
								}
							} else {
								x.pending_call = Some(h);
							}
						}
					}
					M::AbandonCall { inst } => {
						if insts.is_empty() {
							continue;
						}
						let i = pick_idx(*inst, insts.len());
						let x = &mut insts[i];
						if x.raw && !x.accepted && !x.returned {
							if let Some(h) = x.pending_call.take() {
								if !h.is_finished() {
									h.abort();
									x.abandoned = true;
									x.conn_open = false;
									classes.insert("subscribe-call-given-up-before-the-handler-decided");
									settle().await;
								} else {
									x.pending_call = Some(h);
								}
							}
						}
					}
					M::CloseConn { inst } => {
						if insts.is_empty() {
							continue;
						}
						let i = pick_idx(*inst, insts.len());
						if insts[i].rx.take().is_some() {
							insts[i].conn_open = false;
							classes.insert("connection-closed-before-handler-finished");
							settle().await;
						}
					}
					M::Unsub { .. } | M::UnsubStale => {
						let (x, fam_b, target) = match step {
							M::Unsub { inst, other_family } if !insts.is_empty() => {
								let i = pick_idx(*inst, insts.len());
								match &insts[i].sub_id {
									Some(id) => (id.clone(), insts[i].b ^ *other_family, Some(i)),
									// the id a given-up call would have got (read from its pending sink): nobody was ever told it
									None if insts[i].abandoned => match ctx.sub_ids.lock().get(i).cloned() {
										Some(id) => (id, false, Some(i)),
										None => (json!(31337), false, None),
									},
									None => (json!(31337), *other_family, None),
								}
							}
							_ => (json!(31337), false, None),
						};
						req += 1;
						let raw_target = target.is_some_and(|i| insts[i].raw);
						let text = json!({"jsonrpc":"2.0","id":req,"method": if raw_target { "unsub_r" } else if fam_b { "unsub_b" } else { "unsub_a" },"params":[x]}).to_string();
						let reply = methods.raw_json_request(&text, 4).await.ok().map(|(r, _)| serde_json::from_str::<Value>(r.get()).unwrap_or(Value::Null));
						let got = reply.as_ref().and_then(|r| r["result"].as_bool());
						// active: accepted, not unsubscribed, the handler still holds a sink (the module-level API has no notion
						// of a closed connection beyond the receiver: once the handler let go, the entry must be gone)
						let want = target.is_some_and(|i| {
							let t = &insts[i];
							(t.raw || t.b == fam_b) && t.accepted && !t.unsubscribed && t.sinks_live > 0 && !t.returned
						});
						if got != Some(want) {
							let t = target.map(|i| (insts[i].accepted, insts[i].unsubscribed, insts[i].sinks_live, insts[i].returned, insts[i].conn_open));
							let sig = if !want && target.is_some_and(|i| insts[i].abandoned) { "c06m/unsubscribe-true-for-a-subscription-that-was-never-established" } else if !want && target.is_some_and(|i| !insts[i].conn_open) { "c06m/unsubscribe-true-after-connection-and-handler-gone" } else if want { "c06m/unsubscribe-of-active-subscription-false" } else { "c06m/unsubscribe-true-for-inactive-subscription" };
							obs.fail(sig, format!("step #{k} {step:?}: unsubscribe({x}) answered {reply:?}, model says {want}; target (accepted, unsubscribed, sinks, returned, conn_open) = {t:?}; case={case:?}"));
						}
						if got == Some(false) {
							n_false += 1;
						}
						if got == Some(true) {
							if let Some(i) = target {
								insts[i].unsubscribed = true;
							}
						}
					}
				}
				if !obs.failures.is_empty() {
					break;
				}
			}
			if n_false >= 1 && insts.len() >= 2 {
				obs.nontrivial();
			}
			for c in classes {
				obs.class(c);
			}
			// let every actor finish
			let txs: Vec<_> = ctx.actors.lock().iter().map(|a| a.tx.clone()).collect();
			for tx in txs {
				let (atx, _arx) = oneshot::channel();
				let _ = tx.send((Cmd::ReturnOk, atx));
			}
			settle().await;
		});
	}
}

// ---------------------------------------------------------------------------------------------
// served connection, subscribe call given up by an RPC middleware before the (raw) handler accepts
// ---------------------------------------------------------------------------------------------

#[derive(Clone, Debug, Serialize, Deserialize)]
pub struct GivenUpCase {
	/// per subscribe call: (the middleware gives the call up before the handler decides, number of sends afterwards)
	pub subs: Vec<(bool, u8)>,
}

pub struct GivenUpByMiddleware;

impl SubCheck for GivenUpByMiddleware {
	type Case = GivenUpCase;
	fn name(&self) -> &'static str {
		"call-given-up-by-middleware"
	}
	fn cases(&self, tier: Tier) -> u32 {
		tier.pick(3_000, 60_000)
	}
	fn strategy(&self, _tier: Tier) -> BoxedStrategy<GivenUpCase> {
		proptest::collection::vec((any::<bool>(), 0u8..3), 1..4).prop_map(|subs| GivenUpCase { subs }).boxed()
	}
	fn run(&self, case: &GivenUpCase, obs: &mut Obs) {
		let rt = rt();
		rt.block_on(async {
			let fix = Fixture::new(Cfg::default());
			let Ok(mut ws) = fix.ws_with_give_up_middleware().await else {
				obs.fail("c06g/ws-handshake", "failed".to_string());
				return;
			};
			let mut frames: Vec<Value> = vec![];
			let mut n = 0u32;
			let mut ids: Vec<Value> = vec![];
			for (i, (give_up, sends)) in case.subs.iter().enumerate() {
				let rid = format!("s{i}");
				let _ = ws.send_text(&json!({"jsonrpc":"2.0","id":rid,"method":"sub_r"}).to_string()).await;
				settle().await;
				let Some(tx) = fix.ctx.actors.lock().get(i).map(|a| a.tx.clone()) else {
					obs.fail("c06g/handler-not-started", format!("subscribe call #{i}; case={case:?}"));
					return;
				};
				let sub_id = fix.ctx.sub_ids.lock().get(i).cloned().unwrap_or(Value::Null);
				ids.push(sub_id.clone());
				if *give_up {
					fix.ctx.gates.release(&format!("abandon:\"{rid}\""));
					settle().await;
				}
				let (atx, mut arx) = oneshot::channel();
				let _ = tx.send((Cmd::Accept, atx));
				settle().await;
				let ack = arx.try_recv().ok();
				match (&ack, give_up) {
					(Some(Ack::Accepted(_)), true) => obs.fail("c06g/accept-succeeded-for-a-given-up-subscribe-call", format!("call #{i}: the caller was told -32099, yet accept() handed the handler a live sink for {sub_id}; case={case:?}")),
					(Some(Ack::AcceptFailed), true) | (Some(Ack::Accepted(_)), false) => {}
					other => obs.fail("c06g/unexpected-accept-outcome", format!("call #{i}: {other:?}; case={case:?}")),
				}
				for _ in 0..*sends {
					n += 1;
					let (atx, _arx) = oneshot::channel();
					let _ = tx.send((Cmd::Send(n), atx));
					settle().await;
				}
				for e in ws.drain() {
					if let WsEvent::Text(t) = e {
						if let Ok(v) = serde_json::from_str::<Value>(&t) {
							frames.push(v);
						}
					}
				}
			}
			// no notification ever names the id of a given-up call; an accepted one got all its items
			for (i, (give_up, sends)) in case.subs.iter().enumerate() {
				let got = frames.iter().filter(|f| f["method"] == json!("notif_r") && f["params"]["subscription"] == ids[i]).count();
				if *give_up {
					obs.check(got == 0, "c06g/notifications-for-a-given-up-subscribe-call", || format!("call #{i} ({}): {got} notifications; frames {frames:?}; case={case:?}", ids[i]));
				} else {
					obs.check(got == *sends as usize, "c06g/notifications-missing", || format!("call #{i} ({}): {got} of {sends}; case={case:?}", ids[i]));
				}
				// and the table agrees
				let uid = format!("u{i}");
				let _ = ws.send_text(&json!({"jsonrpc":"2.0","id":uid,"method":"unsub_r","params":[ids[i]]}).to_string()).await;
				settle().await;
				let reply = ws.drain_texts().into_iter().filter_map(|t| serde_json::from_str::<Value>(&t).ok()).find(|v| v["id"] == json!(uid));
				let want = !*give_up;
				obs.check(reply.as_ref().and_then(|r| r["result"].as_bool()) == Some(want), if want { "c06g/unsubscribe-of-active-subscription-false" } else { "c06g/unsubscribe-true-for-a-subscription-that-was-never-established" }, || format!("call #{i}: {reply:?}; case={case:?}"));
			}
			if case.subs.iter().any(|s| s.0) && case.subs.len() >= 2 {
				obs.nontrivial();
			}
			obs.class(format!("given-up:{}", case.subs.iter().filter(|s| s.0).count()));
			let txs: Vec<_> = fix.ctx.actors.lock().iter().map(|a| a.tx.clone()).collect();
			for tx in txs {
				let (atx, _arx) = oneshot::channel();
				let _ = tx.send((Cmd::ReturnOk, atx));
			}
			fix.ctx.gates.release_all();
			settle().await;
		});
	}
}

// ---------------------------------------------------------------------------------------------
// handlers on several threads let go of their sinks at the same moment
// ---------------------------------------------------------------------------------------------

#[derive(Clone, Debug, Serialize, Deserialize)]
pub struct BurstCase {
	pub workers: u8,
	pub subs: u8,
	pub rounds: u8,
	/// while the sinks go, other callers keep subscribing and unsubscribing on the same method
	pub churn: bool,
}

pub struct DroppedTogether;

impl SubCheck for DroppedTogether {
	type Case = BurstCase;
	fn name(&self) -> &'static str {
		"sinks-dropped-on-several-threads"
	}
	fn cases(&self, tier: Tier) -> u32 {
		tier.pick(48, 1_500)
	}
	fn shards(&self, _tier: Tier) -> u32 {
		2
	}
	fn strategy(&self, _tier: Tier) -> BoxedStrategy<BurstCase> {
		(2u8..7, 16u8..96, 2u8..8, any::<bool>()).prop_map(|(workers, subs, rounds, churn)| BurstCase { workers, subs, rounds, churn }).boxed()
	}
	fn run(&self, case: &BurstCase, obs: &mut Obs) {
		use jsonrpsee_core::server::RpcModule;
		use std::sync::atomic::{AtomicUsize, Ordering};
		use std::time::Duration;
		obs.nontrivial();
		obs.class(if case.churn { "burst:with-churn" } else { "burst:plain" });
		let rt = tokio::runtime::Builder::new_multi_thread().worker_threads(case.workers.clamp(2, 6) as usize).enable_time().build().expect("runtime");
		let r: Result<Vec<String>, String> = rt.block_on(async {
			let released = Arc::new(AtomicUsize::new(0));
			let (go_tx, go_rx) = tokio::sync::watch::channel(0u32);
			let mut module = RpcModule::new((released.clone(), go_rx));
			module
				.register_subscription("sub", "item", "unsub", |p, pending, ctx, _| async move {
					let round: u32 = p.one().unwrap_or(0);
					let (released, mut go) = (ctx.0.clone(), ctx.1.clone());
					// (only the subscriptions of a round are counted; the churn's own - round 0 - come and go on the side)
					let Ok(sink) = pending.accept().await else {
						if round > 0 {
							released.fetch_add(1, Ordering::SeqCst);
						}
						return;
					};
					// hold the sink until the round is told to let go; all handlers of the round wake together
					while *go.borrow() < round {
						if go.changed().await.is_err() {
							break;
						}
					}
					drop(sink);
					if round > 0 {
						released.fetch_add(1, Ordering::SeqCst);
					}
				})
				.map_err(|e| e.to_string())?;
			let module = Arc::new(module);
			let mut left_behind = vec![];
			for round in 1..=case.rounds.max(1) as u32 {
				let n = case.subs.max(1) as usize;
				let before = released.load(Ordering::SeqCst);
				let mut ids = vec![];
				let mut rxs = vec![];
				for k in 0..n {
					let (resp, rx) = module.raw_json_request(&format!(r#"{{"jsonrpc":"2.0","id":{k},"method":"sub","params":[{round}]}}"#), 4).await.map_err(|e| e.to_string())?;
					let v: Value = serde_json::from_str(resp.get()).map_err(|e| e.to_string())?;
					if v.get("result").is_none() {
						return Err(format!("subscribe refused: {v}"));
					}
					ids.push(v["result"].clone());
					rxs.push(rx);
				}
				// churn on the same method while the sinks go
				let stop_churn = Arc::new(std::sync::atomic::AtomicBool::new(false));
				let mut churners = vec![];
				if case.churn {
					for c in 0..2 {
						let (m, stop) = (module.clone(), stop_churn.clone());
						churners.push(tokio::spawn(async move {
							let mut i = 0u64;
							while !stop.load(Ordering::SeqCst) && i < 20_000 {
								i += 1;
								// (round 0: the handler lets go at once)
								if let Ok((resp, _rx)) = m.raw_json_request(&format!(r#"{{"jsonrpc":"2.0","id":"c{c}-{i}","method":"sub","params":[0]}}"#), 1).await {
									if let Ok(v) = serde_json::from_str::<Value>(resp.get()) {
										let _ = m.raw_json_request(&format!(r#"{{"jsonrpc":"2.0","id":"u","method":"unsub","params":[{}]}}"#, v["result"]), 1).await;
									}
								}
							}
						}));
					}
				}
				go_tx.send(round).map_err(|e| e.to_string())?;
				// all handlers of the round (and whatever the churn started) have let go
				let t0 = std::time::Instant::now();
				while released.load(Ordering::SeqCst) < before + n {
					if t0.elapsed() > Duration::from_secs(20) {
						return Err("handlers did not return within 20 s".into());
					}
					tokio::time::sleep(Duration::from_millis(1)).await;
				}
				stop_churn.store(true, Ordering::SeqCst);
				for c in churners {
					let _ = c.await;
				}
				tokio::time::sleep(Duration::from_millis(2)).await;
				// none of the subscriptions of the round exists any more: unsubscribing any of them answers false
				for id in &ids {
					let (resp, _rx) = module.raw_json_request(&format!(r#"{{"jsonrpc":"2.0","id":"u","method":"unsub","params":[{id}]}}"#), 1).await.map_err(|e| e.to_string())?;
					let v: Value = serde_json::from_str(resp.get()).map_err(|e| e.to_string())?;
					if v["result"] != json!(false) {
						left_behind.push(format!("round {round}: unsubscribe({id}) after its handler returned => {v}"));
					}
				}
				drop(rxs);
				if !left_behind.is_empty() {
					break;
				}
			}
			Ok(left_behind)
		});
		rt.shutdown_background();
		match r {
			Ok(left) => drop(obs.check(left.is_empty(), "c06/unsubscribe-true-for-inactive-subscription", || format!("{} stale entries, e.g. {:?}; case={case:?}", left.len(), left.iter().take(3).collect::<Vec<_>>()))),
			Err(e) => obs.class(format!("burst:inconclusive:{}", e.chars().take(40).collect::<String>())),
		}
	}
}

// ---------------------------------------------------------------------------------------------
// several callers unsubscribe the same subscription at the same moment
// ---------------------------------------------------------------------------------------------

#[derive(Clone, Debug, Serialize, Deserialize)]
pub struct TogetherCase {
	pub workers: u8,
	pub callers: u8,
	pub rounds: u16,
}

pub struct UnsubscribedTogether;

impl SubCheck for UnsubscribedTogether {
	type Case = TogetherCase;
	fn name(&self) -> &'static str {
		"unsubscribed-on-several-threads"
	}
	fn cases(&self, tier: Tier) -> u32 {
		tier.pick(32, 1_000)
	}
	fn shards(&self, _tier: Tier) -> u32 {
		2
	}
	fn strategy(&self, _tier: Tier) -> BoxedStrategy<TogetherCase> {
		(2u8..7, 2u8..6, 100u16..400).prop_map(|(workers, callers, rounds)| TogetherCase { workers, callers, rounds }).boxed()
	}
	fn run(&self, case: &TogetherCase, obs: &mut Obs) {
		use jsonrpsee_core::server::RpcModule;
		obs.nontrivial();
		let callers = case.callers.clamp(2, 6) as usize;
		let mut module = RpcModule::new(());
		module
			.register_subscription("sub", "item", "unsub", |_, pending, _, _| async move {
				if let Ok(sink) = pending.accept().await {
					sink.closed().await;
				}
			})
			.expect("registers");
		let module = Arc::new(module);
		let rt = tokio::runtime::Builder::new_multi_thread().worker_threads(case.workers.clamp(2, 6) as usize).enable_time().build().expect("runtime");
		// the callers are plain OS threads lined up on a barrier; each of them runs its unsubscribe call to completion
		let mut bad: Vec<String> = vec![];
		for round in 0..case.rounds.max(1) {
			let sub = rt.block_on(async { module.raw_json_request(r#"{"jsonrpc":"2.0","id":0,"method":"sub"}"#, 4).await });
			let Ok((resp, _rx)) = sub else {
				obs.class("together:inconclusive");
				break;
			};
			let v: Value = serde_json::from_str(resp.get()).unwrap_or(Value::Null);
			let id = v["result"].clone();
			let barrier = Arc::new(std::sync::Barrier::new(callers));
			let answers: Vec<Option<bool>> = std::thread::scope(|sc| {
				let hs: Vec<_> = (0..callers)
					.map(|k| {
						let (module, barrier, id, handle) = (module.clone(), barrier.clone(), id.clone(), rt.handle().clone());
						sc.spawn(move || {
							let req = format!(r#"{{"jsonrpc":"2.0","id":{k},"method":"unsub","params":[{id}]}}"#);
							barrier.wait();
							let r = handle.block_on(async { module.raw_json_request(&req, 1).await });
							r.ok().and_then(|(resp, _)| serde_json::from_str::<Value>(resp.get()).ok()).and_then(|v| v["result"].as_bool())
						})
					})
					.collect();
				hs.into_iter().map(|h| h.join().unwrap_or(None)).collect()
			});
			let yes = answers.iter().filter(|a| **a == Some(true)).count();
			let no = answers.iter().filter(|a| **a == Some(false)).count();
			if yes != 1 || yes + no != callers {
				bad.push(format!("round {round}: {callers} unsubscribe calls for the active subscription {id} were answered {answers:?}"));
				if bad.len() >= 3 {
					break;
				}
			}
		}
		rt.shutdown_background();
		obs.check(bad.is_empty(), "c06/unsubscribe-answers-for-one-subscription", || format!("{bad:?}; case={case:?}"));
	}
}

// ---------------------------------------------------------------------------------------------
// services built on several threads at once: every connection has an id of its own
// ---------------------------------------------------------------------------------------------

#[derive(Clone, Debug, Serialize, Deserialize)]
pub struct ConnIdCase {
	pub threads: u8,
	pub per_thread: u16,
	pub via_set_http_middleware: bool,
}

pub struct ConnectionIdsAcrossThreads;

impl SubCheck for ConnectionIdsAcrossThreads {
	type Case = ConnIdCase;
	fn name(&self) -> &'static str {
		"connection-ids-across-threads"
	}
	fn cases(&self, tier: Tier) -> u32 {
		tier.pick(40, 1_000)
	}
	fn shards(&self, _tier: Tier) -> u32 {
		2
	}
	fn strategy(&self, _tier: Tier) -> BoxedStrategy<ConnIdCase> {
		(2u8..8, 200u16..1500, any::<bool>()).prop_map(|(threads, per_thread, via_set_http_middleware)| ConnIdCase { threads, per_thread, via_set_http_middleware }).boxed()
	}
	fn run(&self, case: &ConnIdCase, obs: &mut Obs) {
		obs.nontrivial();
		let threads = case.threads.clamp(2, 8) as usize;
		let per = case.per_thread.max(1) as usize;
		// the fixture is made inside a runtime, its parts are handed to plain OS threads: each thread builds its services
		// (as every hyper connection task of a server does) and asks each one for its connection id
		let (builder, methods, stop, _keep) = rt().block_on(async {
			let fix = Fixture::new(Cfg { via_set_http_middleware: case.via_set_http_middleware, ..Cfg::default() });
			(fix.builder.clone(), fix.methods.clone(), fix.stop.clone(), fix)
		});
		let barrier = Arc::new(std::sync::Barrier::new(threads));
		let ids: Vec<Vec<u64>> = std::thread::scope(|sc| {
			let hs: Vec<_> = (0..threads)
				.map(|_| {
					let (builder, methods, stop, barrier) = (builder.clone(), methods.clone(), stop.clone(), barrier.clone());
					sc.spawn(move || {
						let rt = rt();
						barrier.wait();
						let mut svcs = Vec::with_capacity(per);
						for _ in 0..per {
							svcs.push(builder.clone().build(methods.clone(), stop.clone()));
						}
						rt.block_on(async move {
							let mut out = vec![];
							for mut svc in svcs {
								let r = http_call(&mut svc, HttpReq::post_json(br#"{"jsonrpc":"2.0","id":1,"method":"conn_id"}"#)).await;
								let v: Value = serde_json::from_slice(&r.body).unwrap_or(Value::Null);
								if let Some(n) = v["result"].as_u64() {
									out.push(n);
								}
							}
							out
						})
					})
				})
				.collect();
			hs.into_iter().map(|h| h.join().unwrap_or_default()).collect()
		});
		let mut all: Vec<u64> = ids.into_iter().flatten().collect();
		let n = all.len();
		all.sort();
		all.dedup();
		obs.check(n == threads * per, "c06/connection-id-not-reported", || format!("{n} of {} services told their connection id; case={case:?}", threads * per));
		obs.check(all.len() == n, "c06/connection-id-shared-by-two-connections", || format!("{n} services built on {threads} threads have {} distinct connection ids: subscriptions are kept per connection id; case={case:?}", all.len()));
	}
}
