//! C02 — a batch is answered by one array with exactly one reply per call entry.

use crate::engine::*;
use crate::fix::server::*;
use crate::json::*;
use crate::oracle::*;
use crate::props::c01::{Built, IdSpec, Mutn, arb_idspec, arb_method, arb_params, built_members};
use crate::props::c15::{GId, arb_gid};
use proptest::prelude::*;
use serde::{Deserialize, Serialize};
use serde_json::{Value, json};

#[derive(Clone, Debug, Serialize, Deserialize, PartialEq)]
pub enum Entry {
	Obj(Built),
	NonObj(J),
	/// the array of a request's member values, in struct order: ["2.0", id, method, params]
	ArrayForm(Built),
	/// [id] : the sequence form of "an object with an id"
	IdArray(GId),
	Sub { id: GId, b: bool, decision: u8 },
	Unsub { id: GId, b: bool, target: J },
}

#[derive(Clone, Debug, Serialize, Deserialize, PartialEq)]
pub enum TextMut {
	None,
	Truncate(u16),
	TrailingComma,
	Garbage,
}

#[derive(Clone, Debug, Serialize, Deserialize)]
pub struct BatchCase {
	pub entries: Vec<Entry>,
	pub cfg: BatchCfg,
	pub tape: Vec<u8>,
	pub gaps: Vec<u8>,
	pub binary: bool,
	pub text_mut: TextMut,
	pub permute: bool,
	/// 0 = TowerService, 1 = low-level entry points, 2 = TowerService built through set_http_middleware
	#[serde(default)]
	pub entry: u8,
}

fn arb_entry_built() -> BoxedStrategy<Built> {
	(
		arb_idspec(),
		arb_method(),
		arb_params(2),
		proptest::collection::vec(any::<u16>(), 6),
		arb_tape(),
		prop_oneof![
			8 => Just(Mutn::None),
			1 => any::<u8>().prop_map(Mutn::DropMember),
			1 => any::<u8>().prop_map(Mutn::Version),
			1 => any::<u8>().prop_map(Mutn::NonStringMethod),
		],
	)
		.prop_map(|(id, method, params, order, tape, mutn)| Built { id, method, params, extra: vec![], order, lead: 0, tape, mutn })
		.boxed()
}

pub fn arb_entry(with_subs: bool) -> BoxedStrategy<Entry> {
	let base = prop_oneof![
		12 => arb_entry_built().prop_map(Entry::Obj),
		2 => prop_oneof![
			arb_scalar(),
			Just(J::Arr(vec![])),
			Just(J::Arr(vec![J::num(5)])),
			Just(J::Arr(vec![J::Arr(vec![])])),
			Just(J::Obj(vec![])),
		].prop_map(Entry::NonObj),
		1 => arb_entry_built().prop_map(Entry::ArrayForm),
		1 => arb_gid().prop_map(Entry::IdArray),
	];
	if with_subs {
		prop_oneof![
			10 => base,
			2 => (arb_gid(), any::<bool>(), 0u8..3).prop_map(|(id, b, decision)| Entry::Sub { id, b, decision }),
			1 => (arb_gid(), any::<bool>(), prop_oneof![Just(J::num(1000)), Just(J::num(1)), Just(J::str("x")), Just(J::Null)]).prop_map(|(id, b, target)| Entry::Unsub { id, b, target }),
		]
		.boxed()
	} else {
		base.boxed()
	}
}

pub fn entry_j(e: &Entry) -> J {
	match e {
		Entry::Obj(b) => {
			let mut m = built_members(b);
			match &b.mutn {
				Mutn::DropMember(i) => {
					let idx = (*i as usize) % m.len();
					m.remove(idx);
				}
				Mutn::Version(i) => {
					m[0].1 = match i % 4 {
						0 => J::str("1.0"),
						1 => J::num("2.0"),
						2 => J::Null,
						_ => J::str("2"),
					}
				}
				Mutn::NonStringMethod(i) => {
					for e in m.iter_mut() {
						if e.0 == "method" {
							e.1 = match i % 3 {
								0 => J::num(1),
								1 => J::Null,
								_ => J::Arr(vec![J::str("echo_sync")]),
							};
						}
					}
				}
				_ => {}
			}
			for i in (1..m.len()).rev() {
				let j = pick_idx(b.order[i % b.order.len()], i + 1);
				m.swap(i, j);
			}
			J::Obj(m)
		}
		Entry::NonObj(j) => j.clone(),
		Entry::ArrayForm(b) => {
			let id = match &b.id {
				IdSpec::In(g) => g.to_j(),
				_ => J::num(9),
			};
			let mut a = vec![J::str("2.0"), id, J::str(b.method.clone())];
			if let Some(p) = crate::props::c01::params_j(&b.params) {
				a.push(p);
			}
			J::Arr(a)
		}
		Entry::IdArray(g) => J::Arr(vec![g.to_j()]),
		Entry::Sub { id, b, .. } => J::obj(vec![("jsonrpc", J::str("2.0")), ("id", id.to_j()), ("method", J::str(if *b { "sub_b" } else { "sub_a" }))]),
		Entry::Unsub { id, b, target } => J::obj(vec![
			("jsonrpc", J::str("2.0")),
			("id", id.to_j()),
			("method", J::str(if *b { "unsub_b" } else { "unsub_a" })),
			("params", J::Arr(vec![target.clone()])),
		]),
	}
}

pub fn render_batch(entries: &[J], tape: &[u8], gaps: &[u8], text_mut: &TextMut) -> Vec<u8> {
	let elems: Vec<(J, Vec<u8>)> = entries.iter().map(|e| (e.clone(), tape.to_vec())).collect();
	let (text, _) = crate::props::c16::render_array(&elems, gaps);
	let mut bytes = text.into_bytes();
	match text_mut {
		TextMut::None => {}
		TextMut::Truncate(p) => {
			let cut = 1 + pick_idx(*p, bytes.len().saturating_sub(1).max(1));
			bytes.truncate(cut.min(bytes.len().saturating_sub(1)).max(1));
		}
		TextMut::TrailingComma => {
			let p = bytes.len() - 1;
			bytes.insert(p, b',');
		}
		TextMut::Garbage => bytes.extend_from_slice(b" x"),
	}
	bytes
}

/// What one entry must contribute to the reply array.
#[derive(Clone, Debug)]
enum Want {
	Nothing,
	/// exact reply value known (from the model / from sending the entry alone)
	Reply { id: Value, payload: Payload },
	/// invalid entry: -32600 with this id
	Invalid(Value),
	/// entry outside the classifier: zero or one element, anything
	Free,
}

fn want_for(j: &J) -> Want {
	match j {
		J::Obj(_) => match classify_object(j) {
			Class::Call { id, method, params } => Want::Reply { id: id.to_value(), payload: expected_payload(&method, params.as_ref()) },
			Class::Notification => Want::Nothing,
			Class::InvalidWithId(id) => Want::Invalid(id.to_value()),
			Class::InvalidNoId => Want::Invalid(Value::Null),
			Class::Outside(_) => Want::Free,
			_ => Want::Invalid(Value::Null),
		},
		_ => Want::Invalid(Value::Null),
	}
}

fn reply_matches(reply: &Value, want: &Want) -> bool {
	match want {
		Want::Nothing => false,
		Want::Free => true,
		Want::Invalid(id) => {
			reply.get("id") == Some(id) && reply.get("error").and_then(|e| e.get("code")).and_then(|c| c.as_i64()) == Some(-32600) && reply_shape_problem(reply).is_none()
		}
		Want::Reply { id, payload } => reply.get("id") == Some(id) && payload_matches(reply, payload).is_ok() && reply_shape_problem(reply).is_none(),
	}
}

/// maximum bipartite matching (wants x replies); returns per-want matched reply index
fn match_all(wants: &[Want], replies: &[Value]) -> (Vec<Option<usize>>, Vec<bool>) {
	let n = wants.len();
	let m = replies.len();
	let adj: Vec<Vec<usize>> = wants.iter().map(|w| (0..m).filter(|j| reply_matches(&replies[*j], w)).collect()).collect();
	let mut match_r: Vec<Option<usize>> = vec![None; m];
	fn try_k(u: usize, adj: &[Vec<usize>], seen: &mut [bool], match_r: &mut [Option<usize>]) -> bool {
		for &v in &adj[u] {
			if seen[v] {
				continue;
			}
			seen[v] = true;
			if match_r[v].is_none() || try_k(match_r[v].unwrap(), adj, seen, match_r) {
				match_r[v] = Some(u);
				return true;
			}
		}
		false
	}
	// mandatory wants first (Reply / Invalid), optional (Free) afterwards
	let order: Vec<usize> = (0..n).filter(|i| !matches!(wants[*i], Want::Free | Want::Nothing)).chain((0..n).filter(|i| matches!(wants[*i], Want::Free))).collect();
	for u in order {
		let mut seen = vec![false; m];
		try_k(u, &adj, &mut seen, &mut match_r);
	}
	let mut per_want = vec![None; n];
	let mut used = vec![false; m];
	for (v, u) in match_r.iter().enumerate() {
		if let Some(u) = u {
			per_want[*u] = Some(v);
			used[v] = true;
		}
	}
	(per_want, used)
}

pub struct Batches;

async fn run_one_batch(fix: &Fixture, ws: &mut WsPeer, entries: &[Entry], js: &[J], bytes: &[u8], case: &BatchCase, obs: &mut Obs) {
	let shown = || truncate(&String::from_utf8_lossy(bytes), 600);
	let wants: Vec<Want> = js.iter().map(want_for).collect();
	let any_free = wants.iter().any(|w| matches!(w, Want::Free));
	let broken = case.text_mut != TextMut::None;
	let has_subs = entries.iter().any(|e| matches!(e, Entry::Sub { .. } | Entry::Unsub { .. }));
	let n = js.len();
	let gate: Option<i64> = if broken {
		Some(-32700)
	} else {
		match case.cfg {
			BatchCfg::Disabled => Some(-32005),
			BatchCfg::Limit(l) if n > l as usize => Some(-32010),
			_ if n == 0 => Some(-32600),
			_ => None,
		}
	};
	let expected_calls: Vec<(String, Option<Value>)> = js
		.iter()
		.filter_map(|j| match classify_object(j) {
			Class::Call { method, params, .. } if matches!(j, J::Obj(_)) && is_registered_call(&method) => {
				let p = params.map(|p| p.to_value());
				Some((method, if p == Some(Value::Null) { None } else { p }))
			}
			_ => None,
		})
		.collect();

	for transport in ["http", "ws"] {
		let log0 = fix.ctx.log_len();
		let actors0 = fix.ctx.actors.lock().len();
		// ---- deliver
		let (reply_text, extra_frames): (Option<Vec<u8>>, Vec<WsEvent>) = if transport == "http" {
			let r = fix.http_post_e(bytes).await;
			settle().await;
			let ok_status = r.status == 200 || (gate == Some(-32700) && r.status == 400);
			obs.check(ok_status, "c02/http-status", || format!("{} => {}", shown(), r.status));
			(if r.body.is_empty() || r.body == b"null" { None } else { Some(r.body) }, vec![])
		} else {
			if ws.send_bytes(bytes, !case.binary).await.is_err() {
				obs.fail("c02/ws-send-failed", shown());
				return;
			}
			settle().await;
			// drive subscription actors created by this batch
			let mut handled = actors0;
			loop {
				let new: Vec<(usize, mpsc_tx)> = {
					let a = fix.ctx.actors.lock();
					(handled..a.len()).map(|i| (i, a[i].tx.clone())).collect()
				};
				if new.is_empty() {
					break;
				}
				for (i, tx) in new {
					// decision of the k-th Sub entry (actors appear in entry order: sequential execution)
					let k = i - actors0;
					let decision = entries.iter().filter_map(|e| if let Entry::Sub { decision, .. } = e { Some(*decision) } else { None }).nth(k).unwrap_or(0);
					let cmd = match decision % 3 {
						0 => Cmd::Accept,
						1 => Cmd::Reject(-32050),
						_ => Cmd::DropPending,
					};
					let (atx, _arx) = tokio::sync::oneshot::channel();
					let _ = tx.send((cmd, atx));
					settle().await;
					handled = i + 1;
				}
			}
			let frames = ws.drain();
			// let every actor finish quietly
			let txs: Vec<mpsc_tx> = fix.ctx.actors.lock()[actors0..].iter().map(|a| a.tx.clone()).collect();
			for tx in txs {
				let (atx, _arx) = tokio::sync::oneshot::channel();
				let _ = tx.send((Cmd::ReturnOk, atx));
			}
			settle().await;
			let late = ws.drain();
			obs.check(late.is_empty(), "c02/frames-after-batch-finished", || format!("{} => {late:?}", shown()));
			let mut arrays = vec![];
			let mut others = vec![];
			for f in frames {
				match &f {
					WsEvent::Text(t) => match serde_json::from_str::<Value>(t) {
						Ok(Value::Array(_)) => arrays.push(t.clone().into_bytes()),
						Ok(v) if v.get("method").is_some() && v.get("id").is_none() => others.push(f), // subscription notification
						Ok(v) => {
							// a response object: the whole reply of a gated batch, or something leaking outside the array
							if gate.is_some() || wants.iter().all(|w| matches!(w, Want::Nothing)) {
								arrays.push(t.clone().into_bytes());
							} else if has_subs && v.get("id").is_some() {
								obs.fail("c02/subscribe-response-duplicated-outside-array", format!("{} => standalone frame {t}", shown()));
							} else {
								obs.fail("c02/response-outside-array", format!("{} => standalone frame {t}", shown()));
							}
						}
						Err(_) => obs.fail("c02/ws-frame-not-json", format!("{} => {t}", shown())),
					},
					other => obs.fail("c02/ws-unexpected-event", format!("{} => {other:?}", shown())),
				}
			}
			obs.check(arrays.len() <= 1, "c02/more-than-one-reply-frame", || format!("{} => {} frames", shown(), arrays.len()));
			(arrays.into_iter().next(), others)
		};
		let _ = extra_frames;
		let log = fix.ctx.log_since(log0);
		let reply: Option<Value> = match &reply_text {
			None => None,
			Some(t) => match serde_json::from_slice::<Value>(t) {
				Ok(v) => Some(v),
				Err(_) => {
					obs.fail(format!("c02/{transport}-reply-not-json"), format!("{} => {}", shown(), String::from_utf8_lossy(t)));
					continue;
				}
			},
		};
		// ---- gates: one error object with id null, nothing executed
		if let Some(code) = gate {
			let ok = reply.as_ref().is_some_and(|v| {
				v.get("id") == Some(&Value::Null) && v.get("error").and_then(|e| e.get("code")).and_then(|c| c.as_i64()) == Some(code) && reply_shape_problem(v).is_none()
			});
			obs.check(ok, &format!("c02/gate{code}-answer"), || format!("{transport}: {} => {reply:?}", shown()));
			let calls_logged: Vec<&Invocation> = log.iter().filter(|l| l.phase == "run").collect();
			obs.check(calls_logged.is_empty() && log.is_empty(), "c02/entry-executed-despite-gate", || format!("{transport}: {} => {log:?}", shown()));
			continue;
		}
		if any_free {
			continue;
		}
		// over HTTP subscription entries are plain calls answered with an error: judge only their id
		let wants_t: Vec<Want> = wants.clone();
		let expecting: usize = wants_t.iter().filter(|w| matches!(w, Want::Reply { .. } | Want::Invalid(_))).count();
		if expecting == 0 {
			obs.check(reply.is_none(), &format!("c02/{transport}-all-notification-batch-answered"), || format!("{} => {reply:?}", shown()));
		} else {
			match &reply {
				Some(Value::Array(elems)) => {
					let (per_want, used) = match_all(&wants_t, elems);
					for (i, w) in wants_t.iter().enumerate() {
						if matches!(w, Want::Reply { .. } | Want::Invalid(_)) && per_want[i].is_none() {
							let sig = match (&entries[i], w) {
								(Entry::ArrayForm(_) | Entry::IdArray(_), _) => "c02/array-entry-run-as-call".to_string(),
								(_, Want::Invalid(_)) => format!("c02/{transport}-invalid-entry-answer"),
								_ => format!("c02/{transport}-call-entry-answer"),
							};
							obs.fail(sig, format!("entry #{i} {} wants {w:?}; batch {} => {}", js[i].compact(), shown(), truncate(&Value::Array(elems.clone()).to_string(), 600)));
						}
					}
					for (j, u) in used.iter().enumerate() {
						if !u {
							let array_form = entries.iter().any(|e| matches!(e, Entry::ArrayForm(_) | Entry::IdArray(_)));
							obs.fail(
								if array_form { "c02/array-entry-run-as-call".to_string() } else { format!("c02/{transport}-extra-element") },
								format!("element #{j} {} answers no entry; batch {}", elems[j], shown()),
							);
						}
					}
				}
				other => obs.fail(format!("c02/{transport}-reply-not-an-array"), format!("{} => {other:?}", shown())),
			}
		}
		// ---- handlers: exactly the registered call entries ran (as a multiset)
		let mut ran: Vec<(String, Option<Value>)> = log
			.iter()
			.filter(|l| l.phase == "run")
			.map(|l| {
				// (read with the harness's own parser: params may be nested deeper than serde_json's `Value` allows)
				let p = l.params.as_ref().and_then(|p| parse_strict(p.as_bytes()).ok()).map(|j| j.to_value());
				(l.name.clone(), if p == Some(Value::Null) { None } else { p })
			})
			.collect();
		let mut want_ran = expected_calls.clone();
		let key = |x: &(String, Option<Value>)| format!("{}|{:?}", x.0, x.1.as_ref().map(|v| v.to_string()));
		ran.sort_by_key(key);
		want_ran.sort_by_key(key);
		if ran != want_ran {
			let array_form = entries.iter().any(|e| matches!(e, Entry::ArrayForm(_) | Entry::IdArray(_)));
			obs.fail(
				if array_form { "c02/array-entry-run-as-call" } else { "c02/handler-invocations-differ" },
				format!("{transport}: {} => ran {ran:?}, expected {want_ran:?}", shown()),
			);
		}
		// ---- metamorphic: each exact call entry gets the same response when sent alone (HTTP, deterministic handlers)
		if transport == "http" {
			if let Some(Value::Array(elems)) = &reply {
				for (i, w) in wants_t.iter().enumerate() {
					if let Want::Reply { payload, .. } = w {
						if matches!(payload, Payload::Skip | Payload::Bound) || !matches!(entries[i], Entry::Obj(_)) {
							continue;
						}
						// the very same text the entry had inside the array (error texts quote line/column positions)
						let alone_text = js[i].styled(&mut Style::new(case.tape.clone()));
						let alone = fix.http_post_e(alone_text.as_bytes()).await;
						settle().await;
						let av = serde_json::from_slice::<Value>(&alone.body).ok();
						let found = av.as_ref().is_some_and(|a| elems.iter().any(|e| e == a));
						obs.check(found, "c02/entry-differs-from-single-call", || format!("entry {} alone => {av:?}; in batch => {}", js[i].compact(), truncate(&Value::Array(elems.clone()).to_string(), 600)));
					}
				}
			}
		}
	}
}

#[allow(non_camel_case_types)]
type mpsc_tx = tokio::sync::mpsc::UnboundedSender<(Cmd, tokio::sync::oneshot::Sender<Ack>)>;

fn permutations(n: usize) -> Vec<Vec<usize>> {
	fn rec(cur: &mut Vec<usize>, used: &mut Vec<bool>, n: usize, out: &mut Vec<Vec<usize>>) {
		if cur.len() == n {
			out.push(cur.clone());
			return;
		}
		for i in 0..n {
			if !used[i] {
				used[i] = true;
				cur.push(i);
				rec(cur, used, n, out);
				cur.pop();
				used[i] = false;
			}
		}
	}
	let mut out = vec![];
	rec(&mut vec![], &mut vec![false; n], n, &mut out);
	out
}

impl SubCheck for Batches {
	type Case = BatchCase;
	fn name(&self) -> &'static str {
		"batches"
	}
	fn cases(&self, tier: Tier) -> u32 {
		tier.pick(60_000, 1_200_000)
	}
	fn strategy(&self, tier: Tier) -> BoxedStrategy<BatchCase> {
		let max = tier.pick(12usize, 40);
		let entries = prop_oneof![
			3 => proptest::collection::vec(arb_entry(false), 0..max),
			2 => proptest::collection::vec(arb_entry(false), 0..5),
			2 => proptest::collection::vec(arb_entry(true), 1..6),
		];
		let cfg = prop_oneof![4 => Just(BatchCfg::Unlimited), 1 => Just(BatchCfg::Disabled), 3 => (0u32..6).prop_map(BatchCfg::Limit)];
		let tm = prop_oneof![12 => Just(TextMut::None), 1 => any::<u16>().prop_map(TextMut::Truncate), 1 => Just(TextMut::TrailingComma), 1 => Just(TextMut::Garbage)];
		(entries, cfg, arb_tape(), proptest::collection::vec(any::<u8>(), 0..6), any::<bool>(), tm, any::<bool>(), prop_oneof![6 => Just(0u8), 3 => Just(1u8), 1 => Just(2u8)])
			.prop_map(|(entries, cfg, tape, gaps, binary, text_mut, permute, entry)| BatchCase { entries, cfg, tape, gaps, binary, text_mut, permute, entry })
			.boxed()
	}
	fn run(&self, case: &BatchCase, obs: &mut Obs) {
		let mut case = case.clone();
		if case.text_mut != TextMut::None && case.cfg == BatchCfg::Disabled {
			case.cfg = BatchCfg::Unlimited; // broken text + disabled batching: either answer is acceptable, not judged
		}
		if case.text_mut == TextMut::TrailingComma && case.entries.is_empty() {
			case.text_mut = TextMut::None;
		}
		let has_subs = case.entries.iter().any(|e| matches!(e, Entry::Sub { .. } | Entry::Unsub { .. }));
		let js: Vec<J> = case.entries.iter().map(entry_j).collect();
		let classes: std::collections::HashSet<String> = js
			.iter()
			.map(|j| match want_for(j) {
				Want::Nothing => "notification".to_string(),
				Want::Reply { .. } => "call".to_string(),
				Want::Invalid(Value::Null) => "invalid-no-id".to_string(),
				Want::Invalid(_) => "invalid-with-id".to_string(),
				Want::Free => "outside".to_string(),
			})
			.collect();
		if js.len() >= 2 && classes.len() >= 2 {
			obs.nontrivial();
		}
		obs.class(match case.cfg {
			BatchCfg::Disabled => "cfg:disabled",
			BatchCfg::Limit(l) if js.len() > l as usize => "cfg:over-limit",
			BatchCfg::Limit(_) => "cfg:within-limit",
			BatchCfg::Unlimited => "cfg:unlimited",
		});
		for c in &classes {
			obs.class(format!("entry:{c}"));
		}
		if has_subs {
			obs.class("with-subscription-entries");
		}
		if js.is_empty() {
			obs.class("empty-batch");
		}
		if case.text_mut != TextMut::None {
			obs.class("broken-array-text");
		}
		let orders: Vec<Vec<usize>> = if case.permute && js.len() >= 2 && js.len() <= 4 && !has_subs && case.text_mut == TextMut::None {
			obs.class("all-permutations");
			permutations(js.len())
		} else {
			vec![(0..js.len()).collect()]
		};
		obs.weight = orders.len() as u64 * 2;
		let first_bytes = render_batch(&js, &case.tape, &case.gaps, &case.text_mut);
		obs.sample(json!({"batch": String::from_utf8_lossy(&first_bytes), "cfg": format!("{:?}", case.cfg)}));
		let rt = rt();
		rt.block_on(async {
			let fix = Fixture::new(Cfg { batch: case.cfg, entry: if case.entry == 1 { 1 } else { 0 }, via_set_http_middleware: case.entry == 2, ..Cfg::default() });
			obs.class(match case.entry {
				1 => "entry:low-level",
				2 => "entry:set_http_middleware",
				_ => "entry:tower-service",
			});
			let mut ws = fix.ws_e().await.expect("ws");
			for ord in &orders {
				let es: Vec<Entry> = ord.iter().map(|i| case.entries[*i].clone()).collect();
				let pj: Vec<J> = ord.iter().map(|i| js[*i].clone()).collect();
				let bytes = render_batch(&pj, &case.tape, &case.gaps, &case.text_mut);
				// a truncated text may happen to be valid JSON again: then it is an ordinary batch of fewer entries; skip those
				if case.text_mut != TextMut::None && parse_strict(&bytes).is_ok() {
					continue;
				}
				run_one_batch(&fix, &mut ws, &es, &pj, &bytes, &case, obs).await;
				if !obs.failures.is_empty() {
					break;
				}
			}
			// the connection still serves
			let _ = ws.send_text(r#"{"jsonrpc":"2.0","id":"s","method":"echo_sync","params":[1]}"#).await;
			settle().await;
			let after = ws.drain_texts();
			let ok = after.len() == 1 && serde_json::from_str::<Value>(&after[0]).ok() == Some(json!({"jsonrpc":"2.0","id":"s","result":[1]}));
			obs.check(ok, "c02/connection-not-serving-after-batch", || format!("{after:?}"));
			fix.ctx.gates.release_all();
			settle().await;
		});
	}
}

pub fn check(ctx: &mut Ctx) {
	ctx.rule = "arrays of 0..12 (quick) / 0..40 (thorough) entries over {valid call (echo/typed/fail/big/unknown/blocking/panicking), notification, invalid object with/without recoverable id, \
		non-objects incl. the array-of-member-values form, duplicate ids, subscribe/unsubscribe calls (WS, driven by handler actors)} x BatchRequestConfig {Disabled, Limit(0..5), Unlimited} x {HTTP, WS} x entry point {TowerService, low-level http::call_with_service_builder + ws::connect, set_http_middleware}; \
		all permutations of batches of 2..4 entries; broken array texts. Oracle = per-entry classification by the own classifier, expected replies from the handler model, bipartite matching of replies to entries (order not required), \
		the same entry sent alone (metamorphic), invocation log multiset. Non-trivial = >= 2 entries of >= 2 classes; distinct by case value."
		.into();
	ctx.assumptions = vec![
		"reply order inside the array is recorded but not required".into(),
		"entries with duplicate member names make the whole batch 'universal invariants only'".into(),
		"a broken array text together with Disabled batching is not judged (either -32005 or -32700 would do)".into(),
	];
	ctx.run_sub(&Batches);
}

pub fn replay(file: &serde_json::Value) -> Option<i32> {
	replay_with(&Batches, file, "C02")
}
