//! C20 — params builders emit JSON that parses back to what was inserted.

use crate::engine::*;
use crate::json::*;
use jsonrpsee_core::params::{ArrayParams, BatchRequestBuilder, ObjectParams};
use jsonrpsee_core::traits::ToRpcParams;
use proptest::prelude::*;
use serde::ser::{SerializeMap, SerializeSeq};
use serde::{Deserialize, Serialize, Serializer};
use serde_json::{Value, json};
use std::collections::BTreeMap;

/// A value whose serialisation fails after emitting `n` elements of a sequence / map.
#[derive(Clone, Debug)]
struct FailAfter {
	n: usize,
	map: bool,
}

impl Serialize for FailAfter {
	fn serialize<S: Serializer>(&self, s: S) -> Result<S::Ok, S::Error> {
		use serde::ser::Error;
		if self.map {
			let mut m = s.serialize_map(None)?;
			for i in 0..self.n {
				m.serialize_entry(&format!("k{i}"), &i)?;
			}
			Err(S::Error::custom("FailAfter"))
		} else {
			let mut q = s.serialize_seq(None)?;
			for i in 0..self.n {
				q.serialize_element(&i)?;
			}
			Err(S::Error::custom("FailAfter"))
		}
	}
}

/// A value that can be serialised once: it hands out the items of an iterator (what `Serializer::collect_seq` is for).
/// A second serialisation fails or, if `drained_is_empty`, writes an empty sequence.
struct OneShot {
	items: std::cell::RefCell<Option<Vec<u64>>>,
	drained_is_empty: bool,
}

impl Serialize for OneShot {
	fn serialize<S: Serializer>(&self, s: S) -> Result<S::Ok, S::Error> {
		use serde::ser::Error;
		match self.items.borrow_mut().take() {
			Some(v) => s.collect_seq(v),
			None if self.drained_is_empty => s.collect_seq(Vec::<u64>::new()),
			None => Err(S::Error::custom("the iterator was already consumed")),
		}
	}
}

#[derive(Clone, Debug, Serialize, Deserialize)]
pub enum Ins {
	Val(J),
	NaN,
	Fail { n: usize, map: bool },
	/// a map with non-string keys: serde_json refuses the key after writing '{'
	BadKeyMap,
	/// clone the half-built builder; build the original here and compare; continue with the clone
	Clone,
	/// a value that can only be serialised once (see `OneShot`)
	OneShot(Vec<u64>, bool),
}

#[derive(Clone, Debug, Serialize, Deserialize)]
pub struct BuilderCase {
	pub named: bool,
	pub ops: Vec<(String, Ins)>,
}

pub struct Builders;

enum B {
	A(ArrayParams),
	O(ObjectParams),
}

impl B {
	fn insert<P: Serialize>(&mut self, name: &str, v: P) -> Result<(), serde_json::Error> {
		match self {
			B::A(a) => a.insert(v),
			B::O(o) => o.insert(name, v),
		}
	}
	fn clone_b(&self) -> B {
		match self {
			B::A(a) => B::A(a.clone()),
			B::O(o) => B::O(o.clone()),
		}
	}
	fn build(self) -> Result<Option<Box<serde_json::value::RawValue>>, serde_json::Error> {
		match self {
			B::A(a) => a.to_rpc_params(),
			B::O(o) => o.to_rpc_params(),
		}
	}
}

fn check_built(obs: &mut Obs, named: bool, built: Result<Option<Box<serde_json::value::RawValue>>, serde_json::Error>, expect: &[(String, Value)], any_attempt: bool, sigp: &str) {
	match built {
		Err(e) => obs.fail(format!("{sigp}/build-error"), format!("{e}")),
		Ok(None) => {
			obs.check(expect.is_empty(), &format!("{sigp}/none-but-values-inserted"), || format!("{expect:?}"));
		}
		Ok(Some(raw)) => {
			let text = raw.get();
			if expect.is_empty() && !any_attempt {
				obs.fail(format!("{sigp}/empty-builder-not-none"), text.to_string());
			}
			match parse_strict(text.as_bytes()) {
				Err(e) => obs.fail(format!("{sigp}/invalid-json"), format!("{text:?}: {e:?}")),
				Ok(j) => match (&j, named) {
					(J::Arr(a), false) => {
						let got: Vec<Value> = a.iter().map(|v| v.to_value()).collect();
						let want: Vec<Value> = expect.iter().map(|(_, v)| v.clone()).collect();
						obs.check(got == want, &format!("{sigp}/different-values"), || format!("text={text} want={want:?}"));
					}
					(J::Obj(m), true) => {
						let got: Vec<(String, Value)> = m.iter().map(|(k, v)| (k.clone(), v.to_value())).collect();
						obs.check(got == expect, &format!("{sigp}/different-values"), || format!("text={text} want={expect:?}"));
					}
					_ => obs.fail(format!("{sigp}/wrong-container"), text.to_string()),
				},
			}
		}
	}
}

impl SubCheck for Builders {
	type Case = BuilderCase;
	fn name(&self) -> &'static str {
		"builders"
	}
	fn cases(&self, tier: Tier) -> u32 {
		tier.pick(500_000, 10_000_000)
	}
	fn strategy(&self, tier: Tier) -> BoxedStrategy<BuilderCase> {
		let d = tier.pick(3, 5);
		let ins = prop_oneof![
			10 => arb_json(d).prop_map(Ins::Val),
			1 => Just(Ins::NaN),
			2 => (0usize..4, any::<bool>()).prop_map(|(n, map)| Ins::Fail { n, map }),
			1 => Just(Ins::BadKeyMap),
			1 => Just(Ins::Clone),
			1 => (proptest::collection::vec(any::<u64>(), 0..4), any::<bool>()).prop_map(|(v, e)| Ins::OneShot(v, e)),
		];
		(any::<bool>(), proptest::collection::vec((arb_key(), ins), 0..tier.pick(12, 20))).prop_map(|(named, ops)| BuilderCase { named, ops }).boxed()
	}
	fn run(&self, case: &BuilderCase, obs: &mut Obs) {
		obs.class(if case.named { "named" } else { "positional" });
		let r = std::panic::catch_unwind(std::panic::AssertUnwindSafe(|| {
			let mut obs2 = Obs::new();
			// (an even number of operations: the builder comes from `new()`, an odd number: from `Default`)
			let via_default = case.ops.len() % 2 == 1;
			let mut b = match (case.named, via_default) {
				(true, false) => B::O(ObjectParams::new()),
				(true, true) => B::O(ObjectParams::default()),
				(false, false) => B::A(ArrayParams::new()),
				(false, true) => B::A(ArrayParams::default()),
			};
			let mut expect: Vec<(String, Value)> = vec![];
			let mut attempts = false;
			let mut had_fail = false;
			let mut had_container = false;
			for (name, op) in &case.ops {
				match op {
					Ins::Val(j) => {
						attempts = true;
						had_container |= j.is_container();
						let v = j.to_value();
						match b.insert(name, &v) {
							Ok(()) => expect.push((name.clone(), v)),
							Err(e) => obs2.fail("builders/insert-of-valid-value-failed", format!("{j:?}: {e}")),
						}
					}
					Ins::NaN => {
						attempts = true;
						match b.insert(name, f64::NAN) {
							Ok(()) => expect.push((name.clone(), serde_json::to_value(f64::NAN).unwrap())),
							Err(_) => {}
						}
					}
					Ins::Fail { n, map } => {
						attempts = true;
						had_fail = true;
						let r = b.insert(name, FailAfter { n: *n, map: *map });
						obs2.check(r.is_err(), "builders/failing-insert-reported-ok", || format!("{op:?}"));
					}
					Ins::BadKeyMap => {
						attempts = true;
						had_fail = true;
						let mut m: BTreeMap<Vec<u8>, u8> = BTreeMap::new();
						m.insert(vec![1, 2], 3);
						let r = b.insert(name, m);
						obs2.check(r.is_err(), "builders/failing-insert-reported-ok", || format!("{op:?}"));
					}
					Ins::OneShot(items, drained_is_empty) => {
						attempts = true;
						had_container = true;
						match b.insert(name, OneShot { items: std::cell::RefCell::new(Some(items.clone())), drained_is_empty: *drained_is_empty }) {
							Ok(()) => expect.push((name.clone(), json!(items))),
							Err(e) => obs2.fail("builders/insert-of-valid-value-failed", format!("{op:?}: {e}")),
						}
					}
					Ins::Clone => {
						let orig = std::mem::replace(&mut b, B::A(ArrayParams::new()));
						b = orig.clone_b();
						let sig = if had_fail { "builders-after-failed-insert" } else { "builders" };
						check_built(&mut obs2, case.named, orig.build(), &expect, attempts, sig);
					}
				}
			}
			let sig = if had_fail { "builders-after-failed-insert" } else { "builders" };
			check_built(&mut obs2, case.named, b.build(), &expect, attempts, sig);
			(obs2, had_fail, had_container, expect.len())
		}));
		match r {
			Ok((o, had_fail, had_container, n)) => {
				for f in o.failures {
					obs.failures.push(f);
				}
				if had_fail {
					obs.class("with-failing-insert");
				}
				if case.ops.len() >= 2 && (had_fail || had_container) {
					obs.nontrivial();
				}
				if n == 0 {
					obs.class("no-successful-insert");
				}
			}
			Err(p) => {
				let had_fail = case.ops.iter().any(|(_, o)| matches!(o, Ins::Fail { .. } | Ins::BadKeyMap));
				obs.fail(
					if had_fail { "builders-after-failed-insert/panic" } else { "builders/panic" },
					format!("{case:?}: {}", panic_msg(&p)),
				)
			}
		}
	}
}

// -----------------------------------------------------------------------------------------
// tuples (all arities), slices, arrays, Vec, Map, rpc_params!, batch builder
// -----------------------------------------------------------------------------------------

#[derive(Clone, Debug, Serialize, Deserialize)]
pub struct BlanketCase {
	pub vals: Vec<J>,
	pub keys: Vec<String>,
	pub methods: Vec<String>,
	/// 128-bit integers (decimal text; the first two are read as u128, the rest as i128)
	#[serde(default)]
	pub wide: Vec<String>,
}

pub struct Blanket;

/// every element of the emitted array is the integer literal of the value, digit by digit
fn expect_int_texts(obs: &mut Obs, what: &str, r: Result<Option<Box<serde_json::value::RawValue>>, serde_json::Error>, want: &[String]) {
	match r {
		Ok(Some(raw)) => match parse_strict(raw.get().as_bytes()) {
			Ok(J::Arr(a)) => {
				let got: Vec<String> = a.iter().map(|v| if let J::Num(t) = v { t.clone() } else { format!("{v:?}") }).collect();
				obs.check(got == want, &format!("blanket/{what}-different-values"), || format!("{} vs {want:?}", raw.get()));
			}
			other => obs.fail(format!("blanket/{what}-not-array"), format!("{} => {other:?}", raw.get())),
		},
		Ok(None) => obs.fail(format!("blanket/{what}-none"), format!("{want:?}")),
		Err(e) => obs.fail(format!("blanket/{what}-error"), format!("{e} for {want:?}")),
	}
}

fn expect_array(obs: &mut Obs, what: &str, r: Result<Option<Box<serde_json::value::RawValue>>, serde_json::Error>, want: &[Value]) {
	match r {
		Ok(Some(raw)) => match parse_strict(raw.get().as_bytes()) {
			Ok(J::Arr(a)) => {
				let got: Vec<Value> = a.iter().map(|v| v.to_value()).collect();
				obs.check(got == want, &format!("blanket/{what}-different-values"), || format!("{} vs {want:?}", raw.get()));
			}
			other => obs.fail(format!("blanket/{what}-not-array"), format!("{} => {other:?}", raw.get())),
		},
		Ok(None) => obs.fail(format!("blanket/{what}-none"), format!("{want:?}")),
		Err(e) => obs.fail(format!("blanket/{what}-error"), format!("{e}")),
	}
}

macro_rules! tuple_case {
	($obs:expr, $v:expr, $($i:tt),+) => {{
		let t = ($($v[$i].clone(),)+);
		let n = [$($i),+].len();
		expect_array($obs, &format!("tuple{n}"), t.to_rpc_params(), &$v[..n]);
		// rpc_params! with the same values
		let p = jsonrpsee_core::rpc_params![$($v[$i].clone()),+];
		expect_array($obs, &format!("rpc_params{n}"), p.to_rpc_params(), &$v[..n]);
	}};
}

impl SubCheck for Blanket {
	type Case = BlanketCase;
	fn name(&self) -> &'static str {
		"blanket-impls"
	}
	fn cases(&self, tier: Tier) -> u32 {
		tier.pick(40_000, 800_000)
	}
	fn strategy(&self, tier: Tier) -> BoxedStrategy<BlanketCase> {
		let d = tier.pick(2, 4);
		let wide_u = prop_oneof![2 => any::<u128>(), 1 => any::<u64>().prop_map(|n| n as u128), 1 => Just(u64::MAX as u128 + 1), 1 => Just(u128::MAX)].prop_map(|n| n.to_string());
		let wide_i = prop_oneof![2 => any::<i128>(), 1 => any::<i64>().prop_map(|n| n as i128), 1 => Just(i64::MIN as i128 - 1), 1 => Just(i128::MIN), 1 => Just(i128::MAX)].prop_map(|n| n.to_string());
		(proptest::collection::vec(arb_json(d), 16), proptest::collection::vec(arb_key(), 16), proptest::collection::vec(arb_string(6), 0..6), proptest::collection::vec(wide_u, 2), proptest::collection::vec(wide_i, 2))
			.prop_map(|(vals, keys, methods, mut wide, wi)| {
				wide.extend(wi);
				BlanketCase { vals, keys, methods, wide }
			})
			.boxed()
	}
	fn run(&self, case: &BlanketCase, obs: &mut Obs) {
		obs.nontrivial();
		let v: Vec<Value> = case.vals.iter().map(|j| j.to_value()).collect();
		let r = std::panic::catch_unwind(std::panic::AssertUnwindSafe(|| {
			let mut o = Obs::new();
			let obs = &mut o;
			tuple_case!(obs, v, 0);
			tuple_case!(obs, v, 0, 1);
			tuple_case!(obs, v, 0, 1, 2);
			tuple_case!(obs, v, 0, 1, 2, 3);
			tuple_case!(obs, v, 0, 1, 2, 3, 4);
			tuple_case!(obs, v, 0, 1, 2, 3, 4, 5);
			tuple_case!(obs, v, 0, 1, 2, 3, 4, 5, 6);
			tuple_case!(obs, v, 0, 1, 2, 3, 4, 5, 6, 7);
			tuple_case!(obs, v, 0, 1, 2, 3, 4, 5, 6, 7, 8);
			tuple_case!(obs, v, 0, 1, 2, 3, 4, 5, 6, 7, 8, 9);
			tuple_case!(obs, v, 0, 1, 2, 3, 4, 5, 6, 7, 8, 9, 10);
			tuple_case!(obs, v, 0, 1, 2, 3, 4, 5, 6, 7, 8, 9, 10, 11);
			tuple_case!(obs, v, 0, 1, 2, 3, 4, 5, 6, 7, 8, 9, 10, 11, 12);
			tuple_case!(obs, v, 0, 1, 2, 3, 4, 5, 6, 7, 8, 9, 10, 11, 12, 13);
			tuple_case!(obs, v, 0, 1, 2, 3, 4, 5, 6, 7, 8, 9, 10, 11, 12, 13, 14);
			tuple_case!(obs, v, 0, 1, 2, 3, 4, 5, 6, 7, 8, 9, 10, 11, 12, 13, 14, 15);
			// empty rpc_params! => no params
			let p = jsonrpsee_core::rpc_params![];
			match p.to_rpc_params() {
				Ok(None) => {}
				other => obs.fail("blanket/empty-rpc_params-not-none", format!("{other:?}")),
			}
			// heterogeneous tuple
			let t = (1u8, "two", 3.5f64, vec![4u32], Some(()), v[0].clone());
			expect_array(obs, "hetero-tuple", t.to_rpc_params(), &[json!(1), json!("two"), json!(3.5), json!([4]), Value::Null, v[0].clone()]);
			// slices, Vec, arrays of several lengths
			for n in [0usize, 1, 2, 5, 16] {
				expect_array(obs, "slice", (&v[..n]).to_rpc_params(), &v[..n]);
				expect_array(obs, "vec", v[..n].to_vec().to_rpc_params(), &v[..n]);
			}
			let a3: [Value; 3] = [v[0].clone(), v[1].clone(), v[2].clone()];
			expect_array(obs, "array3", a3.to_rpc_params(), &v[..3]);
			let a0: [Value; 0] = [];
			expect_array(obs, "array0", a0.to_rpc_params(), &[]);
			// a value that cannot be serialised, through every blanket impl: an error, never 'no params' and never a
			// shorter array
			{
				let bad = || FailAfter { n: case.methods.len() % 3, map: case.keys.first().is_some_and(|k| k.len() % 2 == 1) };
				let mut judge = |what: &str, r: Result<Option<Box<serde_json::value::RawValue>>, serde_json::Error>| {
					if let Ok(x) = r {
						obs.fail(format!("blanket/{what}-failing-value-not-reported"), format!("{:?}", x.map(|r| r.get().to_string())));
					}
				};
				judge("tuple1", (bad(),).to_rpc_params());
				judge("tuple2", (v[0].clone(), bad()).to_rpc_params());
				judge("tuple3", (bad(), v[0].clone(), v[1].clone()).to_rpc_params());
				judge("slice", (&[bad(), bad()][..]).to_rpc_params());
				judge("vec", vec![bad()].to_rpc_params());
				judge("array", [bad(), bad(), bad()].to_rpc_params());
				let mut bb = BatchRequestBuilder::new();
				let _ = bb.insert("ok", (v[0].clone(),));
				let r = bb.insert("bad", (v[0].clone(), bad()));
				obs.check(r.is_err(), "blanket/batch-entry-failing-value-not-reported", || format!("{:?}", bb.iter().map(|(m, p)| (m.to_string(), p.map(|p| p.get().to_string()))).collect::<Vec<_>>()));
				let names: Vec<String> = bb.iter().map(|(m, _)| m.to_string()).collect();
				obs.check(names == ["ok"], "blanket/batch-entry-added-by-failed-insert", || format!("{names:?}"));
				// rpc_params! is documented to panic when a parameter cannot be serialised: with a failing value in any
				// position it must not hand back params (they would lack a value that was passed)
				macro_rules! macro_must_refuse {
					($what:expr, $($p:expr),+) => {{
						let r = std::panic::catch_unwind(std::panic::AssertUnwindSafe(|| {
							jsonrpsee_core::rpc_params![$($p),+].to_rpc_params().map(|x| x.map(|r| r.get().to_string()))
						}));
						if let Ok(x) = r {
							obs.fail(format!("blanket/rpc_params-failing-value-{}-not-reported", $what), format!("{x:?}"));
						}
					}};
				}
				macro_must_refuse!("only", bad());
				macro_must_refuse!("first-of-2", bad(), v[0].clone());
				macro_must_refuse!("last-of-2", v[0].clone(), bad());
				macro_must_refuse!("first-of-3", bad(), v[0].clone(), v[1].clone());
				macro_must_refuse!("middle-of-3", v[0].clone(), bad(), v[1].clone());
				macro_must_refuse!("last-of-3", v[0].clone(), v[1].clone(), bad());
				macro_must_refuse!("second-of-4", v[0].clone(), bad(), v[1].clone(), v[2].clone());
				macro_must_refuse!("two-of-4", bad(), v[0].clone(), bad(), v[1].clone());
				crate::panics::clear_local();
			}
			// 128-bit integers through every blanket impl and through the builder: the same digits come out
			if case.wide.len() == 4 {
				if let (Ok(u0), Ok(u1), Ok(i0), Ok(i1)) = (case.wide[0].parse::<u128>(), case.wide[1].parse::<u128>(), case.wide[2].parse::<i128>(), case.wide[3].parse::<i128>()) {
					let w = &case.wide;
					expect_int_texts(obs, "wide-tuple", (u0, u1, i0, i1).to_rpc_params(), &w[..]);
					expect_int_texts(obs, "wide-slice", (&[u0, u1][..]).to_rpc_params(), &w[..2]);
					expect_int_texts(obs, "wide-vec", vec![i0, i1].to_rpc_params(), &w[2..]);
					expect_int_texts(obs, "wide-array", [u0, u1].to_rpc_params(), &w[..2]);
					expect_int_texts(obs, "wide-rpc_params", jsonrpsee_core::rpc_params![u0, u1, i0, i1].to_rpc_params(), &w[..]);
					let mut ap = ArrayParams::new();
					let _ = ap.insert(u0);
					let _ = ap.insert(i0);
					expect_int_texts(obs, "wide-builder", ap.to_rpc_params(), &[w[0].clone(), w[2].clone()]);
				}
			}
			// serde_json::Map
			let mut m = serde_json::Map::new();
			for (k, val) in case.keys.iter().zip(v.iter()) {
				m.insert(k.clone(), val.clone());
			}
			match m.clone().to_rpc_params() {
				Ok(Some(raw)) => match parse_strict(raw.get().as_bytes()) {
					Ok(j @ J::Obj(_)) => {
						obs.check(j.to_value() == Value::Object(m.clone()) && !j.has_dup_keys_top(), "blanket/map-different-values", || raw.get().to_string());
					}
					other => obs.fail("blanket/map-not-object", format!("{other:?}")),
				},
				other => obs.fail("blanket/map-none-or-error", format!("{other:?}")),
			}
			// batch builder
			let mut bb = BatchRequestBuilder::new();
			let mut want: Vec<(String, Option<Vec<Value>>)> = vec![];
			for (i, method) in case.methods.iter().enumerate() {
				if i % 3 == 0 {
					bb.insert(method, ArrayParams::new()).unwrap();
					want.push((method.clone(), None));
				} else {
					let mut a = ArrayParams::new();
					for x in &v[..i] {
						a.insert(x).unwrap();
					}
					bb.insert(method, a).unwrap();
					want.push((method.clone(), Some(v[..i].to_vec())));
				}
			}
			let it: Vec<(String, Option<String>)> = bb.iter().map(|(m, p)| (m.to_string(), p.map(|p| p.get().to_string()))).collect();
			match bb.build() {
				Err(_) => {
					obs.check(case.methods.is_empty(), "blanket/batch-nonempty-rejected", || format!("{:?}", case.methods));
				}
				Ok(entries) => {
					obs.check(!case.methods.is_empty(), "blanket/batch-empty-accepted", || "empty batch built".to_string());
					let got: Vec<(String, Option<Vec<Value>>)> = entries
						.iter()
						.map(|(m, p)| {
							(m.to_string(), p.as_ref().map(|p| match parse_strict(p.get().as_bytes()) {
								Ok(J::Arr(a)) => a.iter().map(|x| x.to_value()).collect(),
								_ => vec![json!("<<not an array>>")],
							}))
						})
						.collect();
					obs.check(got == want, "blanket/batch-different-entries", || format!("{got:?} vs {want:?}"));
					let it2: Vec<(String, Option<String>)> = entries.iter().map(|(m, p)| (m.to_string(), p.as_ref().map(|p| p.get().to_string()))).collect();
					obs.check(it == it2, "blanket/batch-iter-differs", || format!("{it:?} vs {it2:?}"));
				}
			}
			o
		}));
		match r {
			Ok(o) => obs.failures.extend(o.failures),
			Err(p) => obs.fail("blanket/panic", panic_msg(&p)),
		}
	}
}

pub fn check(ctx: &mut Ctx) {
	ctx.rule = "sequences of inserts (JSON values, NaN, values whose Serialize fails after n emitted elements, maps with non-string keys, clones of half-built builders) \
		into ArrayParams/ObjectParams; output re-read by the own order- and duplicate-preserving JSON reader and compared with serde_json::to_value of the successfully \
		inserted values; tuples of arity 1..16, rpc_params!, slices, arrays, Vec, Map, BatchRequestBuilder. Non-trivial = >= 2 inserts including a container or a failing value; distinct by case value."
		.into();
	ctx.assumptions = vec![
		"a builder whose only inserts failed may yield either 'no params' or an empty container".into(),
		"serde_json::to_value is the reference image of an inserted value".into(),
	];
	ctx.run_sub(&Builders);
	ctx.run_sub(&Blanket);
}

pub fn replay(file: &serde_json::Value) -> Option<i32> {
	replay_with(&Builders, file, "C20").or_else(|| replay_with(&Blanket, file, "C20"))
}
