//! C18 — client bookkeeping returns to empty: no per-request / per-subscription state survives finished work.

use crate::engine::*;
use crate::fix::client::*;
use crate::fix::server::{rt, settle};
use futures_util::FutureExt;
#[allow(unused_imports)]
use jsonrpsee_core::client::{ClientT, Subscription, SubscriptionClientT};
use jsonrpsee_core::params::BatchRequestBuilder;
use jsonrpsee_core::rpc_params;
use proptest::prelude::*;
use serde::{Deserialize, Serialize};
use serde_json::{Value, json};

#[derive(Clone, Debug, Serialize, Deserialize, PartialEq)]
pub enum How {
	AcceptNum,
	AcceptStr,
	Refuse,
	Malformed(u8),
	/// accept with a subscription id that is already active
	DuplicateSubId,
}

#[derive(Clone, Debug, Serialize, Deserialize, PartialEq)]
pub enum S18 {
	Call,
	AnswerCall(u16, bool),
	Subscribe,
	AnswerSub(u16, How),
	/// drop the subscribe future before it is answered
	CancelSub(u16),
	Unsubscribe(u16),
	DropSub(u16),
	ServerClose(u16),
	LagClose(u16),
	AckUnsub(u16, bool),
	Batch(u8),
	AnswerBatch(u16),
	RegisterHandler,
	DropHandler,
	LagHandler,
}

#[derive(Clone, Debug, Serialize, Deserialize)]
pub struct C18Case {
	pub steps: Vec<S18>,
	pub id_kind: IdK,
	pub repeat: u16,
	pub late_id: u16,
}

#[derive(Debug, PartialEq, Clone)]
enum SubSt {
	Pending,
	Cancelled,
	Active,
	/// unsubscribe request expected on the wire; ack outstanding
	Unsubscribing,
	Done,
}

struct SubM {
	method: String,
	unsub: String,
	wire_id: Value,
	sub_id: Option<Value>,
	st: SubSt,
	task: Option<tokio::task::JoinHandle<Result<Subscription<Value>, String>>>,
	stream: Option<Subscription<Value>>,
	unsub_wire_id: Option<Value>,
	ended_by: &'static str,
}

struct CallM {
	wire_id: Value,
	pending: bool,
}

struct BatchM {
	ids: Vec<Value>,
	pending: bool,
}

#[cfg(feature = "hooks")]
fn table_sizes(mc: &MockClient) -> Option<[usize; 4]> {
	Some(mc.client.verif_table_sizes())
}
#[cfg(not(feature = "hooks"))]
fn table_sizes(_mc: &MockClient) -> Option<[usize; 4]> {
	None
}

pub struct Tables;

struct W18 {
	mc: MockClient,
	calls: Vec<CallM>,
	subs: Vec<SubM>,
	batches: Vec<BatchM>,
	handler: Option<Subscription<Value>>,
	handler_registered: bool,
	used_ids: Vec<Value>,
	n: u64,
	string_ids: bool,
}

impl W18 {
	/// the number of entries the four tables must hold by design, given what is outstanding
	fn expected(&self) -> [usize; 4] {
		let mut req = self.calls.iter().filter(|c| c.pending).count();
		let mut active = 0;
		for s in &self.subs {
			match s.st {
				SubSt::Pending | SubSt::Cancelled => req += 2,
				SubSt::Active => {
					req += 2;
					active += 1;
				}
				SubSt::Unsubscribing => req += 2,
				SubSt::Done => {}
			}
		}
		[req, active, self.batches.iter().filter(|b| b.pending).count(), self.handler_registered as usize]
	}

	/// pick up unsubscribe requests that appeared on the wire
	fn scan_wire(&mut self) {
		let new = self.mc.new_wire();
		for m in new {
			if let Some(method) = m.get("method").and_then(|x| x.as_str()) {
				if let Some(s) = self.subs.iter_mut().find(|s| s.unsub == method) {
					s.unsub_wire_id = m.get("id").cloned();
				}
			}
			if let Some(id) = m.get("id") {
				self.used_ids.push(id.clone());
			}
			if let Value::Array(a) = &m {
				for e in a {
					if let Some(id) = e.get("id") {
						self.used_ids.push(id.clone());
					}
				}
			}
		}
	}
}

async fn run_history(case: &C18Case, obs: &mut Obs) {
	crate::panics::clear_local();
	let mc = MockClient::new(ClientCfg { id_kind: case.id_kind, sub_buffer: 1, ..ClientCfg::default() });
	let mut w = W18 { mc, calls: vec![], subs: vec![], batches: vec![], handler: None, handler_registered: false, used_ids: vec![], n: 0, string_ids: case.id_kind == IdK::String };
	let hooks = table_sizes(&w.mc).is_some();
	let mut paths: std::collections::BTreeSet<&'static str> = Default::default();
	let reps = case.repeat.max(1) as usize;
	let mut steps: Vec<S18> = vec![];
	for _ in 0..reps {
		steps.extend(case.steps.iter().cloned());
	}
	// closing phase: finish everything that is still outstanding, in a fixed order
	let mut closing = false;
	let mut idx = 0usize;
	let mut fail_sig: Option<(String, String)> = None;
	loop {
		let step = if idx < steps.len() {
			steps[idx].clone()
		} else {
			closing = true;
			// derive the next closing step from the state
			if let Some(i) = w.calls.iter().position(|c| c.pending) {
				S18::AnswerCall(i as u16 * 0, true).clone_with_pick(i)
			} else if let Some(i) = w.batches.iter().position(|b| b.pending) {
				S18::AnswerBatch(0).clone_with_pick(i)
			} else if let Some(i) = w.subs.iter().position(|s| matches!(s.st, SubSt::Pending | SubSt::Cancelled)) {
				S18::AnswerSub(0, How::AcceptNum).clone_with_pick(i)
			} else if let Some(i) = w.subs.iter().position(|s| s.st == SubSt::Active) {
				S18::Unsubscribe(0).clone_with_pick(i)
			} else if let Some(i) = w.subs.iter().position(|s| s.st == SubSt::Unsubscribing) {
				S18::AckUnsub(0, true).clone_with_pick(i)
			} else if w.handler_registered {
				S18::DropHandler
			} else {
				break;
			}
		};
		idx += 1;
		match &step {
			S18::Call => {
				w.n += 1;
				let m = format!("c{}", w.n);
				let c = w.mc.client.clone();
				let m2 = m.clone();
				tokio::spawn(async move { c.request::<Value, _>(&m2, rpc_params![]).await.map_err(|e| format!("{e:?}")) });
				settle().await;
				let wire = w.mc.wire_all();
				if let Some(id) = wire_id_of(&wire, &m) {
					w.calls.push(CallM { wire_id: id, pending: true });
				}
			}
			S18::AnswerCall(pick, ok) => {
				let pend: Vec<usize> = (0..w.calls.len()).filter(|i| w.calls[*i].pending).collect();
				if pend.is_empty() {
					continue;
				}
				let i = if closing { *pick as usize } else { pend[pick_idx(*pick, pend.len())] };
				let body = if *ok { json!({"jsonrpc":"2.0","id":w.calls[i].wire_id,"result":1}) } else { json!({"jsonrpc":"2.0","id":w.calls[i].wire_id,"error":{"code":-1,"message":"no"}}) };
				w.mc.push_text(body.to_string());
				w.calls[i].pending = false;
				paths.insert("call-answered");
			}
			S18::Subscribe => {
				w.n += 1;
				let (m, u) = (format!("s{}", w.n), format!("u{}", w.n));
				let c = w.mc.client.clone();
				let (m2, u2) = (m.clone(), u.clone());
				let task = tokio::spawn(async move { c.subscribe::<Value, _>(&m2, rpc_params![], &u2).await.map_err(|e| format!("{e:?}")) });
				settle().await;
				let wire = w.mc.wire_all();
				if let Some(id) = wire_id_of(&wire, &m) {
					w.subs.push(SubM { method: m, unsub: u, wire_id: id, sub_id: None, st: SubSt::Pending, task: Some(task), stream: None, unsub_wire_id: None, ended_by: "" });
				}
			}
			S18::AnswerSub(pick, how) => {
				let pend: Vec<usize> = (0..w.subs.len()).filter(|i| matches!(w.subs[*i].st, SubSt::Pending | SubSt::Cancelled)).collect();
				if pend.is_empty() {
					continue;
				}
				let i = if closing { *pick as usize } else { pend[pick_idx(*pick, pend.len())] };
				w.n += 1;
				let active_ids: Vec<Value> = w.subs.iter().filter(|s| s.st == SubSt::Active).filter_map(|s| s.sub_id.clone()).collect();
				let how = if *how == How::DuplicateSubId && active_ids.is_empty() { How::AcceptNum } else { how.clone() };
				let cancelled = w.subs[i].st == SubSt::Cancelled;
				let id = w.subs[i].wire_id.clone();
				let body = match &how {
					How::AcceptNum => json!({"jsonrpc":"2.0","id":id,"result":90_000 + w.n}),
					How::AcceptStr => json!({"jsonrpc":"2.0","id":id,"result":format!("sub-{}", w.n)}),
					How::Refuse => json!({"jsonrpc":"2.0","id":id,"error":{"code":-32006,"message":"refused"}}),
					How::Malformed(k) => json!({"jsonrpc":"2.0","id":id,"result": match k % 4 { 0 => json!(true), 1 => json!([1]), 2 => json!({"a":1}), _ => Value::Null }}),
					How::DuplicateSubId => json!({"jsonrpc":"2.0","id":id,"result":active_ids[0]}),
				};
				w.mc.push_text(body.to_string());
				settle().await;
				let s = &mut w.subs[i];
				match how {
					How::AcceptNum | How::AcceptStr => {
						s.sub_id = body.get("result").cloned();
						if cancelled {
							// nobody is there to take the stream: the client must unsubscribe on its own
							s.st = SubSt::Unsubscribing;
							s.ended_by = "cancelled-then-accepted";
							paths.insert("cancelled-then-accepted");
						} else {
							match s.task.take().and_then(|t| t.now_or_never()) {
								Some(Ok(Ok(stream))) => {
									s.stream = Some(stream);
									s.st = SubSt::Active;
								}
								other => {
									fail_sig.get_or_insert(("c18/accepted-subscribe-did-not-complete".into(), format!("{:?}", other.map(|r| r.map(|r| r.map(|_| ()))))));
								}
							}
						}
					}
					How::Refuse | How::Malformed(_) | How::DuplicateSubId if !cancelled && !matches!(s.task.take().and_then(|t| t.now_or_never()), Some(Ok(Err(_)))) => {
						// whatever the reason, a subscribe call that was answered and not accepted completes - with an error
						fail_sig.get_or_insert(("c18/unaccepted-subscribe-did-not-fail".into(), format!("subscribe call #{i} answered {body}: its future is still pending or did not return an error")));
						s.st = SubSt::Done;
					}
					How::Refuse => {
						s.st = SubSt::Done;
						s.ended_by = "refused";
						paths.insert("refused");
					}
					How::Malformed(_) => {
						s.st = SubSt::Done;
						s.ended_by = "malformed-subscription-id";
						paths.insert("malformed-subscription-id");
					}
					How::DuplicateSubId => {
						s.st = SubSt::Done;
						s.ended_by = "duplicate-subscription-id";
						paths.insert("duplicate-subscription-id");
					}
				}
			}
			S18::CancelSub(pick) => {
				let pend: Vec<usize> = (0..w.subs.len()).filter(|i| w.subs[*i].st == SubSt::Pending).collect();
				if pend.is_empty() {
					continue;
				}
				let i = pend[pick_idx(*pick, pend.len())];
				if let Some(t) = w.subs[i].task.take() {
					t.abort();
				}
				w.subs[i].st = SubSt::Cancelled;
			}
			S18::Unsubscribe(pick) | S18::DropSub(pick) => {
				let act: Vec<usize> = (0..w.subs.len()).filter(|i| w.subs[*i].st == SubSt::Active).collect();
				if act.is_empty() {
					continue;
				}
				let i = if closing { *pick as usize } else { act[pick_idx(*pick, act.len())] };
				let stream = w.subs[i].stream.take().unwrap();
				if matches!(step, S18::Unsubscribe(_)) {
					tokio::spawn(async move { stream.unsubscribe().await.ok() });
					w.subs[i].ended_by = "unsubscribed";
					paths.insert("unsubscribed");
				} else {
					drop(stream);
					w.subs[i].ended_by = "dropped";
					paths.insert("dropped");
				}
				w.subs[i].st = SubSt::Unsubscribing;
			}
			S18::ServerClose(pick) => {
				let act: Vec<usize> = (0..w.subs.len()).filter(|i| w.subs[*i].st == SubSt::Active).collect();
				if act.is_empty() {
					continue;
				}
				let i = act[pick_idx(*pick, act.len())];
				let sid = w.subs[i].sub_id.clone().unwrap();
				// (every third close carries members a reader ignores)
				let close = if pick % 5 == 4 { json!({"jsonrpc":"2.0","method":"n","extra":1,"params":{"subscription":sid,"error":"bye","reason":"quota"}}) } else { json!({"jsonrpc":"2.0","method":"n","params":{"subscription":sid,"error":"bye"}}) };
				// singly, alone in an array, or in an array behind a notification nobody listens to
				match pick % 3 {
					0 => w.mc.push_text(close.to_string()),
					1 => {
						w.mc.push_text(json!([close]).to_string());
						paths.insert("server-close-in-array");
					}
					_ => {
						w.mc.push_text(json!([{"jsonrpc":"2.0","method":"nobody_listens","params":[1]}, close]).to_string());
						paths.insert("server-close-in-array");
					}
				}
				w.subs[i].st = SubSt::Done;
				w.subs[i].ended_by = "server-close";
				w.subs[i].stream = None; // dropping the ended stream must not matter
				paths.insert("server-close");
			}
			S18::LagClose(pick) => {
				let act: Vec<usize> = (0..w.subs.len()).filter(|i| w.subs[*i].st == SubSt::Active).collect();
				if act.is_empty() {
					continue;
				}
				let i = act[pick_idx(*pick, act.len())];
				let sid = w.subs[i].sub_id.clone().unwrap();
				for k in 0..3 {
					w.mc.push_text(json!({"jsonrpc":"2.0","method":"n","params":{"subscription":sid,"result":k}}).to_string());
				}
				w.subs[i].st = SubSt::Unsubscribing;
				w.subs[i].ended_by = "lagged";
				paths.insert("lagged");
			}
			S18::AckUnsub(pick, ok) => {
				settle().await;
				w.scan_wire();
				let un: Vec<usize> = (0..w.subs.len()).filter(|i| w.subs[*i].st == SubSt::Unsubscribing && w.subs[*i].unsub_wire_id.is_some()).collect();
				if un.is_empty() {
					if closing {
						let i = *pick as usize;
						fail_sig.get_or_insert((format!("c18/no-unsubscribe-request/{}", w.subs[i].ended_by), format!("subscription {} ({}) ended by {} but no unsubscribe request was sent", w.subs[i].method, w.subs[i].sub_id.clone().unwrap_or_default(), w.subs[i].ended_by)));
						w.subs[i].st = SubSt::Done;
					}
					continue;
				}
				let i = if closing && w.subs[*pick as usize].unsub_wire_id.is_some() { *pick as usize } else { un[pick_idx(*pick, un.len()) % un.len()] };
				let id = w.subs[i].unsub_wire_id.clone().unwrap();
				w.mc.push_text(json!({"jsonrpc":"2.0","id":id,"result":*ok}).to_string());
				w.subs[i].st = SubSt::Done;
			}
			S18::Batch(n) => {
				w.n += 1;
				let k = w.n;
				let n = (*n).clamp(1, 4) as usize;
				let c = w.mc.client.clone();
				tokio::spawn(async move {
					let names: Vec<String> = (0..n).map(|i| format!("b{k}_{i}")).collect();
					let mut b = BatchRequestBuilder::new();
					for m in &names {
						b.insert(m, rpc_params![]).unwrap();
					}
					c.batch_request::<Value>(b).await.map(|_| ()).map_err(|e| format!("{e:?}"))
				});
				settle().await;
				let wire = w.mc.wire_all();
				let ids: Vec<Value> = (0..n).filter_map(|i| wire_id_of(&wire, &format!("b{k}_{i}"))).collect();
				if ids.len() == n {
					w.batches.push(BatchM { ids, pending: true });
				}
			}
			S18::AnswerBatch(pick) => {
				let pend: Vec<usize> = (0..w.batches.len()).filter(|i| w.batches[*i].pending).collect();
				if pend.is_empty() {
					continue;
				}
				let i = if closing { *pick as usize } else { pend[pick_idx(*pick, pend.len())] };
				let arr: Vec<Value> = w.batches[i].ids.iter().rev().map(|id| json!({"jsonrpc":"2.0","id":id,"result":0})).collect();
				w.mc.push_text(Value::Array(arr).to_string());
				w.batches[i].pending = false;
				paths.insert("batch-answered");
			}
			S18::RegisterHandler => {
				if !w.handler_registered {
					let c = w.mc.client.clone();
					let t = tokio::spawn(async move { c.subscribe_to_method::<Value>("handler_m").await });
					settle().await;
					if let Some(Ok(Ok(s))) = t.now_or_never() {
						w.handler = Some(s);
						w.handler_registered = true;
					}
				}
			}
			S18::DropHandler => {
				if w.handler_registered {
					w.handler = None;
					w.handler_registered = false;
					paths.insert("handler-dropped");
				}
			}
			S18::LagHandler => {
				if w.handler_registered {
					for k in 0..3 {
						w.mc.push_text(json!({"jsonrpc":"2.0","method":"handler_m","params":[k]}).to_string());
					}
					w.handler_registered = false;
					paths.insert("handler-lagged");
					// the application sees the stream end and lets go of it (dropping a stale handler stream later
					// would unregister whatever handler is registered for that method by then)
					settle().await;
					w.handler = None;
				}
			}
		}
		settle().await;
		w.scan_wire();
		if !w.mc.client.is_connected() {
			fail_sig.get_or_insert(("c18/client-disconnected".into(), format!("after {step:?}: events {:?}", w.mc.shared.events.lock())));
			break;
		}
		if let Some(got) = table_sizes(&w.mc) {
			let want = w.expected();
			if got != want && fail_sig.is_none() {
				let what = match &step {
					S18::AnswerSub(_, How::Refuse) => "refused".to_string(),
					S18::AnswerSub(_, How::Malformed(_)) => "malformed-subscription-id".to_string(),
					S18::AnswerSub(_, How::DuplicateSubId) => "duplicate-subscription-id".to_string(),
					S18::AnswerSub(..) => "accepted".to_string(),
					S18::ServerClose(_) => "server-close".to_string(),
					S18::AckUnsub(..) => format!("unsubscribe-acknowledged"),
					other => format!("{other:?}").split('(').next().unwrap().to_string(),
				};
				let sig = if got.iter().zip(want.iter()).any(|(g, w)| g > w) { format!("c18/unsub-slot-leak/{what}") } else { format!("c18/table-smaller-than-outstanding/{what}") };
				fail_sig = Some((sig, format!("after step #{idx} {step:?}: tables [requests, subscriptions, batches, handlers] = {got:?}, by design {want:?}")));
			}
		}
		if fail_sig.is_some() && !closing {
			break;
		}
	}
	settle().await;
	let panics = crate::panics::take_local();
	obs.check(panics.is_empty(), "c18/background-panic", || format!("{panics:?}"));
	if let Some((s, d)) = fail_sig {
		obs.fail(s, format!("{d}; case={case:?}"));
		return;
	}
	if let Some(got) = table_sizes(&w.mc) {
		obs.check(got == [0, 0, 0, 0], "c18/tables-not-empty-at-quiescence", || format!("{got:?}; case={case:?}"));
	}
	// hook-free cross-check: a late response bearing an id of finished work must match nothing pending
	if !w.used_ids.is_empty() && w.mc.client.is_connected() {
		let id = w.used_ids[pick_idx(case.late_id, w.used_ids.len())].clone();
		w.mc.push_text(json!({"jsonrpc":"2.0","id":id,"result":"late"}).to_string());
		settle().await;
		obs.check(!w.mc.client.is_connected(), "c18/late-response-to-finished-id-swallowed", || format!("a response with id {id} was swallowed after everything had finished; case={case:?}"));
	}
	let ends: std::collections::BTreeSet<&str> = w.subs.iter().map(|s| s.ended_by).filter(|s| !s.is_empty()).collect();
	if ends.len() >= 2 {
		obs.nontrivial();
	}
	for p in paths {
		obs.class(format!("path:{p}"));
	}
	obs.class(if hooks { "with-hook" } else { "probe-only" });
	let _ = w.string_ids;
}

impl S18 {
	fn clone_with_pick(&self, i: usize) -> S18 {
		match self {
			S18::AnswerCall(_, ok) => S18::AnswerCall(i as u16, *ok),
			S18::AnswerBatch(_) => S18::AnswerBatch(i as u16),
			S18::AnswerSub(_, h) => S18::AnswerSub(i as u16, h.clone()),
			S18::Unsubscribe(_) => S18::Unsubscribe(i as u16),
			S18::AckUnsub(_, ok) => S18::AckUnsub(i as u16, *ok),
			other => other.clone(),
		}
	}
}

impl SubCheck for Tables {
	type Case = C18Case;
	fn name(&self) -> &'static str {
		"tables"
	}
	fn cases(&self, tier: Tier) -> u32 {
		tier.pick(150_000, 3_000_000)
	}
	fn strategy(&self, tier: Tier) -> BoxedStrategy<C18Case> {
		let max = tier.pick(20usize, 60);
		let how = prop_oneof![3 => Just(How::AcceptNum), 2 => Just(How::AcceptStr), 2 => Just(How::Refuse), 2 => (0u8..4).prop_map(How::Malformed), 1 => Just(How::DuplicateSubId)];
		let step = prop_oneof![
			3 => Just(S18::Call),
			3 => (any::<u16>(), any::<bool>()).prop_map(|(p, ok)| S18::AnswerCall(p, ok)),
			5 => Just(S18::Subscribe),
			6 => (any::<u16>(), how).prop_map(|(p, h)| S18::AnswerSub(p, h)),
			1 => any::<u16>().prop_map(S18::CancelSub),
			2 => any::<u16>().prop_map(S18::Unsubscribe),
			2 => any::<u16>().prop_map(S18::DropSub),
			2 => any::<u16>().prop_map(S18::ServerClose),
			2 => any::<u16>().prop_map(S18::LagClose),
			3 => (any::<u16>(), any::<bool>()).prop_map(|(p, ok)| S18::AckUnsub(p, ok)),
			1 => (1u8..4).prop_map(S18::Batch),
			1 => any::<u16>().prop_map(S18::AnswerBatch),
			1 => Just(S18::RegisterHandler),
			1 => Just(S18::DropHandler),
			1 => Just(S18::LagHandler),
		];
		(proptest::collection::vec(step, 1..max), prop_oneof![Just(IdK::Number), Just(IdK::String)], any::<u16>())
			.prop_map(|(steps, id_kind, late_id)| C18Case { steps, id_kind, repeat: 1, late_id })
			.boxed()
	}
	fn run(&self, case: &C18Case, obs: &mut Obs) {
		let rt = rt();
		rt.block_on(run_history(case, obs));
	}
}

/// long repetitions of each single cycle
pub fn cycles(tier: Tier) -> Vec<C18Case> {
	let reps = tier.pick(200, 1000);
	let cyc: Vec<Vec<S18>> = vec![
		vec![S18::Call, S18::AnswerCall(0, true)],
		vec![S18::Subscribe, S18::AnswerSub(0, How::AcceptNum), S18::Unsubscribe(0), S18::AckUnsub(0, true)],
		vec![S18::Subscribe, S18::AnswerSub(0, How::AcceptStr), S18::DropSub(0), S18::AckUnsub(0, false)],
		vec![S18::Subscribe, S18::AnswerSub(0, How::Refuse)],
		vec![S18::Subscribe, S18::AnswerSub(0, How::Malformed(0))],
		vec![S18::Subscribe, S18::AnswerSub(0, How::AcceptNum), S18::ServerClose(0)],
		vec![S18::Subscribe, S18::AnswerSub(0, How::AcceptNum), S18::LagClose(0), S18::AckUnsub(0, true)],
		vec![S18::Subscribe, S18::CancelSub(0), S18::AnswerSub(0, How::AcceptNum), S18::AckUnsub(0, true)],
		vec![S18::Batch(3), S18::AnswerBatch(0)],
		vec![S18::RegisterHandler, S18::DropHandler],
		vec![S18::RegisterHandler, S18::LagHandler],
	];
	let mut out = vec![];
	for c in cyc {
		for id_kind in [IdK::Number, IdK::String] {
			out.push(C18Case { steps: c.clone(), id_kind, repeat: reps, late_id: 0 });
		}
	}
	out
}

/// the stream is dropped while the request queue is full; after the fallback unsubscribe and its ack nothing may remain
pub struct FullQueueTables;

impl SubCheck for FullQueueTables {
	type Case = crate::props::c05::FullQueueCase;
	fn name(&self) -> &'static str {
		"tables-after-drop-with-full-queue"
	}
	fn cases(&self, tier: Tier) -> u32 {
		tier.pick(2_000, 40_000)
	}
	fn strategy(&self, tier: Tier) -> BoxedStrategy<Self::Case> {
		crate::props::c05::DroppedWithFullQueue.strategy(tier)
	}
	fn run(&self, case: &Self::Case, obs: &mut Obs) {
		let rt = rt();
		rt.block_on(async {
			let mut fails = vec![];
			let (n, sizes, lost) = crate::props::c05::full_queue_scenario(case, &mut fails).await;
			if lost {
				obs.nontrivial();
			}
			if let Some(sz) = sizes {
				obs.check(sz == [0, 0, 0, 0], "c18/tables-not-empty-after-dropped-stream", || format!("tables {sz:?} after the dropped subscription was finished ({n} unsubscribe requests, drop notice lost: {lost}); case={case:?}"));
			}
			for (s, d) in fails {
				obs.fail(s, format!("{d}; case={case:?}"));
			}
		});
	}
}

pub fn check(ctx: &mut Ctx) {
	ctx.rule = "histories of {call, subscribe answered accept(num/str id) / refuse / malformed id / duplicate subscription id, subscribe future dropped before the answer, unsubscribe, drop, server-side close, lag-close, batch, notification handler register / drop / lag} \
		with the acknowledgements (incl. unsubscribe acks) delivered in a generated order, then everything outstanding is finished; plus 200 (quick) / 1000 repetitions of each single cycle. \
		Oracle: after EVERY step at quiescence the four internal table sizes (hook) equal what is outstanding by design (pending call 1, pending/active subscription 2, unsubscribe awaiting its ack 2, pending batch 1, handler 1), and all are 0 at the end; \
		hook-free cross-check: a late response bearing any id used by finished work must make the client abandon the connection instead of being swallowed. Non-trivial = subscriptions ended by >= 2 different paths in one history; distinct by case value."
		.into();
	ctx.assumptions = vec!["table sizes are read through the verif-hooks accessor (weak reference); without the feature only the late-response probe runs".into()];
	let cyc = cycles(ctx.tier);
	ctx.run_cases_parallel(&Tables, cyc, 16);
	ctx.run_sub(&Tables);
	ctx.run_sub(&FullQueueTables);
	ctx.run_sub(&HandlerDroppedWithFullQueue);
}

pub fn replay(file: &serde_json::Value) -> Option<i32> {
	replay_with(&Tables, file, "C18").or_else(|| replay_with(&FullQueueTables, file, "C18")).or_else(|| replay_with(&HandlerDroppedWithFullQueue, file, "C18"))
}


// ---------------------------------------------------------------------------------------------
// a notification handler given up while the request queue is full
// ---------------------------------------------------------------------------------------------

#[derive(Clone, Debug, Serialize, Deserialize)]
pub struct HandlerDropCase {
	/// 0 = the registration future is dropped while the registration is still queued,
	/// 1 = the registered handler is dropped while the queue is full (its unregister notice is lost)
	pub how: u8,
	pub pushes: u8,
	pub packed: bool,
	pub id_kind: IdK,
}

pub struct HandlerDroppedWithFullQueue;

impl SubCheck for HandlerDroppedWithFullQueue {
	type Case = HandlerDropCase;
	fn name(&self) -> &'static str {
		"handler-given-up-with-full-queue"
	}
	fn cases(&self, tier: Tier) -> u32 {
		tier.pick(2_000, 40_000)
	}
	fn strategy(&self, _tier: Tier) -> BoxedStrategy<HandlerDropCase> {
		(0u8..2, 1u8..4, any::<bool>(), prop_oneof![Just(IdK::Number), Just(IdK::String)]).prop_map(|(how, pushes, packed, id_kind)| HandlerDropCase { how, pushes, packed, id_kind }).boxed()
	}
	fn run(&self, case: &HandlerDropCase, obs: &mut Obs) {
		use jsonrpsee_core::client::{ClientT, SubscriptionClientT};
		let rt = rt();
		rt.block_on(async {
			let mc = MockClient::new(ClientCfg { id_kind: case.id_kind, max_concurrent_requests: 1, ..ClientCfg::default() });
			let desc = || format!("case={case:?}");
			let mut handler = None;
			if case.how == 1 {
				match mc.client.subscribe_to_method::<Value>("evt").await {
					Ok(h) => handler = Some(h),
					Err(e) => {
						obs.fail("c18/register-handler-failed", format!("{e:?}; {}", desc()));
						return;
					}
				}
			}
			// call A hangs inside the transport's send, call B fills the only slot of the request queue
			mc.shared.send_plans.lock().push_back(SendPlan::Gate("g".into()));
			let (ca, cb) = (mc.client.clone(), mc.client.clone());
			let ta = tokio::spawn(async move { ca.request::<Value, _>("call_a", jsonrpsee_core::rpc_params![]).await.is_ok() });
			settle().await;
			let tb = tokio::spawn(async move { cb.request::<Value, _>("call_b", jsonrpsee_core::rpc_params![]).await.is_ok() });
			settle().await;
			if case.how == 1 {
				// the unregister notice does not fit into the queue
				drop(handler.take());
			} else {
				// the registration waits for room in the queue; its caller gives up
				let c = mc.client.clone();
				let t = tokio::spawn(async move { c.subscribe_to_method::<Value>("evt").await.map(|_| ()) });
				settle().await;
				t.abort();
			}
			settle().await;
			mc.shared.gates.open("g");
			settle().await;
			let wire = mc.wire_all();
			for m in ["call_a", "call_b"] {
				if let Some(id) = wire_id_of(&wire, m) {
					mc.push_text(json!({"jsonrpc":"2.0","id":id,"result":0}).to_string());
				}
			}
			settle().await;
			let _ = (ta.now_or_never(), tb.now_or_never());
			// notifications for the method nobody listens to any more arrive
			let n = json!({"jsonrpc":"2.0","method":"evt","params":[1]});
			if case.packed && case.pushes >= 2 {
				mc.push_text(Value::Array(vec![n.clone(); case.pushes as usize]).to_string());
			} else {
				for _ in 0..case.pushes {
					mc.push_text(n.to_string());
					settle().await;
				}
			}
			settle().await;
			#[cfg(feature = "hooks")]
			{
				let sz = mc.client.verif_table_sizes();
				obs.check(sz == [0, 0, 0, 0], "c18/handler-table-not-empty", || format!("tables {sz:?} after {} notifications for a handler nobody holds any more; {}", case.pushes, desc()));
			}
			// the method name can be registered again
			match mc.client.subscribe_to_method::<Value>("evt").await {
				Ok(_h) => {}
				Err(e) => obs.fail("c18/handler-name-still-taken", format!("{e:?}; {}", desc())),
			}
			obs.check(mc.client.is_connected(), "c18/client-disconnected", || format!("{:?}; {}", mc.shared.events.lock(), desc()));
			obs.nontrivial();
			obs.class(if case.how == 1 { "handler-dropped-unregister-lost" } else { "registration-given-up-while-queued" });
		});
	}
}
