//! Shared history runner for the server-side subscription properties C04 (notifications) and C06 (bookkeeping).
//! Subscription handlers are actors (see fix::server) that do nothing until the history tells them to.

use crate::engine::*;
use crate::fix::server::*;
use proptest::prelude::*;
use serde::{Deserialize, Serialize};
use serde_json::{Value, json};
use tokio::sync::oneshot;

#[derive(Clone, Debug, Serialize, Deserialize, PartialEq)]
pub enum Target {
	/// the subscription id of instance #k (any connection)
	Inst(u16),
	Stale,
	Garbage(u8),
}

#[derive(Clone, Debug, Serialize, Deserialize, PartialEq)]
pub enum H {
	Subscribe {
		conn: u8,
		b: bool,
		/// ask the id provider to hand out the id of instance #k again (only done when that is legitimate: the
		/// earlier subscription is on another connection, or it is over - unsubscribed or its handler let go)
		#[serde(default)]
		reuse: Option<u16>,
	},
	Act { inst: u16, cmd: Cmd },
	Unsub { conn: u8, target: Target, other_family: bool },
	PeerClose { conn: u8, abrupt: bool },
	/// the peer of this slot goes away (if it is still there) and a new peer connects in its place: a new connection,
	/// which has nothing to do with the subscriptions of the old one
	Reconnect { conn: u8 },
	Stop,
	PauseRead { conn: u8 },
	ResumeRead { conn: u8 },
	/// several steps issued back to back, settling only afterwards
	Burst(Vec<H>),
}

#[derive(Clone, Debug, Serialize, Deserialize)]
pub struct SubCase {
	pub conns: u8,
	pub cap: u32,
	pub buf: u32,
	pub string_ids: bool,
	pub steps: Vec<H>,
	/// run the history once per position with an abrupt drop of connection 0 injected there
	pub sweep_drop: bool,
	/// host the connections through the low-level `ws::connect` entry point
	#[serde(default)]
	pub lowlevel: bool,
	/// every connection's service is built by `builder.clone().set_rpc_middleware(..).build(..)` (0 = no, 1 = rpc, 2 = http, 3 = both)
	#[serde(default)]
	pub per_conn_middleware: u8,
	/// string subscription ids that need escaping
	#[serde(default)]
	pub id_escapes: bool,
}

#[derive(Clone, Debug, PartialEq)]
pub enum Phase {
	Pending,
	Accepted,
	Rejected,
	DroppedPending,
	AcceptFailed,
}

#[derive(Clone, Debug)]
pub struct Inst {
	/// generation of the connection slot this instance belongs to (slots are re-used by `Reconnect`)
	pub cgen: u32,
	pub conn: usize,
	pub b: bool,
	pub req_id: String,
	pub phase: Phase,
	pub sub_id: Option<Value>,
	pub sinks_live: usize,
	pub clone_dropped: bool,
	pub returned: Option<Cmd>,
	pub unsubscribed: bool,
	pub close_observed: bool,
	/// (n, ack) of every commanded send, in command order
	pub sends: Vec<(u32, Option<Ack>, bool /*issued after a close event was observed*/)>,
	pub actor_busy: bool,
}

pub struct ConnM {
	pub cgen: u32,
	pub ws: Option<WsPeer>,
	pub open: bool,
	pub frames: Vec<Value>,
	pub reading_paused: bool,
	pub closed_by_stop: bool,
}

pub struct PendingAck {
	pub inst: usize,
	pub cmd: Cmd,
	pub rx: oneshot::Receiver<Ack>,
	pub send_slot: Option<usize>,
}

pub struct SubWorld {
	pub fix: Fixture,
	pub conns: Vec<ConnM>,
	pub insts: Vec<Inst>,
	pub pending: Vec<PendingAck>,
	pub acks: Vec<(usize, Cmd, Ack)>,
	pub n: u32,
	pub req_no: u32,
	pub stopped: bool,
	pub unsub_results: Vec<(usize, Value, String, Option<Value>)>,
	pub refusals: Vec<(usize, bool)>,
	pub failures: Vec<(String, String)>,
	pub exact: bool,
	pub cap: u32,
	/// how many subscriptions were given an id that an earlier one had
	pub reused: u32,
	pub reconnects: u32,
	duplex: usize,
	lowlevel: bool,
}

fn family(b: bool) -> (&'static str, &'static str, &'static str) {
	if b { ("sub_b", "unsub_b", "notif_b") } else { ("sub_a", "unsub_a", "notif_a") }
}

impl SubWorld {
	pub async fn new(case: &SubCase, duplex: usize, exact: bool) -> SubWorld {
		// (for half of the cases the server is configured WebSocket-only, by a setter applied somewhere among the others)
		let fix = Fixture::new_with(Cfg { max_subs: case.cap, buffer_capacity: case.buf.max(1), via_set_rpc_middleware: case.per_conn_middleware & 1 != 0, via_set_http_middleware: case.per_conn_middleware & 2 != 0, id_escapes: case.id_escapes, mode: if (case.cap as u64 + case.buf as u64) % 2 == 1 { 2 } else { 0 }, ..Cfg::default() }, case.string_ids);
		let mut conns = vec![];
		for _ in 0..case.conns.clamp(1, 3) {
			let ws = if case.lowlevel { fix.ws_lowlevel().await.ok() } else { fix.ws_with(duplex).await.ok() };
			conns.push(ConnM { cgen: 0, open: ws.is_some(), ws, frames: vec![], reading_paused: false, closed_by_stop: false });
		}
		SubWorld { fix, conns, insts: vec![], pending: vec![], acks: vec![], n: 0, req_no: 0, stopped: false, unsub_results: vec![], refusals: vec![], failures: vec![], exact, cap: case.cap, reused: 0, reconnects: 0, duplex, lowlevel: case.lowlevel }
	}

	/// the connection this instance was made on is still there
	pub fn alive(&self, x: &Inst) -> bool {
		self.conns[x.conn].open && self.conns[x.conn].cgen == x.cgen
	}

	pub fn held_permits(&self, conn: usize) -> usize {
		self.insts
			.iter()
			.filter(|i| i.conn == conn && i.cgen == self.conns[conn].cgen)
			.filter(|i| match i.phase {
				Phase::Pending => i.returned.is_none(),
				Phase::Accepted => i.sinks_live > 0 && i.returned.is_none(),
				_ => false,
			})
			.count()
	}

	/// "active" as the property states it
	pub fn active(&self, i: usize) -> bool {
		let x = &self.insts[i];
		x.phase == Phase::Accepted && !x.unsubscribed && self.alive(x) && !self.stopped && x.sinks_live > 0 && x.returned.is_none()
	}

	pub fn model_closed(&self, i: usize) -> bool {
		let x = &self.insts[i];
		x.unsubscribed || !self.alive(x) || self.stopped
	}

	pub async fn drain(&mut self) {
		for (ci, c) in self.conns.iter_mut().enumerate() {
			if let Some(ws) = c.ws.as_mut() {
				for e in ws.drain() {
					match e {
						WsEvent::Text(t) => match serde_json::from_str::<Value>(&t) {
							Ok(v) => c.frames.push(v),
							Err(_) => self.failures.push(("subs/frame-not-json".into(), format!("conn {ci}: {t}"))),
						},
						WsEvent::Closed | WsEvent::Error(_) => {
							if c.open && !self.stopped {
								// the server closed a connection nobody asked it to close
								self.failures.push(("subs/connection-closed-by-server".into(), format!("conn {ci}: {e:?}")));
							}
							c.open = false;
						}
						WsEvent::Binary(_) => self.failures.push(("subs/binary-frame".into(), format!("conn {ci}"))),
					}
				}
			}
		}
		// acknowledgements that have arrived
		let mut still = vec![];
		for mut p in std::mem::take(&mut self.pending) {
			match p.rx.try_recv() {
				Ok(a) => {
					self.apply_ack(p.inst, &p.cmd, a.clone(), p.send_slot);
					self.acks.push((p.inst, p.cmd, a));
				}
				Err(oneshot::error::TryRecvError::Empty) => still.push(p),
				Err(oneshot::error::TryRecvError::Closed) => {
					// actor gone (returned) before handling it
				}
			}
		}
		self.pending = still;
		for i in 0..self.insts.len() {
			self.insts[i].actor_busy = self.pending.iter().any(|p| p.inst == i);
		}
	}

	fn apply_ack(&mut self, inst: usize, cmd: &Cmd, ack: Ack, send_slot: Option<usize>) {
		let x = &mut self.insts[inst];
		match (&ack, cmd) {
			(Ack::Accepted(id), _) => {
				x.phase = Phase::Accepted;
				x.sub_id = Some(id.clone());
				x.sinks_live = 1;
			}
			(Ack::AcceptFailed, _) => x.phase = Phase::AcceptFailed,
			(Ack::Rejected, _) => x.phase = Phase::Rejected,
			(Ack::Dropped, _) => x.phase = Phase::DroppedPending,
			(Ack::Cloned(_), _) => x.sinks_live += 1,
			(Ack::SinkDropped(_), _) => {
				x.sinks_live = x.sinks_live.saturating_sub(1);
				if x.sinks_live > 0 {
					x.clone_dropped = true;
				}
			}
			(Ack::Returned, c) => {
				x.returned = Some(c.clone());
				x.sinks_live = 0;
			}
			(Ack::ClosedReady(true), _) | (Ack::Closed(true), _) => x.close_observed = true,
			_ => {}
		}
		if let Some(s) = send_slot {
			x.sends[s].1 = Some(ack);
		}
	}

	pub async fn command(&mut self, inst: usize, cmd: Cmd) {
		let Some(tx) = self.fix.ctx.actors.lock().get(inst).map(|a| a.tx.clone()) else { return };
		let (atx, arx) = oneshot::channel();
		let mut cmd = cmd;
		let mut send_slot = None;
		match &mut cmd {
			Cmd::Send(n) | Cmd::TrySend(n) | Cmd::SendTimeout(n) => {
				self.n += 1;
				*n = self.n;
				let after_close = self.insts[inst].close_observed || self.insts[inst].unsubscribed_observed();
				self.insts[inst].sends.push((*n, None, after_close));
				send_slot = Some(self.insts[inst].sends.len() - 1);
			}
			Cmd::ReturnErr(n) | Cmd::ReturnNotif(n) => {
				self.n += 1;
				*n = self.n;
			}
			_ => {}
		}
		if tx.send((cmd.clone(), atx)).is_ok() {
			self.pending.push(PendingAck { inst, cmd, rx: arx, send_slot });
		}
	}

	pub async fn step(&mut self, h: &H, settle_after: bool) {
		match h {
			H::Subscribe { conn, b, reuse } => {
				let ci = *conn as usize % self.conns.len();
				if !self.conns[ci].open || self.stopped {
					return;
				}
				if let (Some(k), false) = (reuse, self.insts.is_empty()) {
					let i = pick_idx(*k, self.insts.len());
					if let Some(id) = self.insts[i].sub_id.clone() {
						// every subscription of this connection that has (or may still get) that id must be over
						let cgen = self.conns[ci].cgen;
						let free = self.insts.iter().all(|x| {
							x.conn != ci
								|| x.cgen != cgen
								|| match x.phase {
									Phase::Pending => false,
									Phase::Accepted => x.sub_id.as_ref() != Some(&id) || x.unsubscribed || x.returned.is_some() || x.sinks_live == 0,
									_ => true,
								}
						}) && self.pending.is_empty();
						if free && self.exact {
							self.fix.forced_ids.lock().push_back(id);
							self.reused += 1;
						}
					}
				}
				self.req_no += 1;
				let rid = format!("sub-req-{}", self.req_no);
				let actors_before = self.fix.ctx.actors.lock().len();
				let held = self.held_permits(ci);
				let msg = json!({"jsonrpc":"2.0","id":rid,"method":family(*b).0});
				if let Some(ws) = self.conns[ci].ws.as_mut() {
					let _ = ws.send_text(&msg.to_string()).await;
				}
				// the subscribe call must be observed before anything else happens to the model
				settle().await;
				self.drain().await;
				let actors_after = self.fix.ctx.actors.lock().len();
				self.fix.forced_ids.lock().clear();
				let refused = self.conns[ci].frames.iter().any(|f| f["id"] == json!(rid) && f["error"]["code"] == json!(-32006));
				if actors_after > actors_before {
					self.insts.push(Inst { cgen: self.conns[ci].cgen, conn: ci, b: *b, req_id: rid.clone(), phase: Phase::Pending, sub_id: None, sinks_live: 0, clone_dropped: false, returned: None, unsubscribed: false, close_observed: false, sends: vec![], actor_busy: false });
				}
				if self.exact {
					let want_refused = held as u32 >= self.cap;
					self.refusals.push((ci, refused));
					if refused != want_refused || (actors_after > actors_before) == want_refused {
						self.failures.push((
							if want_refused { "c06/subscribe-beyond-cap-not-refused".into() } else { "c06/subscribe-refused-although-slot-free".into() },
							format!("conn {ci}: {held} permits held by the model, cap {}; refused={refused}, handler started={}", self.cap, actors_after > actors_before),
						));
					}
				}
			}
			H::Act { inst, cmd } => {
				if self.insts.is_empty() {
					return;
				}
				let i = pick_idx(*inst, self.insts.len());
				self.command(i, cmd.clone()).await;
			}
			H::Unsub { conn, target, other_family } => {
				let ci = *conn as usize % self.conns.len();
				if !self.conns[ci].open || self.stopped {
					return;
				}
				let (x, fam_b, target_inst) = match target {
					Target::Inst(k) if !self.insts.is_empty() => {
						let i = pick_idx(*k, self.insts.len());
						match &self.insts[i].sub_id {
							Some(id) => (id.clone(), self.insts[i].b ^ *other_family, Some(i)),
							None => (json!(999_999), *other_family, None),
						}
					}
					Target::Inst(_) | Target::Stale => (json!(424_242), *other_family, None),
					Target::Garbage(k) => (
						match k % 4 {
							0 => json!(true),
							1 => json!({"a":1}),
							2 => json!([1]),
							_ => Value::Null,
						},
						*other_family,
						None,
					),
				};
				self.req_no += 1;
				let rid = format!("unsub-req-{}", self.req_no);
				// the request names an id, not an instance: it hits whichever subscription of this connection and family
				// is active under that id right now (ids may be handed out again)
				let hit = (0..self.insts.len()).find(|&j| self.insts[j].conn == ci && self.insts[j].cgen == self.conns[ci].cgen && self.insts[j].b == fam_b && self.insts[j].sub_id.as_ref() == Some(&x) && self.active(j));
				let want_true = hit.is_some();
				let msg = json!({"jsonrpc":"2.0","id":rid,"method":family(fam_b).1,"params":[x]});
				if let Some(ws) = self.conns[ci].ws.as_mut() {
					let _ = ws.send_text(&msg.to_string()).await;
				}
				if self.exact {
					settle().await;
					self.drain().await;
					let reply = self.conns[ci].frames.iter().find(|f| f["id"] == json!(rid)).cloned();
					let got = reply.as_ref().and_then(|r| r.get("result")).and_then(|r| r.as_bool());
					if got != Some(want_true) {
						let i = target_inst;
						let sig = if i.is_some_and(|i| self.insts[i].clone_dropped) && want_true { "c06/sink-clone-drop-closes-subscription" } else if want_true { "c06/unsubscribe-of-active-subscription-false" } else { "c06/unsubscribe-true-for-inactive-subscription" };
						self.failures.push((sig.into(), format!("unsubscribe({x}) via {} on conn {ci} answered {reply:?}, model says {want_true}; target instance {:?}", family(fam_b).1, i.map(|i| self.insts[i].clone()))));
					}
					if got == Some(true) {
						if let Some(i) = hit.or(target_inst) {
							self.insts[i].unsubscribed = true;
						}
					}
				} else {
					self.unsub_results.push((ci, x, rid, target_inst.map(|i| json!(i))));
				}
			}
			H::PeerClose { conn, abrupt } => {
				let ci = *conn as usize % self.conns.len();
				if !self.conns[ci].open {
					return;
				}
				settle().await;
				self.drain().await;
				if let Some(ws) = self.conns[ci].ws.as_mut() {
					if *abrupt {
						ws.abort();
					} else {
						ws.close().await;
					}
				}
				self.conns[ci].open = false;
			}
			H::Reconnect { conn } => {
				let ci = *conn as usize % self.conns.len();
				if self.stopped {
					return;
				}
				settle().await;
				self.drain().await;
				if self.conns[ci].open {
					if let Some(ws) = self.conns[ci].ws.as_mut() {
						ws.abort();
					}
					self.conns[ci].open = false;
					settle().await;
					self.drain().await;
				}
				let ws = if self.lowlevel { self.fix.ws_lowlevel().await.ok() } else { self.fix.ws_with(self.duplex).await.ok() };
				let cgen = self.conns[ci].cgen + 1;
				self.conns[ci] = ConnM { cgen, open: ws.is_some(), ws, frames: vec![], reading_paused: false, closed_by_stop: false };
				self.reconnects += 1;
			}
			H::Stop => {
				if !self.stopped {
					settle().await;
					self.drain().await;
					let _ = self.fix.handle.stop();
					self.stopped = true;
				}
			}
			H::PauseRead { conn } => {
				let ci = *conn as usize % self.conns.len();
				if let Some(ws) = self.conns[ci].ws.as_ref() {
					ws.read_gate.pause();
					self.conns[ci].reading_paused = true;
				}
			}
			H::ResumeRead { conn } => {
				let ci = *conn as usize % self.conns.len();
				if let Some(ws) = self.conns[ci].ws.as_ref() {
					ws.read_gate.resume();
					self.conns[ci].reading_paused = false;
				}
			}
			H::Burst(steps) => {
				for s in steps {
					if !matches!(s, H::Burst(_)) {
						Box::pin(self.step(s, false)).await;
					}
				}
			}
		}
		if settle_after {
			settle().await;
			self.drain().await;
		}
	}

	/// resume all readers, let everything finish, collect the rest
	pub async fn finish(&mut self) {
		for c in self.conns.iter_mut() {
			if let Some(ws) = c.ws.as_ref() {
				ws.read_gate.resume();
			}
			c.reading_paused = false;
		}
		settle().await;
		self.drain().await;
		// resolve the non-exact unsubscribe results
		for (ci, x, rid, _) in std::mem::take(&mut self.unsub_results) {
			let reply = self.conns[ci].frames.iter().find(|f| f["id"] == json!(rid)).cloned();
			if let Some(true) = reply.as_ref().and_then(|r| r.get("result")).and_then(|r| r.as_bool()) {
				for i in self.insts.iter_mut() {
					if i.sub_id.as_ref() == Some(&x) && i.conn == ci {
						i.unsubscribed = true;
					}
				}
			}
		}
	}
}

impl Inst {
	fn unsubscribed_observed(&self) -> bool {
		self.unsubscribed
	}
}

// ---------------------------------------------------------------------------------------------
// generators
// ---------------------------------------------------------------------------------------------

pub fn arb_cmd() -> BoxedStrategy<Cmd> {
	prop_oneof![
		6 => Just(Cmd::Accept),
		1 => Just(Cmd::Reject(-32077)),
		1 => Just(Cmd::DropPending),
		8 => Just(Cmd::Send(0)),
		3 => Just(Cmd::TrySend(0)),
		2 => Just(Cmd::CloneSink),
		2 => (0u8..4).prop_map(Cmd::DropSink),
		3 => Just(Cmd::IsClosed),
		2 => Just(Cmd::PollClosed),
		1 => Just(Cmd::ReturnOk),
		1 => Just(Cmd::ReturnErr(0)),
		1 => Just(Cmd::ReturnNotif(0)),
	]
	.boxed()
}

/// command mix for the notification property: mostly sends
pub fn arb_cmd_sends() -> BoxedStrategy<Cmd> {
	prop_oneof![
		2 => Just(Cmd::Accept),
		1 => Just(Cmd::Reject(-32077)),
		14 => Just(Cmd::Send(0)),
		4 => Just(Cmd::TrySend(0)),
		4 => Just(Cmd::SendTimeout(0)),
		1 => Just(Cmd::CloneSink),
		1 => (0u8..4).prop_map(Cmd::DropSink),
		2 => Just(Cmd::IsClosed),
		3 => Just(Cmd::PollClosed),
		1 => Just(Cmd::ReturnOk),
		1 => Just(Cmd::ReturnErr(0)),
		1 => Just(Cmd::ReturnNotif(0)),
	]
	.boxed()
}

pub fn arb_step(with_pauses: bool) -> BoxedStrategy<H> {
	let conn = if with_pauses { prop_oneof![3 => Just(0u8), 1 => 0u8..3].boxed() } else { (0u8..3).boxed() };
	let cmd = if with_pauses { arb_cmd_sends() } else { arb_cmd() };
	let base = prop_oneof![
		5 => (conn, any::<bool>(), proptest::option::weighted(0.25, any::<u16>())).prop_map(|(conn, b, reuse)| H::Subscribe { conn, b, reuse }),
		14 => (any::<u16>(), cmd).prop_map(|(inst, cmd)| H::Act { inst, cmd }),
		4 => (0u8..3, prop_oneof![6 => any::<u16>().prop_map(Target::Inst), 1 => Just(Target::Stale), 1 => (0u8..4).prop_map(Target::Garbage)], proptest::bool::weighted(0.1)).prop_map(|(conn, target, other_family)| H::Unsub { conn, target, other_family }),
		1 => (0u8..3, any::<bool>()).prop_map(|(conn, abrupt)| H::PeerClose { conn, abrupt }),
	];
	if !with_pauses {
		return prop_oneof![20 => base, 1 => (0u8..3).prop_map(|conn| H::Reconnect { conn })].boxed();
	}
	if with_pauses {
		prop_oneof![
			20 => base.clone(),
			1 => (0u8..3).prop_map(|conn| H::PauseRead { conn }),
			2 => (0u8..3).prop_map(|conn| H::ResumeRead { conn }),
			4 => proptest::collection::vec(base, 2..6).prop_map(H::Burst),
		]
		.boxed()
	} else {
		base.boxed()
	}
}
