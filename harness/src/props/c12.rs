//! C12 — client: batch results are positional (WebSocket/async client and HTTP client).

use crate::engine::*;
use crate::fix::client::*;
use crate::fix::server::{rt, settle};
use crate::props::c03::{OpKind, Outcome, World};
use jsonrpsee_core::client::ClientT;
use jsonrpsee_core::params::BatchRequestBuilder;
use jsonrpsee_core::rpc_params;
use proptest::prelude::*;
use serde::{Deserialize, Serialize};
use serde_json::{Value, json};
use std::sync::Arc;

#[derive(Clone, Debug, Serialize, Deserialize, PartialEq)]
pub enum RE {
	Own(u8),
	Below,
	Above(u8),
	Max,
	NonNumeric,
	NullId,
	/// an id of the other in-flight batch (WS only)
	Other(u8),
}

#[derive(Clone, Copy, Debug, Serialize, Deserialize, PartialEq)]
pub enum Which {
	Ws { others: bool },
	Http,
}

#[derive(Clone, Debug, Serialize, Deserialize)]
pub struct C12Case {
	pub n: u8,
	pub reply: Vec<RE>,
	pub errs: u16,
	pub id_kind: IdK,
	pub which: Which,
	/// HTTP: how many requests were made before (moves the id range away from 0)
	pub warmup: u8,
}

pub struct Positional;

fn is_full_permutation(reply: &[RE], n: usize) -> bool {
	if reply.len() != n {
		return false;
	}
	let mut seen = vec![false; n];
	for r in reply {
		match r {
			RE::Own(i) if (*i as usize) < n && !seen[*i as usize] => seen[*i as usize] = true,
			_ => return false,
		}
	}
	true
}

type Stamp = Result<Value, (i32, String)>;

/// Build the reply array for a batch whose wire ids are `ids`; returns (array, stamps per own index).
fn build_reply(case: &C12Case, ids: &[Value], other_ids: &[Value], nonce: &mut u64) -> (Vec<Value>, Vec<Vec<Stamp>>) {
	let n = ids.len();
	let as_num = |v: &Value| -> u64 { v.as_u64().or_else(|| v.as_str().and_then(|s| s.parse().ok())).unwrap_or(0) };
	let start = as_num(&ids[0]);
	let mk_id = |x: u64| -> Value { if case.id_kind == IdK::Number { json!(x) } else { json!(x.to_string()) } };
	let mut stamps: Vec<Vec<Stamp>> = vec![vec![]; n];
	let mut arr = vec![];
	for (k, r) in case.reply.iter().enumerate() {
		*nonce += 1;
		let nn = *nonce;
		let is_err = (case.errs >> (k % 16)) & 1 == 1;
		let (body, stamp): (Value, Stamp) = if is_err {
			(json!({"error":{"code": 2000 + nn as i32, "message": format!("e{nn}")}}), Err((2000 + nn as i32, format!("e{nn}"))))
		} else {
			(json!({"result": {"nonce": nn}}), Ok(json!({"nonce": nn})))
		};
		let id = match r {
			RE::Own(i) => {
				let i = *i as usize % n;
				stamps[i].push(stamp);
				ids[i].clone()
			}
			RE::Below => {
				if start == 0 {
					mk_id(start + n as u64 + 7)
				} else {
					mk_id(start - 1)
				}
			}
			RE::Above(d) => mk_id(start + n as u64 + *d as u64),
			RE::Max => mk_id(u64::MAX),
			RE::NonNumeric => json!("abc"),
			RE::NullId => Value::Null,
			RE::Other(i) => {
				if other_ids.is_empty() {
					mk_id(start + n as u64 + 3)
				} else {
					other_ids[*i as usize % other_ids.len()].clone()
				}
			}
		};
		let mut b = body;
		b["jsonrpc"] = json!("2.0");
		b["id"] = id;
		arr.push(b);
	}
	(arr, stamps)
}

fn judge(obs: &mut Obs, which: &str, case: &C12Case, n: usize, full: bool, stamps: &[Vec<Stamp>], out: &Option<Outcome>, desc: &dyn Fn() -> String) {
	match out {
		None => {
			obs.check(!full, &format!("c12/{which}-full-reply-left-call-pending"), desc);
			// a reply the client cannot attribute leaves the call pending only while the connection stays up (judged by C09/C03)
		}
		Some(Outcome::BatchCounts(d)) => obs.fail(format!("c12/{which}-counts-mismatch"), format!("{d}; {}", desc())),
		Some(Outcome::BatchOk(entries)) => {
			if entries.len() != n {
				obs.fail(format!("c12/{which}-shorter-list"), format!("{} entries for {n} requests; {}", entries.len(), desc()));
				return;
			}
			for (i, e) in entries.iter().enumerate() {
				let own = stamps[i].iter().any(|s| s == e);
				let others = stamps.iter().enumerate().any(|(j, ss)| j != i && ss.iter().any(|s| s == e));
				if full {
					obs.check(stamps[i].len() == 1 && *e == stamps[i][0], &format!("c12/{which}-entry-not-positional"), || format!("entry {i} = {e:?}, stamped {:?}; {}", stamps[i], desc()));
				} else if stamps[i].len() == 1 && *e != stamps[i][0] && !others {
					// the reply answers this entry exactly once: whatever is wrong with the reply concerns other entries, and
					// a call that succeeds reports this entry's own outcome
					obs.fail(format!("c12/{which}-singly-answered-entry-lost"), format!("entry {i} = {e:?}, the reply answers it once with {:?}; {}", stamps[i][0], desc()));
				} else if others && !own {
					obs.fail(format!("c12/{which}-entry-filled-with-another-entrys-answer"), format!("entry {i} = {e:?}; {}", desc()));
				} else if !own {
					obs.check(e.is_err(), &format!("c12/{which}-entry-invented"), || format!("entry {i} = {e:?}; {}", desc()));
				}
			}
		}
		Some(Outcome::Failed(_)) | Some(Outcome::CallErr(..)) => {
			obs.check(!full, &format!("c12/{which}-full-reply-failed"), || format!("{out:?}; {}", desc()));
		}
		Some(other) => obs.fail(format!("c12/{which}-unexpected-outcome"), format!("{other:?}; {}", desc())),
	}
	let _ = case;
}

// ---- HTTP mock backend ---------------------------------------------------------------------

#[derive(Clone)]
pub struct HMock {
	pub handler: Arc<dyn Fn(Value) -> (u16, Vec<u8>) + Send + Sync>,
}

impl tower::Service<jsonrpsee_http_client::HttpRequest> for HMock {
	type Response = jsonrpsee_http_client::HttpResponse;
	type Error = jsonrpsee_http_client::transport::Error;
	type Future = std::pin::Pin<Box<dyn Future<Output = Result<Self::Response, Self::Error>> + Send>>;
	fn poll_ready(&mut self, _: &mut std::task::Context<'_>) -> std::task::Poll<Result<(), Self::Error>> {
		std::task::Poll::Ready(Ok(()))
	}
	fn call(&mut self, req: jsonrpsee_http_client::HttpRequest) -> Self::Future {
		let h = self.handler.clone();
		Box::pin(async move {
			use http_body_util::BodyExt;
			let bytes = req.into_body().collect().await.map(|c| c.to_bytes().to_vec()).unwrap_or_default();
			let v: Value = serde_json::from_slice(&bytes).unwrap_or(Value::Null);
			let (status, body) = h(v);
			Ok(::http::Response::builder().status(status).header("content-type", "application/json").body(jsonrpsee_http_client::HttpBody::from(body)).unwrap())
		})
	}
}

/// `variant`: bit 0 = an RPC middleware layer (a second logger) is set, bit 1 = the id format is chosen after the
/// middleware setters instead of before them (no setter may reset another)
pub fn http_client(id_kind: IdK, mock: HMock, variant: u8) -> jsonrpsee_http_client::HttpClient<impl jsonrpsee_core::middleware::RpcServiceT<
	MethodResponse = Result<jsonrpsee_core::client::MiddlewareMethodResponse, jsonrpsee_core::client::Error>,
	BatchResponse = Result<jsonrpsee_core::client::MiddlewareBatchResponse, jsonrpsee_core::client::Error>,
	NotificationResponse = Result<jsonrpsee_core::client::MiddlewareNotifResponse, jsonrpsee_core::client::Error>,
> + Send + Sync> {
	use jsonrpsee_core::middleware::{RpcServiceBuilder, layer::RpcLoggerLayer};
	let kind = match id_kind {
		IdK::Number => jsonrpsee_core::client::IdKind::Number,
		IdK::String => jsonrpsee_core::client::IdKind::String,
	};
	let rpc = RpcServiceBuilder::new().option_layer(if variant & 1 == 1 { Some(RpcLoggerLayer::new(16)) } else { None });
	let http = tower::ServiceBuilder::new().layer_fn(move |_backend: jsonrpsee_http_client::HttpBackend| mock.clone());
	let b = jsonrpsee_http_client::HttpClientBuilder::new();
	let b = if variant & 2 == 0 { b.id_format(kind).set_http_middleware(http).set_rpc_middleware(rpc) } else { b.set_rpc_middleware(rpc).set_http_middleware(http).id_format(kind) };
	b.build("http://localhost:9999").expect("http client")
}

impl SubCheck for Positional {
	type Case = C12Case;
	fn name(&self) -> &'static str {
		"positional"
	}
	fn cases(&self, tier: Tier) -> u32 {
		tier.pick(300_000, 6_000_000)
	}
	fn strategy(&self, tier: Tier) -> BoxedStrategy<C12Case> {
		let maxn = tier.pick(5u8, 8);
		let re = prop_oneof![
			10 => (0u8..8).prop_map(RE::Own),
			1 => Just(RE::Below),
			1 => (0u8..3).prop_map(RE::Above),
			1 => Just(RE::Max),
			1 => Just(RE::NonNumeric),
			1 => Just(RE::NullId),
			1 => (0u8..4).prop_map(RE::Other),
		];
		(1u8..=maxn, proptest::collection::vec(re, 0..10), proptest::collection::vec(any::<u16>(), 8), any::<bool>(), any::<u16>(), prop_oneof![Just(IdK::Number), Just(IdK::String)], prop_oneof![Just(Which::Ws { others: false }), Just(Which::Ws { others: true }), Just(Which::Http)], 0u8..4)
			.prop_map(|(n, mut reply, perm, full, errs, id_kind, which, warmup)| {
				if full {
					let p = crate::props::c03::perm_from(&perm, n as usize);
					reply = p.into_iter().map(|i| RE::Own(i as u8)).collect();
				} else {
					for r in reply.iter_mut() {
						if let RE::Own(i) = r {
							*i %= n;
						}
					}
				}
				C12Case { n, reply, errs, id_kind, which, warmup }
			})
			.boxed()
	}
	fn run(&self, case: &C12Case, obs: &mut Obs) {
		let n = case.n as usize;
		let full = is_full_permutation(&case.reply, n);
		let identity = case.reply.iter().enumerate().all(|(i, r)| *r == RE::Own(i as u8));
		if n >= 2 && !identity {
			obs.nontrivial();
		}
		obs.class(if full { "full-permutation" } else { "incomplete-or-foreign" });
		obs.class(match case.which {
			Which::Ws { others: false } => "ws",
			Which::Ws { others: true } => "ws-with-others-in-flight",
			Which::Http => "http",
		});
		if !full {
			if case.reply.iter().any(|r| !matches!(r, RE::Own(_))) {
				obs.class("foreign-id");
			}
			let mut c = vec![0; n];
			for r in &case.reply {
				if let RE::Own(i) = r {
					c[*i as usize % n] += 1;
				}
			}
			if c.iter().any(|x| *x > 1) {
				obs.class("duplicated-id");
			}
			if c.iter().any(|x| *x == 0) {
				obs.class("missing-entry");
			}
		}
		crate::panics::clear_local();
		let rt = rt();
		match case.which {
			Which::Ws { others } => rt.block_on(async {
				let mut w = World::new(ClientCfg { id_kind: case.id_kind, ..ClientCfg::default() });
				if others {
					w.spawn_batch(3);
					settle().await;
					for _ in 0..3 {
						w.spawn_notify();
					}
					settle().await;
					w.spawn_call();
					settle().await;
				}
				w.spawn_batch(n);
				let target = w.ops.len() - 1;
				settle().await;
				w.read_wire();
				let ids: Vec<Value> = w.ops[target].wire_ids.iter().map(|x| x.clone().unwrap_or(Value::Null)).collect();
				let other_ids: Vec<Value> = if others { w.ops[0].wire_ids.iter().map(|x| x.clone().unwrap_or(Value::Null)).collect() } else { vec![] };
				let mut nonce = 100;
				let (arr, stamps) = build_reply(case, &ids, &other_ids, &mut nonce);
				w.mc.push_text(Value::Array(arr.clone()).to_string());
				settle().await;
				let outs = w.outcomes().await;
				let desc = || format!("ws n={n} ids={ids:?} reply={} case={case:?}", Value::Array(arr.clone()));
				judge(obs, "ws", case, n, full, &stamps, &outs[target], &desc);
				if full && others {
					// the other in-flight work is untouched and can still be answered
					obs.check(outs[0].is_none() && outs[4].is_none(), "c12/ws-other-inflight-work-disturbed", || format!("{:?} {:?}; {}", outs[0], outs[4], desc()));
					w.answer_batch(0, &[2, 0, 1], &[false, true, false]);
					w.answer_single(4, false);
					settle().await;
					let outs2 = w.outcomes().await;
					let want0: Vec<Stamp> = w.ops[0].stamped.iter().map(|s| s.clone().unwrap()).collect();
					obs.check(outs2[0] == Some(Outcome::BatchOk(want0.clone())), "c12/ws-other-batch-wrong", || format!("{:?} vs {want0:?}", outs2[0]));
					let want4 = w.ops[4].stamped[0].clone().unwrap().unwrap();
					obs.check(outs2[4] == Some(Outcome::CallOk(want4.clone())), "c12/ws-other-call-wrong", || format!("{:?} vs {want4:?}", outs2[4]));
					debug_assert!(w.ops[4].kind == OpKind::Call);
				}
				let panics = crate::panics::take_local();
				obs.check(panics.is_empty(), "c12/background-panic", || format!("{panics:?}; {}", desc()));
			}),
			Which::Http => rt.block_on(async {
				let captured: Arc<parking_lot::Mutex<Option<(Vec<Value>, Vec<Vec<Stamp>>)>>> = Arc::new(parking_lot::Mutex::new(None));
				let cap = captured.clone();
				let case2 = case.clone();
				let mock = HMock {
					handler: Arc::new(move |req: Value| match &req {
						Value::Array(entries) => {
							let ids: Vec<Value> = entries.iter().map(|e| e["id"].clone()).collect();
							let mut nonce = 100;
							let (arr, stamps) = build_reply(&case2, &ids, &[], &mut nonce);
							*cap.lock() = Some((ids, stamps));
							(200, Value::Array(arr).to_string().into_bytes())
						}
						single => (200, json!({"jsonrpc":"2.0","id":single["id"].clone(),"result":"warm"}).to_string().into_bytes()),
					}),
				};
				let client = http_client(case.id_kind, mock, case.warmup);
				for _ in 0..case.warmup {
					let _ = client.request::<Value, _>("warmup", rpc_params![]).await;
				}
				let methods: Vec<String> = (0..n).map(|i| format!("h{i}")).collect();
				let mut b = BatchRequestBuilder::new();
				for (i, m) in methods.iter().enumerate() {
					b.insert(m, rpc_params![i]).unwrap();
				}
				let out = match client.batch_request::<Value>(b).await {
					Ok(r) => {
						match crate::props::c03::batch_views(r) {
							Ok(entries) => Outcome::BatchOk(entries),
							Err(d) => Outcome::BatchCounts(d),
						}
					}
					Err(e) => crate::props::c03::err_outcome(e),
				};
				let Some((ids, stamps)) = captured.lock().clone() else {
					obs.fail("c12/http-no-batch-on-the-wire", format!("{case:?}"));
					return;
				};
				let desc = || format!("http n={n} ids={ids:?} reply={:?} case={case:?}", case.reply);
				// ids are a contiguous range in request order
				let nums: Vec<u64> = ids.iter().map(|v| v.as_u64().or_else(|| v.as_str().and_then(|s| s.parse().ok())).unwrap_or(u64::MAX)).collect();
				obs.check(nums.windows(2).all(|w| w[1] == w[0] + 1), "c12/http-ids-not-contiguous", &desc);
				judge(obs, "http", case, n, full, &stamps, &Some(out), &desc);
			}),
		}
	}
}

// ---------------------------------------------------------------------------------------------
// typed results: an answer whose value does not decode into the caller's type
// ---------------------------------------------------------------------------------------------

#[derive(Clone, Debug, Serialize, Deserialize, PartialEq)]
pub struct Nonce {
	pub nonce: u64,
}

#[derive(Clone, Debug, Serialize, Deserialize)]
pub struct TypedCase {
	/// per entry: 0 = a value of the caller's type, 1 = a string, 2 = an object of the wrong shape, 3 = null, 4 = an error object
	pub kinds: Vec<u8>,
	pub perm: Vec<u16>,
	pub id_kind: IdK,
	pub http: bool,
}

pub struct Typed;

impl SubCheck for Typed {
	type Case = TypedCase;
	fn name(&self) -> &'static str {
		"typed-results"
	}
	fn cases(&self, tier: Tier) -> u32 {
		tier.pick(40_000, 800_000)
	}
	fn strategy(&self, _tier: Tier) -> BoxedStrategy<TypedCase> {
		(proptest::collection::vec(prop_oneof![4 => Just(0u8), 1 => Just(1u8), 1 => Just(2u8), 1 => Just(3u8), 1 => Just(4u8)], 1..6), proptest::collection::vec(any::<u16>(), 4), prop_oneof![Just(IdK::Number), Just(IdK::String)], any::<bool>())
			.prop_map(|(kinds, perm, id_kind, http)| TypedCase { kinds, perm, id_kind, http })
			.boxed()
	}
	fn run(&self, case: &TypedCase, obs: &mut Obs) {
		let n = case.kinds.len();
		let order = crate::props::c03::perm_from(&case.perm, n);
		let value_of = |i: usize| -> Value {
			match case.kinds[i] {
				0 => json!({"nonce": 100 + i}),
				1 => json!(format!("not-a-nonce-{i}")),
				2 => json!({"nonce": format!("{i}")}),
				3 => Value::Null,
				_ => Value::Null,
			}
		};
		let build = |ids: &[Value]| -> Value {
			Value::Array(
				order
					.iter()
					.map(|&i| if case.kinds[i] == 4 { json!({"jsonrpc":"2.0","id":ids[i],"error":{"code":-32050 - i as i64,"message":format!("e{i}")}}) } else { json!({"jsonrpc":"2.0","id":ids[i],"result":value_of(i)}) })
					.collect(),
			)
		};
		let undecodable = case.kinds.iter().any(|k| matches!(k, 1 | 2 | 3));
		if undecodable && n >= 2 {
			obs.nontrivial();
		}
		obs.class(if undecodable { "with-undecodable-value" } else { "all-values-decode" });
		obs.class(if case.http { "http-client" } else { "ws-client" });
		crate::panics::clear_local();
		let rt = rt();
		type Res = Result<Vec<Result<Nonce, (i32, String)>>, String>;
		let judge = |obs: &mut Obs, got: Res, desc: &dyn Fn() -> String| match got {
			Err(e) => {
				// the whole call may fail - but only if something in the reply could not be decoded
				obs.check(undecodable, "c12/typed-decodable-batch-failed", || format!("{e}; {}", desc()));
			}
			Ok(entries) => {
				if entries.len() != n {
					obs.fail("c12/typed-shorter-list", format!("{} entries for {n} requests: {entries:?}; {}", entries.len(), desc()));
					return;
				}
				for (i, e) in entries.iter().enumerate() {
					let ok = match (case.kinds[i], e) {
						(0, Ok(v)) => v.nonce == 100 + i as u64,
						(4, Err((c, m))) => *c as i64 == -32050 - i as i64 && *m == format!("e{i}"),
						(1 | 2 | 3, Err(_)) => true,
						_ => false,
					};
					if !ok {
						obs.fail("c12/typed-entry-filled-with-another-entrys-answer", format!("entry {i} = {e:?}; all = {entries:?}; {}", desc()));
						return;
					}
				}
			}
		};
		let collect = |r: jsonrpsee_core::client::BatchResponse<'_, Nonce>| -> Res {
			crate::props::c03::batch_views(r).map_err(|d| format!("COUNTS {d}"))
		};
		const NAMES: [&str; 6] = ["t0", "t1", "t2", "t3", "t4", "t5"];
		let mut b = BatchRequestBuilder::new();
		for i in 0..n {
			b.insert(NAMES[i], rpc_params![i]).unwrap();
		}
		if case.http {
			rt.block_on(async {
				let seen: Arc<parking_lot::Mutex<Option<Value>>> = Default::default();
				let seen2 = seen.clone();
				let order2 = order.clone();
				let kinds = case.kinds.clone();
				let mock = HMock {
					handler: Arc::new(move |req: Value| {
						let ids: Vec<Value> = req.as_array().map(|a| a.iter().map(|e| e["id"].clone()).collect()).unwrap_or_default();
						let arr: Vec<Value> = order2
							.iter()
							.map(|&i| {
								if kinds[i] == 4 {
									json!({"jsonrpc":"2.0","id":ids[i],"error":{"code":-32050 - i as i64,"message":format!("e{i}")}})
								} else {
									let v = match kinds[i] {
										0 => json!({"nonce": 100 + i}),
										1 => json!(format!("not-a-nonce-{i}")),
										2 => json!({"nonce": format!("{i}")}),
										_ => Value::Null,
									};
									json!({"jsonrpc":"2.0","id":ids[i],"result":v})
								}
							})
							.collect();
						*seen2.lock() = Some(Value::Array(arr.clone()));
						(200, Value::Array(arr).to_string().into_bytes())
					}),
				};
				let client = http_client(case.id_kind, mock, case.kinds.len() as u8);
				let got: Res = match client.batch_request::<Nonce>(b).await {
					Ok(r) => collect(r),
					Err(e) => Err(format!("{e:?}")),
				};
				let desc = || format!("http reply={:?} case={case:?}", seen.lock());
				if let Err(e) = &got {
					if e.starts_with("COUNTS") {
						obs.fail("c12/typed-counts-mismatch", format!("{e}; {}", desc()));
						return;
					}
				}
				judge(obs, got, &desc);
			});
		} else {
			rt.block_on(async {
				let mut mc = MockClient::new(ClientCfg { id_kind: case.id_kind, ..ClientCfg::default() });
				let c = mc.client.clone();
				let h = tokio::spawn(async move { c.batch_request::<Nonce>(b).await.map(|r| r.into_iter().map(|e| e.map_err(|e| (e.code(), e.message().to_string()))).collect::<Vec<_>>()).map_err(|e| format!("{e:?}")) });
				settle().await;
				let wire = mc.new_wire();
				let ids: Vec<Value> = wire.iter().find_map(|m| m.as_array().cloned()).map(|a| a.iter().map(|e| e["id"].clone()).collect()).unwrap_or_default();
				if ids.len() != n {
					obs.fail("c12/typed-batch-not-on-wire", format!("{wire:?}"));
					return;
				}
				let reply = build(&ids);
				mc.push_text(reply.to_string());
				settle().await;
				let desc = || format!("ws reply={reply} case={case:?}");
				use futures_util::FutureExt;
				match h.now_or_never() {
					Some(Ok(got)) => judge(obs, got, &desc),
					Some(Err(e)) => obs.fail("c12/typed-front-end-panic", format!("{e}; {}", desc())),
					None => obs.fail("c12/typed-batch-still-pending", desc()),
				}
				let panics = crate::panics::take_local();
				obs.check(panics.is_empty(), "c12/background-panic", || format!("{panics:?}; {}", desc()));
			});
		}
	}
}

pub fn check(ctx: &mut Ctx) {
	ctx.rule = "batches of n <= 5 (quick) / 8 entries; the mock server's reply array is generated from the request's wire ids: any permutation, any subset, duplicated ids, foreign ids (below/above the range, another in-flight batch's, u64::MAX, non-numeric, null), \
		per-entry result or error, id kind number/string; async (WebSocket) client alone and with another batch and a call in flight, and the HTTP client behind a mocked backend (after 0..3 warm-up requests). Every reply entry carries a fresh nonce. \
		Oracle: a full duplicate-free reply => Ok with exactly n entries, entry i = the outcome stamped for request i, counts = entries; any other reply => the call fails, or n entries each being one of its own request's stamped outcomes or an error, never another entry's. \
		Sub-check typed-results: batches of 1..5 entries decoded into a struct type, the reply (any permutation) answering some entries with values that do not decode (string, wrong shape, null) or error objects: the call fails as a whole, or returns n entries with every decodable entry at its own position and every undecodable one an error. \
		Non-trivial = n >= 2 and the reply is not the identity order (positional) / contains an undecodable value (typed); distinct by case value."
		.into();
	ctx.assumptions = vec!["sub-check positional keeps notifications between its two in-flight batches (a leftover of the time before finding 24 was repaired); sub-check two-batches-in-flight issues them back to back".into()];
	ctx.run_sub(&Positional);
	ctx.run_sub(&Typed);
	ctx.run_sub(&TwoBatches);
}

pub fn replay(file: &serde_json::Value) -> Option<i32> {
	replay_with(&Positional, file, "C12").or_else(|| replay_with(&Typed, file, "C12")).or_else(|| replay_with(&TwoBatches, file, "C12"))
}

// ---------------------------------------------------------------------------------------------
// two batches (and calls) in flight together, issued back to back: a reply for a part of one is not the other's
// ---------------------------------------------------------------------------------------------

#[derive(Clone, Debug, Serialize, Deserialize)]
pub struct TwoBatchCase {
	pub a: u8,
	pub b: u8,
	/// single calls issued between the two batches (0 = back to back)
	pub between: u8,
	/// which entries of the first batch the server answers (bit i = entry i), never all of them
	pub answered: u8,
	pub id_kind: IdK,
}

pub struct TwoBatches;

impl SubCheck for TwoBatches {
	type Case = TwoBatchCase;
	fn name(&self) -> &'static str {
		"two-batches-in-flight"
	}
	fn cases(&self, tier: Tier) -> u32 {
		tier.pick(20_000, 400_000)
	}
	fn strategy(&self, _tier: Tier) -> BoxedStrategy<TwoBatchCase> {
		(2u8..6, 1u8..5, prop_oneof![3 => Just(0u8), 1 => 1u8..3], any::<u8>(), prop_oneof![Just(IdK::Number), Just(IdK::String)]).prop_map(|(a, b, between, answered, id_kind)| TwoBatchCase { a, b, between, answered, id_kind }).boxed()
	}
	fn run(&self, case: &TwoBatchCase, obs: &mut Obs) {
		let rt = rt();
		rt.block_on(async {
			crate::panics::clear_local();
			let (a, b) = (case.a.clamp(2, 5) as usize, case.b.clamp(1, 4) as usize);
			let mut w = World::new(ClientCfg { id_kind: case.id_kind, ..ClientCfg::default() });
			w.spawn_batch(a);
			settle().await;
			for _ in 0..case.between {
				w.spawn_call();
				settle().await;
			}
			w.spawn_batch(b);
			let second = w.ops.len() - 1;
			settle().await;
			w.read_wire();
			let desc = |w: &World| format!("case={case:?} first batch ids {:?}, second batch ids {:?}", w.ops[0].wire_ids, w.ops[second].wire_ids);
			// every id on the wire belongs to one outstanding request only
			let mut all: Vec<String> = w.ops.iter().flat_map(|o| o.wire_ids.iter().flatten().map(|v| v.to_string())).collect();
			let n_ids = all.len();
			all.sort();
			all.dedup();
			obs.check(all.len() == n_ids, "c12/ws-batch-ids-shared-with-another-request", || desc(&w));
			// the server answers a proper part of the first batch
			let part: Vec<usize> = (0..a).filter(|i| (case.answered >> i) & 1 == 1).collect();
			let part = if part.len() == a { part[1..].to_vec() } else { part };
			if part.is_empty() {
				obs.class("two-batches:nothing-answered");
			} else {
				w.answer_batch(0, &part, &[]);
				settle().await;
			}
			let outs = w.outcomes().await;
			// nothing of that reply belongs to the second batch
			match &outs[second] {
				Some(Outcome::BatchOk(entries)) => obs.fail("c12/ws-entry-filled-with-another-entrys-answer", format!("the second batch completed with {entries:?} although the server has only answered entries {part:?} of the first one; {}", desc(&w))),
				Some(Outcome::BatchCounts(d)) => obs.fail("c12/ws-counts-mismatch", format!("{d}; {}", desc(&w))),
				_ => {}
			}
			if let Some(Outcome::BatchOk(entries)) = &outs[0] {
				// the first call did not fail as a whole: the entries the server left out are errors, the others their own
				for (i, e) in entries.iter().enumerate() {
					let own = w.ops[0].stamped[i].clone();
					match own {
						Some(s) => obs.check(*e == s, "c12/ws-entry-not-positional", || format!("entry {i} = {e:?}, stamped {s:?}; {}", desc(&w))),
						None => obs.check(e.is_err(), "c12/ws-entry-invented", || format!("entry {i} = {e:?} was never answered; {}", desc(&w))),
					};
				}
				obs.check(entries.len() == a, "c12/ws-shorter-list", || desc(&w));
			}
			// if the connection is still up the second batch can still be answered in full and gets its own answers
			if w.mc.client.is_connected() && outs[second].is_none() {
				let order: Vec<usize> = (0..b).rev().collect();
				w.answer_batch(second, &order, &[]);
				settle().await;
				let outs2 = w.outcomes().await;
				let want: Vec<Stamp> = w.ops[second].stamped.iter().map(|s| s.clone().unwrap()).collect();
				obs.check(outs2[second] == Some(Outcome::BatchOk(want.clone())), "c12/ws-other-batch-wrong", || format!("{:?} vs {want:?}; {}", outs2[second], desc(&w)));
			}
			let panics = crate::panics::take_local();
			obs.check(panics.is_empty(), "c12/background-panic", || format!("{panics:?}; {}", desc(&w)));
			obs.nontrivial();
			obs.class(if case.between == 0 { "two-batches:back-to-back" } else { "two-batches:calls-in-between" });
		});
	}
}
