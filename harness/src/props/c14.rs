//! C14 — host filter: only allow-listed authorities ever reach the RPC service.

use crate::engine::*;
use bytes::Bytes;
use jsonrpsee_server::middleware::http::HostFilterLayer;
use proptest::prelude::*;
use serde::{Deserialize, Serialize};
use serde_json::json;
use std::sync::Arc;
use std::sync::atomic::{AtomicUsize, Ordering};
use tower::{Layer, Service};

// ---------------------------------------------------------------------------------------------
// independent authority parser and matcher
// ---------------------------------------------------------------------------------------------

#[derive(Clone, Debug, PartialEq)]
pub enum RPort {
	Default,
	Any,
	Fixed(u16),
}

#[derive(Clone, Debug, PartialEq)]
pub struct RAuth {
	pub host: String,
	pub port: RPort,
	/// a second acceptable reading of the port: an explicit port that is the default of the scheme when the scheme
	/// is not written in lower case (`WS://h:80`: scheme names are case-insensitive, so "the default port" and
	/// "port 80" are both right)
	pub alt: Option<RPort>,
}

impl RAuth {
	fn ports(&self) -> Vec<RPort> {
		let mut v = vec![self.port.clone()];
		v.extend(self.alt.clone());
		v
	}
	/// the same authority under at least one reading
	pub fn same(&self, other: &RAuth) -> bool {
		self.host == other.host && self.ports().iter().any(|p| other.ports().contains(p))
	}
}

fn default_port(scheme: Option<&str>) -> Option<u16> {
	match scheme {
		Some("http") | Some("ws") => Some(80),
		Some("https") | Some("wss") => Some(443),
		Some("ftp") => Some(21),
		_ => None,
	}
}

/// `[scheme://][userinfo@]host[:port][/path]` — strict: the port is `*` or 1..5 digits fitting u16.
pub fn ref_parse(s: &str) -> Option<RAuth> {
	ref_parse_with(s, true)
}

/// The lenient reading keeps the structure (scheme, the last `@`, the bracket literal, `:port`, where the authority
/// ends) and drops the character classes: printable ASCII other than backslash is let through in the userinfo and
/// host parts, and the scheme may be empty. It is used only to judge an admitted request whose header is not an
/// authority by the strict grammar (the `http` crate lets a few such texts through, e.g. `a[]b.example.com` or
/// `://localhost`): the host it was admitted for must still be on the allow-list.
pub fn ref_parse_lenient(s: &str) -> Option<RAuth> {
	ref_parse_with(s, false)
}

fn ref_parse_with(s: &str, strict: bool) -> Option<RAuth> {
	// (lenient: a fragment is cut off before anything else is looked at, as the `http` crate does)
	let s = if strict { s } else { s.split('#').next().unwrap_or("") };
	if !s.is_ascii() || s.is_empty() || s.bytes().any(|b| b <= 0x20 || b == 0x7f) {
		return None;
	}
	let (scheme, rest) = match s.find("://") {
		Some(i) => (Some(&s[..i]), &s[i + 3..]),
		None => (None, s),
	};
	if let Some(sc) = scheme {
		// (`~` is not a scheme character in RFC 3986 but the `http` crate reads it as one; the scheme only selects
		// the default port, so the reference is generous here)
		if (strict && sc.is_empty()) || !sc.bytes().all(|b| b.is_ascii_alphanumeric() || b == b'+' || b == b'-' || b == b'.' || b == b'~') {
			return None;
		}
	}
	// authority-form (no scheme) has no path, query or fragment
	if scheme.is_none() && rest.contains(['/', '?', '#']) {
		return None;
	}
	let end = rest.find(['/', '?', '#']).unwrap_or(rest.len());
	let auth = &rest[..end];
	let hostport = match auth.rfind('@') {
		Some(i) => {
			// userinfo = *( unreserved / pct-encoded / sub-delims / ":" ) (RFC 3986); a text with any other character
			// before the `@` (backslash, quote, braces, ...) is not an authority at all. A further `@` inside the
			// userinfo is let through: the `http` crate accepts it and the host begins after the last one
			if auth[..i].bytes().any(|b| if strict { !(b.is_ascii_alphanumeric() || b"-._~!$&'()*+,;=:%@".contains(&b)) } else { b == b'\\' }) {
				return None;
			}
			&auth[i + 1..]
		}
		None => auth,
	};
	let (host, after) = if hostport.starts_with('[') {
		let close = hostport.find(']')?;
		(&hostport[..=close], &hostport[close + 1..])
	} else {
		match hostport.find(':') {
			Some(i) => (&hostport[..i], &hostport[i..]),
			None => (hostport, ""),
		}
	};
	if host.is_empty() || host == "*" {
		// a lone `*` is the asterisk-form request target, not an authority
		return None;
	}
	// host characters: bracketed IP literal, or reg-name (unreserved / sub-delims / pct-encoded)
	if host.starts_with('[') {
		let inner = &host[1..host.len() - 1];
		if inner.is_empty() || !inner.bytes().all(|b| b.is_ascii_hexdigit() || b == b':' || b == b'.' || b == b'v' || b == b'V') {
			return None;
		}
	} else {
		let hb = host.as_bytes();
		let mut i = 0;
		while i < hb.len() {
			let b = hb[i];
			// (pct-encoded octets are not accepted in a host by the `http` crate either)
			if if strict { !(b.is_ascii_alphanumeric() || b"-._~!$&'()*+,;=".contains(&b)) } else { b == b'\\' } {
				return None;
			}
			i += 1;
		}
	}
	let mut alt = None;
	let port = if after.is_empty() {
		RPort::Default
	} else {
		let p = after.strip_prefix(':')?;
		if p == "*" {
			RPort::Any
		} else {
			if p.is_empty() || !p.bytes().all(|b| b.is_ascii_digit()) {
				return None;
			}
			let n: u32 = p.trim_start_matches('0').parse().or_else(|_| if p.bytes().all(|b| b == b'0') { Ok(0) } else { Err(()) }).ok()?;
			if n > 65535 {
				return None;
			}
			let lower = scheme.map(|s| s.to_ascii_lowercase());
			match default_port(lower.as_deref()) {
				Some(d) if d as u32 == n => {
					if lower.as_deref() != scheme {
						alt = Some(RPort::Fixed(n as u16));
					}
					RPort::Default
				}
				_ => RPort::Fixed(n as u16),
			}
		}
	};
	Some(RAuth { host: host.to_string(), port, alt })
}

/// pattern labels separated by '.', a label `*` matches one or more arbitrary characters
pub fn host_matches(pattern: &str, host: &str) -> bool {
	let p: Vec<char> = pattern.chars().collect();
	let h: Vec<char> = host.chars().collect();
	// tokens: literal char or star (a `*` that is a whole label)
	let mut toks: Vec<Option<char>> = vec![];
	let labels: Vec<&str> = pattern.split('.').collect();
	for (i, l) in labels.iter().enumerate() {
		if i > 0 {
			toks.push(Some('.'));
		}
		if *l == "*" {
			toks.push(None);
		} else {
			for c in l.chars() {
				toks.push(Some(c));
			}
		}
	}
	let _ = p;
	// dp[i][j]: toks[..i] matches h[..j]
	let n = toks.len();
	let m = h.len();
	let mut dp = vec![vec![false; m + 1]; n + 1];
	dp[0][0] = true;
	for i in 1..=n {
		for j in 1..=m {
			dp[i][j] = match toks[i - 1] {
				Some(c) => dp[i - 1][j - 1] && h[j - 1] == c,
				None => dp[i - 1][j - 1] || dp[i][j - 1],
			};
		}
	}
	dp[n][m]
}

pub fn port_matches(entry: &RPort, req: &RPort) -> bool {
	match (entry, req) {
		(RPort::Any, _) => true,
		(RPort::Default, RPort::Default) => true,
		(RPort::Fixed(a), RPort::Fixed(b)) => a == b,
		_ => false,
	}
}

pub fn allowed(entries: &[RAuth], a: &RAuth) -> bool {
	entries.iter().any(|e| host_matches(&e.host, &a.host) && a.ports().iter().any(|p| port_matches(&e.port, p)))
}

// ---------------------------------------------------------------------------------------------
// generators
// ---------------------------------------------------------------------------------------------

#[derive(Clone, Debug, Serialize, Deserialize, PartialEq)]
pub struct EntrySpec {
	pub labels: Vec<String>,
	pub port: u8,
	pub scheme: u8,
}

pub const PORTS: [&str; 9] = ["", ":80", ":443", ":8080", ":9944", ":*", ":0", ":65535", ":21"];
pub const SCHEMES: [&str; 5] = ["", "http://", "https://", "ws://", "wss://"];

pub fn entry_text(e: &EntrySpec) -> String {
	format!("{}{}{}", SCHEMES[e.scheme as usize % 5], e.labels.join("."), PORTS[e.port as usize % 9])
}

#[derive(Clone, Debug, Serialize, Deserialize, PartialEq)]
pub enum HostSpec {
	Absent,
	/// instantiate entry #i: stars replaced by the given fills, port chosen by selector
	Instance { entry: u8, fills: Vec<String>, port_sel: u8, with_scheme: bool },
	/// instance then mutated
	Mutated { entry: u8, fills: Vec<String>, port_sel: u8, mutation: u8, arg: String },
	Raw(Vec<u8>),
}

#[derive(Clone, Debug, Serialize, Deserialize)]
pub struct C14Case {
	pub entries: Vec<EntrySpec>,
	pub hosts: Vec<HostSpec>,
	pub uri: HostSpec,
	/// the allow-list is handed over as `SocketAddr` values (only when every entry is an IP literal with a numeric port)
	#[serde(default)]
	pub as_socket_addr: bool,
}

fn arb_label() -> BoxedStrategy<String> {
	prop_oneof![
		6 => proptest::sample::select(vec!["a", "b", "example", "com", "localhost", "web3", "site", "evil", "xn--bcher-kva"]).prop_map(|s| s.to_string()),
		3 => Just("*".to_string()),
		1 => "[a-z0-9-]{1,6}",
		// (labels with capital letters: matching is by the text as configured)
		2 => proptest::sample::select(vec!["Example", "COM", "Node-1", "A", "LocalHost"]).prop_map(|s| s.to_string()),
	]
	.boxed()
}

fn arb_entry() -> BoxedStrategy<EntrySpec> {
	prop_oneof![
		8 => (proptest::collection::vec(arb_label(), 1..4), 0u8..9, prop_oneof![4 => Just(0u8), 1 => 1u8..5]).prop_map(|(labels, port, scheme)| EntrySpec { labels, port, scheme }),
		1 => (0u8..9).prop_map(|port| EntrySpec { labels: vec!["127".into(), "0".into(), "0".into(), "1".into()], port, scheme: 0 }),
		1 => (0u8..9, any::<bool>()).prop_map(|(port, caps)| EntrySpec { labels: vec![if caps { "[FE80::A]".into() } else { "[::1]".into() }], port, scheme: 0 }),
	]
	.boxed()
}

fn arb_fill() -> BoxedStrategy<String> {
	prop_oneof![3 => "[a-z0-9]{1,5}", 1 => Just("a.b".to_string()), 1 => Just("evil.com".to_string()), 1 => Just("x-y".to_string())].boxed()
}

fn arb_host(n_entries: usize) -> BoxedStrategy<HostSpec> {
	let n = n_entries.max(1) as u8;
	prop_oneof![
		1 => Just(HostSpec::Absent),
		5 => (0..n, proptest::collection::vec(arb_fill(), 3), 0u8..12, proptest::bool::weighted(0.15)).prop_map(|(entry, fills, port_sel, with_scheme)| HostSpec::Instance { entry, fills, port_sel, with_scheme }),
		6 => (0..n, proptest::collection::vec(arb_fill(), 3), 0u8..12, 0u8..16, prop_oneof!["[a-z]{1,4}", Just("evil.com".to_string()), Just("80".to_string())]).prop_map(|(entry, fills, port_sel, mutation, arg)| HostSpec::Mutated { entry, fills, port_sel, mutation, arg }),
		1 => proptest::collection::vec(prop_oneof![proptest::sample::select(b"abce.:@[]*/0189+-_%~ \t".to_vec()), any::<u8>()], 0..24).prop_map(HostSpec::Raw),
	]
	.boxed()
}

fn instantiate(e: &EntrySpec, fills: &[String], port_sel: u8) -> (String, String) {
	let mut k = 0;
	let labels: Vec<String> = e
		.labels
		.iter()
		.map(|l| {
			if l == "*" {
				k += 1;
				fills[(k - 1) % fills.len()].clone()
			} else {
				l.clone()
			}
		})
		.collect();
	let host = labels.join(".");
	let scheme = SCHEMES[e.scheme as usize % 5];
	let port = match PORTS[e.port as usize % 9] {
		":*" => ["", ":1", ":80", ":443", ":8080", ":65535", ":0", ":12345"][port_sel as usize % 8].to_string(),
		"" => {
			// default port: none, or the scheme's explicit default
			match (port_sel % 3, default_port(scheme.strip_suffix("://"))) {
				(1, Some(d)) => format!(":{d}"),
				_ => String::new(),
			}
		}
		p => {
			// fixed port; if it is the scheme's default it may also be omitted
			let n: u16 = p[1..].parse().unwrap();
			if default_port(scheme.strip_suffix("://")) == Some(n) && port_sel % 3 == 1 { String::new() } else { p.to_string() }
		}
	};
	(host, port)
}

pub fn host_text(h: &HostSpec, entries: &[EntrySpec]) -> Option<Vec<u8>> {
	match h {
		HostSpec::Absent => None,
		HostSpec::Raw(b) => Some(b.clone()),
		HostSpec::Instance { entry, fills, port_sel, with_scheme } => {
			let e = entries.get(*entry as usize % entries.len().max(1))?;
			let (host, port) = instantiate(e, fills, *port_sel);
			let scheme = if *with_scheme || e.scheme % 5 != 0 { SCHEMES[e.scheme as usize % 5] } else { "" };
			Some(format!("{scheme}{host}{port}").into_bytes())
		}
		HostSpec::Mutated { entry, fills, port_sel, mutation, arg } => {
			let e = entries.get(*entry as usize % entries.len().max(1))?;
			let (host, port) = instantiate(e, fills, *port_sel);
			let scheme = SCHEMES[e.scheme as usize % 5];
			let s = match mutation % 16 {
				0 => format!("{scheme}{arg}.{host}{port}"),
				1 => format!("{scheme}{host}.{arg}{port}"),
				2 => format!("{scheme}{}{port}", if host.chars().any(|c| c.is_ascii_uppercase()) { host.to_lowercase() } else { host.to_uppercase() }),
				3 => format!("{scheme}{host}.{port}"),
				4 => format!("{scheme}{host}:{arg}"),
				5 => format!("{scheme}{host}:+80"),
				6 => format!("{scheme}{host}:080"),
				7 => format!("{scheme}{host}:65536"),
				8 => format!("{scheme}{host}:"),
				9 => format!("{scheme}{host}{port}@evil.com"),
				10 => format!("{scheme}evil.com@{host}{port}"),
				11 => format!("{scheme}u:80@{host}{port}"),
				12 => format!("{scheme}{host}{port}:80"),
				13 => format!("{scheme}{host}:*"),
				// (userinfo may itself contain an `@`: the host begins after the last one)
				14 if arg.len() % 2 == 0 => format!("{scheme}a@b:1@{host}{port}"),
				14 => format!("{scheme}ab:443@{host}"),
				_ => {
					let mut h = host.clone();
					if !h.is_empty() {
						h.remove(h.len() / 2);
					}
					format!("{scheme}{h}{port}")
				}
			};
			Some(s.into_bytes())
		}
	}
}

// ---------------------------------------------------------------------------------------------
// the check
// ---------------------------------------------------------------------------------------------

pub struct Filter;

type Body = http_body_util::Empty<Bytes>;

fn build_request(hosts: &[Vec<u8>], uri: &Option<Vec<u8>>) -> Option<::http::Request<Body>> {
	let mut b = ::http::Request::builder().method("POST");
	match uri {
		None => b = b.uri("/"),
		Some(u) => {
			let s = std::str::from_utf8(u).ok()?;
			let full = if s.contains("://") { format!("{s}/") } else { format!("http://{s}/") };
			b = b.uri(full.as_str());
		}
	}
	for h in hosts {
		b = b.header("host", h.as_slice());
	}
	b.body(Body::new()).ok()
}

impl SubCheck for Filter {
	type Case = C14Case;
	fn name(&self) -> &'static str {
		"host-filter"
	}
	fn cases(&self, tier: Tier) -> u32 {
		tier.pick(1_000_000, 20_000_000)
	}
	fn strategy(&self, _tier: Tier) -> BoxedStrategy<C14Case> {
		let ip_entry = (any::<bool>(), prop_oneof![Just(1u8), Just(2u8), Just(3u8), Just(4u8), Just(6u8), Just(7u8), Just(8u8)])
			.prop_map(|(v6, port)| EntrySpec { labels: if v6 { vec!["[::1]".into()] } else { vec!["127".into(), "0".into(), "0".into(), "1".into()] }, port, scheme: 0 });
		prop_oneof![
			6 => (proptest::collection::vec(arb_entry(), 0..5), Just(false)),
			1 => (proptest::collection::vec(ip_entry, 1..3), Just(true)),
		]
			.prop_flat_map(|(entries, as_socket_addr)| {
				let n = entries.len();
				(Just(entries), Just(as_socket_addr), prop_oneof![8 => proptest::collection::vec(arb_host(n), 1..2), 1 => proptest::collection::vec(arb_host(n), 2..3), 1 => Just(vec![])], prop_oneof![3 => Just(HostSpec::Absent), 2 => arb_host(n)])
			})
			.prop_map(|(entries, as_socket_addr, hosts, uri)| C14Case { entries, hosts, uri, as_socket_addr })
			.boxed()
	}
	fn run(&self, case: &C14Case, obs: &mut Obs) {
		let texts: Vec<String> = case.entries.iter().map(entry_text).collect();
		let addrs: Option<Vec<std::net::SocketAddr>> = if case.as_socket_addr { texts.iter().map(|t| t.parse().ok()).collect() } else { None };
		if addrs.is_some() {
			obs.class("allow-list-given-as-socket-addresses");
		}
		let layer = match match addrs {
			Some(a) => HostFilterLayer::new(a),
			None => HostFilterLayer::new(texts.clone()),
		} {
			Ok(l) => l,
			Err(_) => {
				obs.class("allow-list-rejected-by-constructor");
				return;
			}
		};
		let refs: Vec<RAuth> = match texts.iter().map(|t| ref_parse(t)).collect::<Option<Vec<_>>>() {
			Some(r) => r,
			None => {
				obs.class("allow-list-outside-reference-parser");
				return;
			}
		};
		let hosts: Vec<Vec<u8>> = case.hosts.iter().filter_map(|h| host_text(h, &case.entries)).collect();
		let uri = host_text(&case.uri, &case.entries);
		let Some(req) = build_request(&hosts, &uri) else {
			obs.class("unbuildable-request");
			return;
		};
		// what the server is handed as the URI's authority component (the `http` crate has split it off the path:
		// a generated text such as `a/` arrives as authority `a`)
		let uri: Option<Vec<u8>> = req.uri().authority().map(|a| a.as_str().as_bytes().to_vec());
		let called = Arc::new(AtomicUsize::new(0));
		let c2 = called.clone();
		let inner = tower::service_fn(move |_req: ::http::Request<Body>| {
			let c = c2.clone();
			async move {
				c.fetch_add(1, Ordering::SeqCst);
				Ok::<_, std::convert::Infallible>(::http::Response::new(jsonrpsee_server::HttpBody::from("ok")))
			}
		});
		let mut svc = layer.layer(inner);
		// the layer and the inner service never wait for anything: one poll completes the call
		let fut = svc.call(req);
		let resp = match futures_util::FutureExt::now_or_never(fut) {
			Some(r) => r,
			None => {
				obs.fail("c14/service-did-not-complete", "the filtered service returned Pending".to_string());
				return;
			}
		};
		let status = match resp {
			Ok(r) => r.status().as_u16(),
			Err(e) => {
				obs.fail("c14/service-error", format!("{e}"));
				return;
			}
		};
		let was_called = called.load(Ordering::SeqCst) > 0;
		let host_strs: Vec<String> = hosts.iter().map(|h| String::from_utf8_lossy(h).to_string()).collect();
		let uri_str = uri.as_ref().map(|u| String::from_utf8_lossy(u).to_string());
		let desc = || format!("allow-list {texts:?}; Host {host_strs:?}; URI authority {uri_str:?} => status {status}, inner called={was_called}");
		obs.sample(json!({"allow": texts, "host": host_strs, "uri": uri_str, "status": status}));
		// ---- the same Host header on a `GET /health` that a `ProxyGetRequestLayer` in front of the filter turns into a call
		// (the stacking of examples/jsonrpsee_as_service.rs): the verdict of the filter is the same and reaches the peer
		if uri.is_none() {
			use jsonrpsee_server::middleware::http::ProxyGetRequestLayer;
			let called2 = Arc::new(AtomicUsize::new(0));
			let c3 = called2.clone();
			let inner2 = tower::service_fn(move |_req: jsonrpsee_server::HttpRequest| {
				let c = c3.clone();
				async move {
					c.fetch_add(1, Ordering::SeqCst);
					let mut r = ::http::Response::new(jsonrpsee_server::HttpBody::from(r#"{"jsonrpc":"2.0","id":0,"result":true}"#));
					r.headers_mut().insert("content-type", ::http::HeaderValue::from_static("application/json"));
					Ok::<_, std::convert::Infallible>(r)
				}
			});
			let mut get = ::http::Request::builder().method("GET").uri("/health");
			for h in &hosts {
				get = get.header("host", h.as_slice());
			}
			if let (Ok(proxy), Ok(get)) = (ProxyGetRequestLayer::new([("/health", "system_health")]), get.body(Body::new())) {
				let mut stacked = proxy.layer(layer.layer(inner2));
				match futures_util::FutureExt::now_or_never(stacked.call(get)) {
					Some(Ok(r)) => {
						let st2 = r.status().as_u16();
						let called_2 = called2.load(Ordering::SeqCst) > 0;
						obs.class("get-through-proxy-layer-in-front-of-the-filter");
						obs.check(st2 == status && called_2 == was_called, "c14/verdict-differs-behind-proxy-get-layer", || format!("{}; the same Host on GET /health through ProxyGetRequestLayer + filter => status {st2}, inner called={called_2}", desc()));
					}
					Some(Err(e)) => obs.fail("c14/service-error", format!("stacked service: {e}")),
					None => obs.class("stacked-service-pending"),
				}
			}
		}
		// reference reading
		let host_auth: Option<Option<RAuth>> = match hosts.len() {
			0 => None,
			1 => Some(std::str::from_utf8(&hosts[0]).ok().and_then(ref_parse)),
			_ => Some(None), // several Host headers: no single Host authority
		};
		// the authority component of the request URI is read on its own (no scheme-dependent default port)
		let uri_auth: Option<Option<RAuth>> = uri.as_ref().map(|u| {
			std::str::from_utf8(u).ok().and_then(|s| {
				let auth_only = match s.find("://") {
					Some(i) => &s[i + 3..],
					None => s,
				};
				ref_parse(auth_only)
			})
		});
		let parsed: Vec<&RAuth> = [host_auth.as_ref().and_then(|x| x.as_ref()), uri_auth.as_ref().and_then(|x| x.as_ref())].into_iter().flatten().collect();
		// texts that are not authorities by the strict grammar get a lenient reading (same structure, no character
		// classes); it only matters if such a request is admitted
		let lenient_of = |t: &[u8], is_uri: bool| -> Option<RAuth> {
			let s = std::str::from_utf8(t).ok()?;
			let s = if is_uri { s.find("://").map_or(s, |i| &s[i + 3..]) } else { s };
			ref_parse_lenient(s)
		};
		let mut lenient: Vec<RAuth> = vec![];
		if hosts.len() == 1 {
			lenient.extend(lenient_of(&hosts[0], false));
		}
		if let Some(u) = &uri {
			lenient.extend(lenient_of(u, true));
		}
		if parsed.is_empty() && !lenient.is_empty() {
			obs.class("outside-strict-grammar-with-lenient-reading");
		}
		// ---- soundness
		obs.check(status == 200 || status == 400 || status == 403, "c14/unexpected-status", desc);
		obs.check(was_called == (status == 200), "c14/status-and-inner-call-disagree", desc);
		if was_called {
			let agree = parsed.len() < 2 || parsed[0].same(parsed[1]);
			let candidates: Vec<&RAuth> = if parsed.is_empty() { lenient.iter().collect() } else { parsed.clone() };
			let some_match = candidates.iter().any(|a| allowed(&refs, a));
			if candidates.is_empty() {
				obs.fail("c14/admitted-without-parsable-authority", desc());
			} else if !agree {
				obs.fail("c14/admitted-although-host-and-uri-disagree", desc());
			} else if !some_match {
				obs.fail("c14/admitted-authority-not-on-allow-list", desc());
			}
			if parsed.is_empty() {
				obs.class("admitted-on-lenient-reading");
			}
		}
		// ---- completeness, only as stated: an instance of the only configured entry, sent alone, is admitted
		if case.entries.len() == 1 && hosts.len() == 1 && uri.is_none() {
			if let Some(HostSpec::Instance { fills, .. }) = case.hosts.first() {
				let simple_fill = fills.iter().all(|f| !f.contains('.'));
				if let Some(Some(a)) = &host_auth {
					if simple_fill && allowed(&refs, a) {
						obs.class("instance-of-the-only-entry");
						obs.check(was_called, "c14/instance-of-only-entry-rejected", desc);
					}
				}
			}
		}
		// classification
		let differs = host_strs.iter().all(|h| !texts.contains(h));
		if !parsed.is_empty() && differs {
			obs.nontrivial();
		}
		obs.class(match status {
			200 => "admitted",
			400 => "rejected-400",
			403 => "rejected-403",
			_ => "other",
		});
		if hosts.len() > 1 {
			obs.class("duplicate-host-header");
		}
		if uri.is_some() {
			obs.class("with-uri-authority");
		}
	}
}

pub fn host_bytes_oracle(allow: &[&str], host: &[u8]) -> Option<String> {
	let case_entries: Vec<String> = allow.iter().map(|s| s.to_string()).collect();
	let layer = HostFilterLayer::new(case_entries.clone()).ok()?;
	let refs: Vec<RAuth> = case_entries.iter().map(|t| ref_parse(t)).collect::<Option<Vec<_>>>()?;
	let req = build_request(&[host.to_vec()], &None)?;
	let called = Arc::new(AtomicUsize::new(0));
	let c2 = called.clone();
	let inner = tower::service_fn(move |_req: ::http::Request<Body>| {
		let c = c2.clone();
		async move {
			c.fetch_add(1, Ordering::SeqCst);
			Ok::<_, std::convert::Infallible>(::http::Response::new(jsonrpsee_server::HttpBody::from("ok")))
		}
	});
	let mut svc = layer.layer(inner);
	let _ = futures_util::FutureExt::now_or_never(svc.call(req));
	if called.load(Ordering::SeqCst) > 0 {
		let a = std::str::from_utf8(host).ok().and_then(|h| ref_parse(h).or_else(|| ref_parse_lenient(h)));
		match a {
			Some(a) if allowed(&refs, &a) => None,
			other => Some(format!("allow {allow:?} admitted Host {:?} (reference authority: {other:?})", String::from_utf8_lossy(host))),
		}
	} else {
		None
	}
}

pub fn corpus_replay(ctx: &mut Ctx) {
	let dir = verif_root().join("corpus/c14_host");
	let mut n = 0u64;
	if let Ok(rd) = std::fs::read_dir(&dir) {
		let mut files: Vec<_> = rd.filter_map(|e| e.ok()).map(|e| e.path()).collect();
		files.sort();
		for f in files {
			let Ok(bytes) = std::fs::read(&f) else { continue };
			n += 1;
			for allow in [&["example.com:8080", "*.web3.site:*"][..], &["https://a.example.com"][..], &["localhost:*", "127.0.0.1:9944"][..]] {
				if let Some(d) = host_bytes_oracle(allow, &bytes) {
					ctx.violation_raw("host-bytes", "c14/admitted-authority-not-on-allow-list", &d, json!({"file": f.display().to_string()}));
				}
			}
		}
	}
	ctx.add_evaluations(n * 3);
	ctx.note_class("host-bytes:corpus-files", n);
}

pub fn check(ctx: &mut Ctx) {
	ctx.rule = "allow-lists of 0..4 entries over hosts {literal labels, `*` as a whole leading/inner label, IPv4, bracketed IPv6} x ports {none, fixed, `*`} x optional scheme; Host header(s): instantiations of an entry (stars filled, default/explicit port), 16 near-miss mutations \
		(extra/missing/changed label, case, trailing dot, other port, +80, 080, 65536, empty port, userinfo tricks on either side, extra colon, literal `*` port), raw bytes, duplicates, absent; URI authority absent / instance / mutated. \
		Oracle: independent authority parser + wildcard matcher: inner service called => every parsed authority agrees and one matches an entry in host and port; otherwise 403/400 and the inner service untouched; an instance of the only configured entry is admitted. \
		Non-trivial = some authority parses and the header differs from every entry's literal text; distinct by case value."
		.into();
	ctx.assumptions = vec![
		"allow-lists that HostFilterLayer::new rejects, and requests the http crate refuses to build, are counted and skipped".into(),
		"completeness is asserted only for instantiations of a single configured entry sent alone".into(),
	];
	ctx.run_sub(&Filter);
	corpus_replay(ctx);
	fuzz_campaign(ctx, "c14_host", 3_000_000, 96);
}

pub fn replay(file: &serde_json::Value) -> Option<i32> {
	replay_with(&Filter, file, "C14")
}
