//! C03 — client: each call completes with exactly the response bearing its own id.

use crate::engine::*;
use crate::fix::client::*;
use crate::fix::server::{rt, settle};
use jsonrpsee_core::client::{ClientT, Error, Subscription, SubscriptionClientT, SubscriptionKind};
use jsonrpsee_core::params::BatchRequestBuilder;
use jsonrpsee_core::rpc_params;
use proptest::prelude::*;
use serde::{Deserialize, Serialize};
use serde_json::{Value, json};
use std::collections::HashMap;
use std::sync::Arc;

#[derive(Clone, Debug, Serialize, Deserialize, PartialEq)]
pub enum Step {
	Call,
	/// a call whose transport write completes late: it is answered while `send` has not returned yet
	CallLateSend { err: bool },
	Subscribe,
	Batch(u8),
	Notify,
	Answer { pick: u16, err: bool },
	/// the answer has been taken in by the transport but its `receive()` only returns later; in between, time
	/// passes (with pings enabled the client's timers fire)
	AnswerHeld { pick: u16, err: bool },
	AnswerBatch { pick: u16, perm: Vec<u16> },
	PushSub { pick: u16, packed: bool },
	PushPlain,
	AnswerUnknown(u8),
	AnswerAgain { pick: u16 },
	/// the application gives up on an outstanding call / subscribe / batch (its future is dropped, as a time-out
	/// does); the server may still answer it later, which must concern nobody
	Abandon { pick: u16 },
}

#[derive(Clone, Debug, Serialize, Deserialize)]
pub struct C03Case {
	pub steps: Vec<(Step, bool)>,
	pub id_kind: IdK,
	pub send_yields: u8,
}

#[derive(Clone, Debug, PartialEq)]
pub enum Outcome {
	CallOk(Value),
	CallErr(i32, String),
	SubOk(Value),
	BatchOk(Vec<Result<Value, (i32, String)>>),
	/// the BatchResponse's own counters disagree with its entries
	BatchCounts(String),
	NotifyOk,
	Failed(String),
}

/// Every view a `BatchResponse` offers of its entries (counters, `len`, `iter`, `ok`, `into_ok`, `into_iter`), compared
/// with one another: Err(description) when two of them disagree, else the entries.
pub fn batch_views<R: Clone + std::fmt::Debug + PartialEq>(r: jsonrpsee_core::client::BatchResponse<'_, R>) -> Result<Vec<Result<R, (i32, String)>>, String> {
	let flat = |e: &jsonrpsee_types::ErrorObject<'_>| (e.code(), e.message().to_string());
	let (ok, failed, len) = (r.num_successful_calls(), r.num_failed_calls(), r.len());
	let by_ref: Vec<Result<R, (i32, String)>> = r.iter().map(|e| e.clone().map_err(|e| flat(&e))).collect();
	let ok_view: Result<Vec<R>, Vec<(i32, String)>> = match r.ok() {
		Ok(it) => Ok(it.cloned().collect()),
		Err(it) => Err(it.map(flat).collect()),
	};
	let into_ok_view: Result<Vec<R>, Vec<(i32, String)>> = match r.clone().into_ok() {
		Ok(it) => Ok(it.collect()),
		Err(it) => Err(it.map(|e| flat(&e)).collect()),
	};
	let entries: Vec<Result<R, (i32, String)>> = r.into_iter().map(|e| e.map_err(|e| flat(&e))).collect();
	let ok2 = entries.iter().filter(|e| e.is_ok()).count();
	if ok != ok2 || failed != entries.len() - ok2 || len != entries.len() {
		return Err(format!("num_successful_calls={ok} num_failed_calls={failed} len={len} entries={entries:?}"));
	}
	if by_ref != entries {
		return Err(format!("iter() = {by_ref:?}, into_iter() = {entries:?}"));
	}
	// ok() / into_ok(): all values if no entry failed, otherwise the errors - never a list of some of the values
	let want: Result<Vec<R>, Vec<(i32, String)>> = if ok2 == entries.len() { Ok(entries.iter().filter_map(|e| e.clone().ok()).collect()) } else { Err(entries.iter().filter_map(|e| e.clone().err()).collect()) };
	if ok_view != want {
		return Err(format!("ok() = {ok_view:?} for entries {entries:?}"));
	}
	if into_ok_view != want {
		return Err(format!("into_ok() = {into_ok_view:?} for entries {entries:?}"));
	}
	Ok(entries)
}

pub fn err_outcome(e: Error) -> Outcome {
	match e {
		Error::Call(e) => Outcome::CallErr(e.code(), e.message().to_string()),
		other => Outcome::Failed(format!("{other:?}")),
	}
}

#[derive(Clone, Debug, PartialEq)]
pub enum OpKind {
	Call,
	Subscribe,
	/// `subscribe_to_method`: a handler for plain notifications of one method name
	Register,
	Batch(usize),
	Notify,
}

pub struct Op {
	pub kind: OpKind,
	pub methods: Vec<String>,
	pub handle: tokio::task::JoinHandle<Outcome>,
	pub wire_ids: Vec<Option<Value>>,
	/// payload the mock server stamped for this op (per entry), in the order it was sent
	pub stamped: Vec<Option<Result<Value, (i32, String)>>>,
	pub answered_before_poison: bool,
	pub abandoned: bool,
}

pub struct World {
	pub mc: MockClient,
	pub ops: Vec<Op>,
	pub subs: Arc<parking_lot::Mutex<Vec<Subscription<Value>>>>,
	pub nonce: u64,
	pub wire: Vec<Value>,
	pub poisoned: bool,
	pub answered_single: Vec<(usize, Value)>,
	/// responses carry members a response does not have (`method`, `params`, `extra`): a reader ignores them
	pub extra_members: bool,
	/// Some(gate): the next single answer is delivered through a `receive()` that waits for that gate
	pub hold_next: Option<String>,
}

impl World {
	pub fn new(cfg: ClientCfg) -> World {
		World { mc: MockClient::new(cfg), ops: vec![], subs: Arc::new(parking_lot::Mutex::new(vec![])), nonce: 0, wire: vec![], poisoned: false, answered_single: vec![], extra_members: false, hold_next: None }
	}

	pub fn spawn_call(&mut self) {
		let k = self.ops.len();
		let method = format!("m{k}");
		let c = self.mc.client.clone();
		let m = method.clone();
		let handle = tokio::spawn(async move {
			match c.request::<Value, _>(&m, rpc_params![k]).await {
				Ok(v) => Outcome::CallOk(v),
				Err(e) => err_outcome(e),
			}
		});
		self.ops.push(Op { kind: OpKind::Call, methods: vec![method], handle, wire_ids: vec![None], stamped: vec![None], answered_before_poison: false, abandoned: false });
	}

	pub fn spawn_subscribe(&mut self) {
		let k = self.ops.len();
		let method = format!("sub{k}");
		let unsub = format!("unsub{k}");
		let c = self.mc.client.clone();
		let m = method.clone();
		let subs = self.subs.clone();
		let handle = tokio::spawn(async move {
			match c.subscribe::<Value, _>(&m, rpc_params![], &unsub).await {
				Ok(s) => {
					let id = match s.kind() {
						SubscriptionKind::Subscription(id) => serde_json::to_value(id).unwrap(),
						_ => Value::Null,
					};
					subs.lock().push(s);
					Outcome::SubOk(id)
				}
				Err(e) => err_outcome(e),
			}
		});
		self.ops.push(Op { kind: OpKind::Subscribe, methods: vec![method], handle, wire_ids: vec![None], stamped: vec![None], answered_before_poison: false, abandoned: false });
	}

	pub fn spawn_register(&mut self) {
		let k = self.ops.len();
		let method = format!("plain{k}");
		let c = self.mc.client.clone();
		let m = method.clone();
		let subs = self.subs.clone();
		let handle = tokio::spawn(async move {
			match c.subscribe_to_method::<Value>(&m).await {
				Ok(s) => {
					subs.lock().push(s);
					Outcome::NotifyOk
				}
				Err(e) => err_outcome(e),
			}
		});
		self.ops.push(Op { kind: OpKind::Register, methods: vec![method], handle, wire_ids: vec![], stamped: vec![], answered_before_poison: false, abandoned: false });
	}

	pub fn spawn_batch(&mut self, n: usize) {
		let k = self.ops.len();
		let methods: Vec<String> = (0..n).map(|i| format!("b{k}_{i}")).collect();
		let c = self.mc.client.clone();
		let ms = methods.clone();
		let handle = tokio::spawn(async move {
			let mut b = BatchRequestBuilder::new();
			for (i, m) in ms.iter().enumerate() {
				b.insert(m, rpc_params![i]).unwrap();
			}
			match c.batch_request::<Value>(b).await {
				Ok(r) => {
					match batch_views(r) {
						Ok(entries) => Outcome::BatchOk(entries),
						Err(d) => Outcome::BatchCounts(d),
					}
				}
				Err(e) => err_outcome(e),
			}
		});
		self.ops.push(Op { kind: OpKind::Batch(n), methods, handle, wire_ids: vec![None; n], stamped: vec![None; n], answered_before_poison: false, abandoned: false });
	}

	pub fn spawn_notify(&mut self) {
		let k = self.ops.len();
		let method = format!("n{k}");
		let c = self.mc.client.clone();
		let m = method.clone();
		let handle = tokio::spawn(async move {
			match c.notification(&m, rpc_params![k]).await {
				Ok(()) => Outcome::NotifyOk,
				Err(e) => err_outcome(e),
			}
		});
		self.ops.push(Op { kind: OpKind::Notify, methods: vec![method], handle, wire_ids: vec![], stamped: vec![], answered_before_poison: false, abandoned: false });
	}

	/// look at the wire: fill in the ids each op put there
	pub fn read_wire(&mut self) {
		let new = self.mc.new_wire();
		self.wire.extend(new);
		for op in self.ops.iter_mut() {
			for (i, m) in op.methods.iter().enumerate() {
				if i < op.wire_ids.len() && op.wire_ids[i].is_none() {
					op.wire_ids[i] = wire_id_of(&self.wire, m);
				}
			}
		}
	}

	/// indices of single requests (calls, subscribes) on the wire and not yet answered
	pub fn outstanding_singles(&self) -> Vec<usize> {
		self.ops
			.iter()
			.enumerate()
			.filter(|(_, o)| matches!(o.kind, OpKind::Call | OpKind::Subscribe) && o.wire_ids[0].is_some() && o.stamped[0].is_none())
			.map(|(i, _)| i)
			.collect()
	}

	pub fn outstanding_batches(&self) -> Vec<usize> {
		self.ops
			.iter()
			.enumerate()
			.filter(|(_, o)| matches!(o.kind, OpKind::Batch(_)) && o.wire_ids.iter().all(|w| w.is_some()) && o.stamped.iter().all(|s| s.is_none()))
			.map(|(i, _)| i)
			.collect()
	}

	pub fn next_nonce(&mut self) -> u64 {
		self.nonce += 1;
		self.nonce
	}

	pub fn payload(&mut self, op: usize, err: bool) -> (Value, Result<Value, (i32, String)>) {
		let n = self.next_nonce();
		if err {
			let code = 1000 + n as i32;
			let msg = format!("e{n}");
			(json!({"error": {"code": code, "message": msg}}), Err((code, msg)))
		} else if self.ops[op].kind == OpKind::Subscribe {
			let id = if n % 2 == 0 { json!(n) } else { json!(format!("s{n}")) };
			(json!({"result": id}), Ok(id))
		} else {
			let v = json!({"nonce": n});
			(json!({"result": v}), Ok(v))
		}
	}

	pub fn answer_single(&mut self, op: usize, err: bool) {
		let id = self.ops[op].wire_ids[0].clone().unwrap();
		let (mut body, stamp) = self.payload(op, err);
		body["jsonrpc"] = json!("2.0");
		body["id"] = id.clone();
		if self.extra_members {
			// (e.g. a server that echoes the method name)
			match self.nonce % 3 {
				0 => body["method"] = json!(self.ops[op].methods[0].clone()),
				1 => {
					body["method"] = json!("sub_notif");
					body["params"] = json!({"subscription": 1, "result": 2});
				}
				_ => body["extra"] = json!({"method": "x"}),
			}
		}
		self.ops[op].stamped[0] = Some(stamp);
		self.ops[op].answered_before_poison = !self.poisoned;
		self.answered_single.push((op, id));
		// (with unknown members also: blanks around the text)
		// (now and then a long run of blanks comes first: JSON text may begin with any amount of it)
		let text = if self.extra_members {
			let lead = if self.nonce % 4 == 0 { " \n".repeat(70 + (self.nonce % 50) as usize) } else { "\r\n ".to_string() };
			format!("{lead}{} \n", body)
		} else {
			body.to_string()
		};
		match self.hold_next.take() {
			Some(g) => self.mc.push_text_held(text, &g),
			None => self.mc.push_text(text),
		}
	}

	pub fn answer_batch(&mut self, op: usize, order: &[usize], errs: &[bool]) {
		let n = self.ops[op].methods.len();
		let mut arr = vec![];
		for &i in order {
			let id = self.ops[op].wire_ids[i].clone().unwrap();
			let (mut body, stamp) = self.payload(op, errs.get(i).copied().unwrap_or(false));
			body["jsonrpc"] = json!("2.0");
			body["id"] = id;
			self.ops[op].stamped[i] = Some(stamp);
			arr.push(body);
		}
		let _ = n;
		self.ops[op].answered_before_poison = !self.poisoned;
		let lead = if self.nonce % 4 == 1 { "\t ".repeat(70 + (self.nonce % 50) as usize) } else { " \t".to_string() };
		self.mc.push_text(if self.extra_members { format!("{lead}{}\r\n", Value::Array(arr)) } else { Value::Array(arr).to_string() });
	}

	/// collect outcomes of finished ops (after settle)
	pub async fn outcomes(&mut self) -> Vec<Option<Outcome>> {
		let mut v = vec![];
		for op in self.ops.iter_mut() {
			if op.handle.is_finished() {
				match (&mut op.handle).await {
					Ok(o) => v.push(Some(o)),
					Err(e) => v.push(Some(Outcome::Failed(format!("TASK-PANIC {e}")))),
				}
				// replace the handle by a finished dummy so that it can be awaited again
				let o = v.last().unwrap().clone().unwrap();
				op.handle = tokio::spawn(async move { o });
			} else {
				v.push(None);
			}
		}
		v
	}
}

pub fn perm_from(sel: &[u16], n: usize) -> Vec<usize> {
	let mut p: Vec<usize> = (0..n).collect();
	for i in (1..n).rev() {
		let j = pick_idx(sel.get(i % sel.len().max(1)).copied().unwrap_or(0), i + 1);
		p.swap(i, j);
	}
	p
}

pub struct Routing;

impl SubCheck for Routing {
	type Case = C03Case;
	fn name(&self) -> &'static str {
		"routing"
	}
	fn cases(&self, tier: Tier) -> u32 {
		tier.pick(250_000, 5_000_000)
	}
	fn strategy(&self, tier: Tier) -> BoxedStrategy<C03Case> {
		let max = tier.pick(14usize, 28);
		let step = prop_oneof![
			5 => Just(Step::Call),
			1 => proptest::bool::weighted(0.2).prop_map(|err| Step::CallLateSend { err }),
			2 => Just(Step::Subscribe),
			2 => (1u8..5).prop_map(Step::Batch),
			1 => Just(Step::Notify),
			6 => (any::<u16>(), proptest::bool::weighted(0.25)).prop_map(|(pick, err)| Step::Answer { pick, err }),
			1 => (any::<u16>(), proptest::bool::weighted(0.25)).prop_map(|(pick, err)| Step::AnswerHeld { pick, err }),
			1 => any::<u16>().prop_map(|pick| Step::Abandon { pick }),
			2 => (any::<u16>(), proptest::collection::vec(any::<u16>(), 4)).prop_map(|(pick, perm)| Step::AnswerBatch { pick, perm }),
			2 => (any::<u16>(), any::<bool>()).prop_map(|(pick, packed)| Step::PushSub { pick, packed }),
			1 => Just(Step::PushPlain),
		];
		let poison = prop_oneof![(0u8..4).prop_map(Step::AnswerUnknown), any::<u16>().prop_map(|pick| Step::AnswerAgain { pick })];
		(
			proptest::collection::vec((step, proptest::bool::weighted(0.6)), 1..max),
			proptest::option::weighted(0.25, (poison, any::<u16>())),
			prop_oneof![Just(IdK::Number), Just(IdK::String)],
			0u8..4,
		)
			.prop_map(|(mut steps, poison, id_kind, send_yields)| {
				if let Some((p, at)) = poison {
					let i = pick_idx(at, steps.len() + 1);
					steps.insert(i, (p, true));
				}
				C03Case { steps, id_kind, send_yields }
			})
			.boxed()
	}
	fn run(&self, case: &C03Case, obs: &mut Obs) {
		let rt = rt();
		crate::panics::clear_local();
		rt.block_on(async {
			let mut w = World::new(ClientCfg { id_kind: case.id_kind, mw_last: case.send_yields == 3, ws_builder: case.send_yields >= 2, ping: case.send_yields == 2, ..ClientCfg::default() });
			if case.send_yields == 3 {
				obs.class("client-built-through-set_rpc_middleware");
			}
			*w.mc.shared.default_send_yields.lock() = case.send_yields;
			w.extra_members = case.send_yields % 2 == 1;
			if w.extra_members {
				obs.class("responses-with-unknown-members");
			}
			let mut nonfifo = false;
			let mut interleaved = false;
			let mut max_outstanding = 0usize;
			let mut since_last_answer_other = false;
			let mut late_sends = 0u32;
			let mut abandoned = 0u32;
			let mut held = 0u32;
			for (step, settle_after) in &case.steps {
				w.read_wire();
				// wire ids of concurrently pending single requests are pairwise distinct
				{
					let out = w.outstanding_singles();
					max_outstanding = max_outstanding.max(out.len());
					let mut seen = std::collections::HashSet::new();
					for i in &out {
						let id = w.ops[*i].wire_ids[0].clone().unwrap().to_string();
						if !seen.insert(id.clone()) {
							obs.fail("c03/duplicate-wire-id-among-pending", format!("id {id} used by two pending requests; wire={:?}", w.wire));
						}
					}
				}
				match step {
					Step::Call => w.spawn_call(),
					Step::CallLateSend { err } => {
						if !w.poisoned {
							late_sends += 1;
							let gate = format!("late{late_sends}");
							w.mc.shared.send_plans.lock().push_back(SendPlan::WireThenGate(gate.clone()));
							w.spawn_call();
							settle().await;
							w.read_wire();
							let op = w.ops.len() - 1;
							if w.ops[op].wire_ids[0].is_some() {
								w.answer_single(op, *err);
								settle().await;
							}
							w.mc.shared.gates.open(&gate);
							settle().await;
						}
					}
					Step::Subscribe => w.spawn_subscribe(),
					Step::Batch(n) => w.spawn_batch(*n as usize),
					Step::Notify => w.spawn_notify(),
					Step::Answer { pick, err } => {
						let out = w.outstanding_singles();
						if !out.is_empty() {
							let k = pick_idx(*pick, out.len());
							if out.len() >= 2 && k != 0 {
								nonfifo = true;
							}
							if out.len() >= 2 && since_last_answer_other {
								interleaved = true;
							}
							since_last_answer_other = false;
							w.answer_single(out[k], *err);
						}
					}
					Step::AnswerHeld { pick, err } => {
						let out = w.outstanding_singles();
						if !out.is_empty() && !w.poisoned {
							held += 1;
							let gate = format!("hold{held}");
							w.hold_next = Some(gate.clone());
							w.answer_single(out[pick_idx(*pick, out.len())], *err);
							// hours pass while the transport is half-way through the message
							settle().await;
							settle().await;
							w.mc.shared.gates.open(&gate);
							settle().await;
						}
					}
					Step::AnswerBatch { pick, perm } => {
						let out = w.outstanding_batches();
						if !out.is_empty() {
							let op = out[pick_idx(*pick, out.len())];
							let n = w.ops[op].methods.len();
							let order = perm_from(perm, n);
							let errs: Vec<bool> = perm.iter().map(|p| p % 5 == 0).collect();
							w.answer_batch(op, &order, &errs);
							since_last_answer_other = true;
						}
					}
					Step::PushSub { pick, packed } => {
						let subs: Vec<Value> = w.ops.iter().filter(|o| o.kind == OpKind::Subscribe).filter_map(|o| o.stamped[0].clone()).filter_map(|s| s.ok()).collect();
						if !subs.is_empty() {
							let id = subs[pick_idx(*pick, subs.len())].clone();
							let n = w.next_nonce();
							let notif = json!({"jsonrpc":"2.0","method":"sub_notif","params":{"subscription": id, "result": {"item": n}}});
							if *packed {
								let plain = json!({"jsonrpc":"2.0","method":"plain","params":[n]});
								w.mc.push_text(Value::Array(vec![plain, notif]).to_string());
							} else {
								w.mc.push_text(notif.to_string());
							}
							since_last_answer_other = true;
						}
					}
					Step::PushPlain => {
						let n = w.next_nonce();
						w.mc.push_text(json!({"jsonrpc":"2.0","method":"nobody_listens","params":{"x": n}}).to_string());
						since_last_answer_other = true;
					}
					Step::AnswerUnknown(k) => {
						let n = w.next_nonce();
						let id = match (k % 4, case.id_kind) {
							(0, _) => json!(999_999),
							(1, _) => json!("nobody"),
							(2, _) => Value::Null,
							(_, IdK::Number) => json!("0"), // right digits, wrong id kind
							(_, IdK::String) => json!(0),
						};
						w.poisoned = true;
						w.mc.push_text(json!({"jsonrpc":"2.0","id":id,"result":{"nonce":n,"poison":true}}).to_string());
					}
					Step::Abandon { pick } => {
						// anything that is on the wire and not answered yet
						let mut out = w.outstanding_singles();
						out.extend(w.outstanding_batches());
						out.retain(|i| !w.ops[*i].abandoned);
						if !out.is_empty() && !w.poisoned {
							let op = out[pick_idx(*pick, out.len())];
							w.ops[op].handle.abort();
							w.ops[op].abandoned = true;
							abandoned += 1;
						}
					}
					Step::AnswerAgain { pick } => {
						// (not the id of an abandoned subscribe: while the client's own unsubscribe for it is unacknowledged the
						// id is still on the books, a second answer is swallowed and completes nothing - which is all C03 asks)
						let again: Vec<(usize, Value)> = w.answered_single.iter().filter(|(op, _)| !w.ops[*op].abandoned).cloned().collect();
						if !again.is_empty() {
							let (_, id) = again[pick_idx(*pick, again.len())].clone();
							// only meaningful if nobody is waiting on that id any more
							let n = w.next_nonce();
							w.poisoned = true;
							w.mc.push_text(json!({"jsonrpc":"2.0","id":id,"result":{"nonce":n,"poison":true}}).to_string());
						}
					}
				}
				if *settle_after {
					settle().await;
				}
			}
			settle().await;
			w.read_wire();
			let outs = w.outcomes().await;
			let panics = crate::panics::take_local();
			obs.check(panics.is_empty(), "c03/background-panic", || format!("{panics:?}"));
			if max_outstanding >= 2 && (nonfifo || interleaved) {
				obs.nontrivial();
			}
			if nonfifo {
				obs.class("answered-out-of-order");
			}
			if interleaved {
				obs.class("notification-or-batch-between-answers");
			}
			if w.poisoned {
				obs.class("with-response-matching-nothing");
			}
			if late_sends > 0 {
				obs.class("answered-before-send-returned");
			}
			if abandoned > 0 {
				obs.class("with-abandoned-request");
			}
			if held > 0 {
				obs.class("answer-held-inside-receive");
			}
			if w.ops.iter().any(|o| o.abandoned && o.stamped.iter().any(|s| s.is_some())) {
				obs.class("abandoned-request-answered-late");
				obs.nontrivial();
			}
			let connected = w.mc.client.is_connected();
			// every id the client wrote has the configured kind
			for m in &w.wire {
				let ids: Vec<&Value> = match m {
					Value::Array(a) => a.iter().filter_map(|e| e.get("id")).collect(),
					v => v.get("id").into_iter().collect(),
				};
				for id in ids {
					let ok = match case.id_kind {
						IdK::Number => id.is_u64(),
						IdK::String => id.is_string(),
					};
					obs.check(ok, "c03/request-id-not-of-the-configured-kind", || format!("{id} with id kind {:?}; wire={:?}", case.id_kind, w.wire));
				}
			}
			for (i, (op, out)) in w.ops.iter().zip(outs.iter()).enumerate() {
				let desc = || format!("op#{i} {:?} methods={:?} wire_ids={:?} stamped={:?} outcome={out:?} poisoned={} connected={connected} steps={:?} wire={:?} events={:?}", op.kind, op.methods, op.wire_ids, op.stamped, w.poisoned, case.steps, w.wire, w.mc.shared.events.lock());
				if op.abandoned {
					// nobody is waiting: nothing to compare (the others and the connection are judged as usual)
					continue;
				}
				match &op.kind {
					OpKind::Notify | OpKind::Register => {}
					OpKind::Call | OpKind::Subscribe => {
						let stamped = op.stamped[0].clone();
						match (stamped, out) {
							(Some(st), Some(o)) if op.answered_before_poison => {
								let want = match (&op.kind, st) {
									(OpKind::Call, Ok(v)) => Outcome::CallOk(v),
									(OpKind::Subscribe, Ok(v)) => Outcome::SubOk(v),
									(_, Err((c, m))) => Outcome::CallErr(c, m),
									_ => unreachable!(),
								};
								obs.check(*o == want, "c03/call-completed-with-wrong-response", || format!("want {want:?}; {}", desc()));
							}
							(Some(_), None) if op.answered_before_poison => obs.fail("c03/answered-call-still-pending", desc()),
							(None, Some(o)) | (Some(_), Some(o)) => {
								// never answered (or answered only after the client had to abandon the connection): must not carry a payload
								let carries_payload = matches!(o, Outcome::CallOk(_) | Outcome::SubOk(_) | Outcome::CallErr(..));
								obs.check(!carries_payload, "c03/unanswered-call-completed-with-a-payload", desc);
								obs.check(w.poisoned || !connected, "c03/unanswered-call-failed-while-connected", desc);
							}
							(None, None) | (Some(_), None) => {
								obs.check(!w.poisoned, "c03/call-pending-after-connection-abandoned", desc);
							}
						}
					}
					OpKind::Batch(_) => {
						let all_stamped = op.stamped.iter().all(|s| s.is_some());
						match out {
							Some(Outcome::BatchOk(entries)) => {
								let want: Vec<Result<Value, (i32, String)>> = op.stamped.iter().map(|s| s.clone().unwrap_or(Err((0, String::new())))).collect();
								obs.check(all_stamped && op.answered_before_poison && *entries == want, "c03/batch-completed-with-wrong-entries", || format!("want {want:?}; {}", desc()));
							}
							Some(Outcome::BatchCounts(d)) => obs.fail("c03/batch-counts-mismatch", format!("{d}; {}", desc())),
							Some(o) => {
								let bad = all_stamped && op.answered_before_poison;
								obs.check(!bad, "c03/answered-batch-failed", || format!("{o:?}; {}", desc()));
							}
							None => {
								obs.check(!(all_stamped && op.answered_before_poison), "c03/answered-batch-still-pending", desc);
								obs.check(!w.poisoned, "c03/batch-pending-after-connection-abandoned", desc);
							}
						}
					}
				}
			}
			if !w.poisoned {
				obs.check(connected, "c03/client-disconnected-without-cause", || format!("events={:?} steps={:?}", w.mc.shared.events.lock(), case.steps));
			}
			obs.sample(json!({"steps": format!("{:?}", case.steps), "wire": w.wire.iter().take(6).collect::<Vec<_>>()}));
		});
	}
}

pub fn check(ctx: &mut Ctx) {
	ctx.rule = "histories of front-end operations {call, subscribe, batch(1..4), notification} interleaved with mock-server steps {answer any outstanding request with a nonce-stamped result/error, answer a batch in any permutation, \
		push subscription / plain notifications singly or packed in arrays, answer an id nobody waits for, answer an id twice, the application abandoning an outstanding request (dropped future, as a time-out does) that may still be answered later}, settle-or-not after each step, send() yielding 0..3 times, id kind number/string (a quarter of the clients are finished with `.set_rpc_middleware(identity)` after the options were set; every id on the wire must have the configured kind). \
		Oracle: every completed call/subscribe/batch returns exactly the payload stamped for its own wire id (found via its unique method name), unanswered ones stay pending while connected, nothing completes with a payload after a response that matches nothing pending; pending wire ids pairwise distinct. \
		Non-trivial = >= 2 requests outstanding at once and answered out of FIFO order or with a notification/batch reply in between; distinct by case value."
		.into();
	ctx.assumptions = vec![
		"in-memory transport; schedules = order of harness operations x settle-or-not x yields inside the transport's send (current-thread runtime)".into(),
		"what a caller sees after the client abandons the connection is C09's business; here only: no payload".into(),
	];
	ctx.run_sub(&Routing);
	ctx.run_sub(&AcrossThreads);
	ctx.run_sub(&WhileSendStalled);
}

pub fn replay(file: &serde_json::Value) -> Option<i32> {
	replay_with(&Routing, file, "C03").or_else(|| replay_with(&AcrossThreads, file, "C03")).or_else(|| replay_with(&WhileSendStalled, file, "C03"))
}

// ---------------------------------------------------------------------------------------------
// one client shared by callers on several threads
// ---------------------------------------------------------------------------------------------

#[derive(Clone, Debug, Serialize, Deserialize)]
pub struct ThreadsCase {
	pub threads: u8,
	pub per_thread: u16,
	pub id_kind: IdK,
	/// false: the ids are drawn from the public `RequestIdManager` by plain OS threads;
	/// true: calls are made through one client on a multi-thread runtime against a transport that answers every call
	/// with its own method name
	pub through_client: bool,
}

pub struct AcrossThreads;

impl SubCheck for AcrossThreads {
	type Case = ThreadsCase;
	fn name(&self) -> &'static str {
		"callers-on-several-threads"
	}
	fn cases(&self, tier: Tier) -> u32 {
		tier.pick(160, 4_000)
	}
	fn shards(&self, _tier: Tier) -> u32 {
		// every case brings its own threads
		2
	}
	fn strategy(&self, _tier: Tier) -> BoxedStrategy<ThreadsCase> {
		(2u8..9, 500u16..20_000, prop_oneof![Just(IdK::Number), Just(IdK::String)], any::<bool>())
			.prop_map(|(threads, per_thread, id_kind, through_client)| ThreadsCase { threads, per_thread: if through_client { per_thread % 400 + 50 } else { per_thread }, id_kind, through_client })
			.boxed()
	}
	fn run(&self, case: &ThreadsCase, obs: &mut Obs) {
		use jsonrpsee_core::client::{IdKind, RequestIdManager};
		let (threads, per) = (case.threads.max(2) as usize, case.per_thread.max(1) as usize);
		obs.nontrivial();
		if !case.through_client {
			obs.class("threads:id-manager");
			let m = Arc::new(RequestIdManager::new(match case.id_kind {
				IdK::Number => IdKind::Number,
				IdK::String => IdKind::String,
			}));
			let barrier = Arc::new(std::sync::Barrier::new(threads));
			let drawn: Vec<Vec<String>> = std::thread::scope(|sc| {
				let hs: Vec<_> = (0..threads)
					.map(|_| {
						let (m, barrier) = (m.clone(), barrier.clone());
						sc.spawn(move || {
							barrier.wait();
							(0..per).map(|_| serde_json::to_string(&m.next_request_id()).unwrap()).collect::<Vec<_>>()
						})
					})
					.collect();
				hs.into_iter().map(|h| h.join().unwrap_or_default()).collect()
			});
			let mut all: Vec<&String> = drawn.iter().flatten().collect();
			let n = all.len();
			all.sort();
			all.dedup();
			obs.check(n == threads * per && all.len() == n, "c03/request-ids-not-distinct", || format!("{} ids drawn on {threads} threads, {} distinct; case={case:?}", n, all.len()));
			return;
		}
		obs.class("threads:calls-through-one-client");
		let rt = tokio::runtime::Builder::new_multi_thread().worker_threads(threads.min(6)).enable_time().build().expect("runtime");
		let fails: Vec<String> = rt.block_on(async {
			let mc = MockClient::new(ClientCfg { id_kind: case.id_kind, max_concurrent_requests: 64, ..ClientCfg::default() });
			*mc.shared.auto_answer.lock() = Some(mc.to_client.clone());
			let mut hs = vec![];
			for t in 0..threads {
				let c = mc.client.clone();
				// the first caller makes batch requests, the others plain calls
				if t == 0 {
					hs.push(tokio::spawn(async move {
						let mut bad = vec![];
						for i in 0..per / 4 + 1 {
							let names: Vec<String> = (0..12).map(|k| format!("b_{i}_{k}")).collect();
							let mut b = BatchRequestBuilder::new();
							for n in &names {
								b.insert(n, rpc_params![]).unwrap();
							}
							match c.batch_request::<String>(b).await {
								Ok(r) => {
									let got: Vec<Option<String>> = r.into_iter().map(|e| e.ok()).collect();
									if got != names.iter().cloned().map(Some).collect::<Vec<_>>() {
										bad.push(format!("batch {i} => {got:?}"));
									}
								}
								Err(e) => bad.push(format!("batch {i} => {e:?}")),
							}
							if bad.len() > 2 {
								break;
							}
						}
						bad
					}));
					continue;
				}
				// with three or more callers the second one subscribes (the transport answers with the method name as the
				// subscription id) and drops each subscription at once
				if t == 1 && threads >= 3 {
					hs.push(tokio::spawn(async move {
						let mut bad = vec![];
						for i in 0..per / 2 + 1 {
							let name = format!("s_{i}");
							match c.subscribe::<Value, _>(&name, rpc_params![], "unsub").await {
								Ok(sub) => {
									let kind = format!("{:?}", sub.kind());
									if !kind.contains(&format!("\"{name}\"")) {
										bad.push(format!("subscribe {name} => a subscription of kind {kind}"));
									}
								}
								Err(e) => bad.push(format!("subscribe {name} => {e:?}")),
							}
							if bad.len() > 2 {
								break;
							}
						}
						bad
					}));
					continue;
				}
				hs.push(tokio::spawn(async move {
					let mut bad = vec![];
					for i in 0..per {
						let name = format!("m_{t}_{i}");
						match c.request::<String, _>(&name, rpc_params![]).await {
							Ok(r) if r == name => {}
							other => {
								bad.push(format!("{name} => {other:?}"));
								if bad.len() > 3 {
									break;
								}
							}
						}
					}
					bad
				}));
			}
			let mut fails = vec![];
			for h in hs {
				match h.await {
					Ok(b) => fails.extend(b),
					Err(e) => fails.push(format!("caller task: {e}")),
				}
			}
			fails
		});
		rt.shutdown_background();
		obs.check(fails.is_empty(), "c03/call-across-threads-not-answered-with-its-own-response", || format!("{:?}; case={case:?}", fails.iter().take(4).collect::<Vec<_>>()));
	}
}

#[allow(dead_code)]
fn _unused(_: HashMap<u8, u8>) {}

// ---------------------------------------------------------------------------------------------
// an answer arrives while the transport's send is stalled and the request queue is full (scenario shared with C05)
// ---------------------------------------------------------------------------------------------

pub struct WhileSendStalled;

impl SubCheck for WhileSendStalled {
	type Case = crate::props::c05::StalledCase;
	fn name(&self) -> &'static str {
		"answer-while-send-stalled"
	}
	fn cases(&self, tier: Tier) -> u32 {
		tier.pick(800, 8_000)
	}
	fn strategy(&self, tier: Tier) -> BoxedStrategy<Self::Case> {
		crate::props::c05::StalledSend.strategy(tier)
	}
	fn run(&self, case: &Self::Case, obs: &mut Obs) {
		let rt = rt();
		let fails = rt.block_on(crate::props::c05::stalled_send_scenario(case));
		obs.nontrivial();
		for (s, d) in fails {
			if s.starts_with("c03/") {
				obs.fail(s, d);
			}
		}
	}
}
