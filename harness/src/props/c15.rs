//! C15 — wire types round-trip; only valid JSON-RPC 2.0 is emitted; response parser strictness;
//! error code <-> kind mapping (exhaustive over i32).

use crate::engine::*;
use crate::json::*;
use jsonrpsee_types::error::*;
use jsonrpsee_types::{
	ErrorCode, ErrorObject, ErrorObjectOwned, Id, Notification, Request, Response, ResponsePayload, SubscriptionId,
	SubscriptionPayload, SubscriptionResponse,
};
use proptest::prelude::*;
use serde::{Deserialize, Serialize};
use serde_json::value::RawValue;
use serde_json::json;
use std::borrow::Cow;

// ---------------------------------------------------------------------------------------------
// generators shared with other properties
// ---------------------------------------------------------------------------------------------

#[derive(Clone, Debug, PartialEq, Serialize, Deserialize)]
pub enum GId {
	Null,
	Num(u64),
	Str(String),
}

impl GId {
	pub fn to_id(&self) -> Id<'static> {
		match self {
			GId::Null => Id::Null,
			GId::Num(n) => Id::Number(*n),
			GId::Str(s) => Id::Str(Cow::Owned(s.clone())),
		}
	}
	pub fn to_j(&self) -> J {
		match self {
			GId::Null => J::Null,
			GId::Num(n) => J::num(n),
			GId::Str(s) => J::str(s.clone()),
		}
	}
	pub fn interesting(&self) -> bool {
		match self {
			GId::Null => false,
			GId::Num(n) => *n > (1u64 << 53),
			GId::Str(s) => s.chars().any(|c| c == '"' || c == '\\' || (c as u32) < 0x20 || (c as u32) > 0x7e),
		}
	}
}

pub fn arb_u64_boundary() -> BoxedStrategy<u64> {
	prop_oneof![
		3 => 0u64..20,
		2 => proptest::sample::select(vec![
			0u64, 1, 255, 256, 65535, 65536, (1 << 31) - 1, 1 << 31, (1 << 32) - 1, 1 << 32, (1 << 53) - 1, 1 << 53,
			(1 << 53) + 1, (1 << 63) - 1, 1 << 63, (1 << 63) + 1, u64::MAX - 1, u64::MAX
		]),
		2 => any::<u64>(),
	]
	.boxed()
}

pub fn arb_gid() -> BoxedStrategy<GId> {
	prop_oneof![
		1 => Just(GId::Null),
		4 => arb_u64_boundary().prop_map(GId::Num),
		4 => arb_string(10).prop_map(GId::Str),
		1 => "[0-9]{1,20}".prop_map(GId::Str),
	]
	.boxed()
}

pub fn arb_code() -> BoxedStrategy<i32> {
	prop_oneof![
		3 => proptest::sample::select(vec![
			-32700, -32600, -32601, -32602, -32603, -32000, -32001, -32005, -32006, -32007, -32008, -32009, -32010, -32011,
			-32099, -32100, -32768, 0, 1, -1, i32::MAX, i32::MIN
		]),
		1 => -32800i32..-31900,
		1 => any::<i32>(),
	]
	.boxed()
}

// ---------------------------------------------------------------------------------------------
// independent shape checker
// ---------------------------------------------------------------------------------------------

/// JSON-RPC 2.0 shape of an emitted message, checked on the own reader's tree.
pub fn shape_problem(j: &J, kind: &str) -> Option<String> {
	let J::Obj(m) = j else { return Some("not an object".into()) };
	if j.has_dup_keys_top() {
		return Some("duplicate member".into());
	}
	if j.get("jsonrpc") != Some(&J::str("2.0")) {
		return Some("jsonrpc is not \"2.0\"".into());
	}
	let in_domain_id = |v: &J| match v {
		J::Null | J::Str(_) => true,
		J::Num(t) => t.parse::<u64>().is_ok(),
		_ => false,
	};
	match kind {
		"response" => {
			match j.get("id") {
				Some(id) if in_domain_id(id) => {}
				_ => return Some("response without in-domain id".into()),
			}
			let r = j.get("result").is_some();
			let e = j.get("error").is_some();
			if r == e {
				return Some("not exactly one of result/error".into());
			}
			if let Some(e) = j.get("error") {
				let ok = matches!(e.get("code"), Some(J::Num(t)) if t.parse::<i64>().is_ok())
					&& matches!(e.get("message"), Some(J::Str(_)));
				if !ok {
					return Some("malformed error object".into());
				}
			}
			for (k, _) in m {
				if !["jsonrpc", "id", "result", "error"].contains(&k.as_str()) {
					return Some(format!("unexpected member {k}"));
				}
			}
		}
		"request" => {
			match j.get("id") {
				Some(id) if in_domain_id(id) => {}
				_ => return Some("request without in-domain id".into()),
			}
			if !matches!(j.get("method"), Some(J::Str(_))) {
				return Some("method not a string".into());
			}
		}
		"notification" => {
			if j.get("id").is_some() {
				return Some("notification with id".into());
			}
			if !matches!(j.get("method"), Some(J::Str(_))) {
				return Some("method not a string".into());
			}
		}
		_ => {}
	}
	None
}

// ---------------------------------------------------------------------------------------------
// sub-check 1: round trips
// ---------------------------------------------------------------------------------------------

#[derive(Clone, Debug, Serialize, Deserialize)]
pub enum RtCase {
	Id(GId),
	SubId(GId),
	Error { code: i32, message: String, data: Option<J> },
	Request { id: GId, method: String, params: Option<J>, tape: Vec<u8> },
	Notification { method: String, params: Option<J> },
	ResponseOk { id: GId, result: J, tape: Vec<u8> },
	ResponseErr { id: GId, code: i32, message: String, data: Option<J> },
	SubResponse { method: String, sub: GId, result: J },
}

pub struct RoundTrip;

fn err_obj(code: i32, message: &str, data: &Option<J>) -> ErrorObjectOwned {
	ErrorObject::owned(code, message.to_string(), data.as_ref().map(|d| d.to_value()))
}

impl SubCheck for RoundTrip {
	type Case = RtCase;
	fn name(&self) -> &'static str {
		"roundtrip"
	}
	fn cases(&self, tier: Tier) -> u32 {
		tier.pick(400_000, 8_000_000)
	}
	fn strategy(&self, tier: Tier) -> BoxedStrategy<RtCase> {
		let d = tier.pick(4, 7);
		prop_oneof![
			arb_gid().prop_map(RtCase::Id),
			arb_gid().prop_filter("no null", |g| *g != GId::Null).prop_map(RtCase::SubId),
			(arb_code(), arb_string(20), proptest::option::of(arb_json(d)))
				.prop_map(|(code, message, data)| RtCase::Error { code, message, data }),
			// params `null` is not a JSON-RPC params value (must be structured) and the library treats it as absent by design
			(arb_gid(), arb_string(12), proptest::option::of(arb_json(d).prop_filter("params null == absent", |j| *j != J::Null)), arb_tape())
				.prop_map(|(id, method, params, tape)| RtCase::Request { id, method, params, tape }),
			(arb_string(12), proptest::option::of(arb_json(d))).prop_map(|(method, params)| RtCase::Notification { method, params }),
			(arb_gid(), arb_json(d), arb_tape()).prop_map(|(id, result, tape)| RtCase::ResponseOk { id, result, tape }),
			(arb_gid(), arb_code(), arb_string(20), proptest::option::of(arb_json(d)))
				.prop_map(|(id, code, message, data)| RtCase::ResponseErr { id, code, message, data }),
			(arb_string(10), arb_gid().prop_filter("no null", |g| *g != GId::Null), arb_json(d))
				.prop_map(|(method, sub, result)| RtCase::SubResponse { method, sub, result }),
		]
		.boxed()
	}
	fn run(&self, case: &RtCase, obs: &mut Obs) {
		match case {
			RtCase::Id(g) => {
				obs.class("id");
				if g.interesting() {
					obs.nontrivial();
				}
				let id = g.to_id();
				let text = serde_json::to_string(&id).unwrap();
				// independent expectation of the text's meaning
				match parse_strict(text.as_bytes()) {
					Ok(j) => {
						obs.check(j == g.to_j() || (matches!(g, GId::Num(_)) && j.to_value() == g.to_j().to_value()), "id/serialised-meaning", || {
							format!("{g:?} serialised as {text}")
						});
					}
					Err(e) => obs.fail("id/serialised-not-json", format!("{text}: {e:?}")),
				}
				match serde_json::from_str::<Id>(&text) {
					Ok(back) => {
						obs.check(back == id, "id/roundtrip", || format!("{id:?} -> {text} -> {back:?}"));
						// detached from the text it is the same id, and the accessors describe it
						let owned = back.clone().into_owned();
						obs.check(owned == id && serde_json::to_string(&owned).unwrap() == text, "id/into-owned-changes-value", || format!("{id:?} -> {owned:?}"));
						let acc_ok = match g {
							GId::Num(n) => owned.as_number() == Some(n) && owned.as_str().is_none() && owned.as_null().is_none(),
							GId::Str(s) => owned.as_str() == Some(s.as_str()) && owned.as_number().is_none() && owned.as_null().is_none(),
							GId::Null => owned.as_null() == Some(()) && owned.as_number().is_none() && owned.as_str().is_none(),
						};
						obs.check(acc_ok, "id/accessors", || format!("{g:?}: as_number={:?} as_str={:?} as_null={:?}", owned.as_number(), owned.as_str(), owned.as_null()));
						let again = serde_json::to_string(&back).unwrap();
						obs.check(again == text, "id/reserialise", || format!("{text} vs {again}"));
					}
					Err(e) => obs.fail("id/roundtrip-parse", format!("{text}: {e}")),
				}
			}
			RtCase::SubId(g) => {
				obs.class("subid");
				if g.interesting() {
					obs.nontrivial();
				}
				let sid: SubscriptionId<'static> = match g {
					GId::Num(n) => SubscriptionId::Num(*n),
					GId::Str(s) => SubscriptionId::Str(Cow::Owned(s.clone())),
					GId::Null => return,
				};
				let text = serde_json::to_string(&sid).unwrap();
				match serde_json::from_str::<SubscriptionId>(&text) {
					Ok(back) => {
						obs.check(back == sid, "subid/roundtrip", || format!("{sid:?} -> {text} -> {back:?}"));
						let owned = back.clone().into_owned();
						obs.check(owned == sid && serde_json::to_string(&owned).unwrap() == text, "subid/into-owned-changes-value", || format!("{sid:?} -> {owned:?}"));
						obs.check(serde_json::to_string(&back).unwrap() == text, "subid/reserialise", || text.clone());
					}
					Err(e) => obs.fail("subid/roundtrip-parse", format!("{text}: {e}")),
				}
				// conversion through JsonValue is the same id
				let v: serde_json::Value = sid.clone().into();
				match SubscriptionId::try_from(v) {
					Ok(b) => {
						obs.check(b == sid, "subid/value-conversion", || format!("{sid:?} vs {b:?}"));
					}
					Err(_) => obs.fail("subid/value-conversion", format!("{sid:?}")),
				}
			}
			RtCase::Error { code, message, data } => {
				obs.class("error");
				if data.as_ref().is_some_and(|d| d.is_container()) || message.chars().any(|c| c == '"' || c == '\\') {
					obs.nontrivial();
				}
				let e = err_obj(*code, message, data);
				obs.check(e.code() == *code, "error/code-accessor", || format!("{code} vs {}", e.code()));
				let text = serde_json::to_string(&e).unwrap();
				match parse_strict(text.as_bytes()) {
					Ok(j) => {
						let want_code = J::num(code);
						let ok = j.get("code") == Some(&want_code)
							&& j.get("message") == Some(&J::str(message.clone()))
							&& j.get("data").map(|d| d.to_value()) == data.as_ref().map(|d| d.to_value())
							&& !j.has_dup_keys_top();
						obs.check(ok, "error/serialised-meaning", || format!("code={code} msg={message:?} data={data:?} => {text}"));
					}
					Err(err) => obs.fail("error/serialised-not-json", format!("{text}: {err:?}")),
				}
				match serde_json::from_str::<ErrorObject>(&text) {
					Ok(back) => {
						obs.check(back == e, "error/roundtrip", || format!("{e:?} -> {text} -> {back:?}"));
						obs.check(back.code() == *code, "error/roundtrip-code", || format!("{code} -> {}", back.code()));
						let owned = back.clone().into_owned();
						obs.check(owned == e && serde_json::to_string(&owned).unwrap() == text, "error/into-owned-changes-value", || format!("{e:?} -> {owned:?}"));
						let borrowed = owned.borrow();
						obs.check(borrowed == e && serde_json::to_string(&borrowed).unwrap() == text, "error/borrow-changes-value", || format!("{e:?} -> {borrowed:?}"));
						obs.check(serde_json::to_string(&back).unwrap() == text, "error/reserialise", || text.clone());
					}
					Err(err) => obs.fail("error/roundtrip-parse", format!("{text}: {err}")),
				}
				// the same with the data given as JSON text (member order, number literals and escapes exactly as written):
				// what is parsed back carries that very text
				if let Some(d) = data {
					let dtext = d.compact();
					let raw = RawValue::from_string(dtext.clone()).expect("rendered JSON is valid");
					let e = ErrorObject::owned(*code, message.to_string(), Some(raw));
					let text = serde_json::to_string(&e).unwrap();
					obs.check(text.contains(&dtext), "error/raw-data-not-emitted-verbatim", || format!("{dtext} not in {text}"));
					match serde_json::from_str::<ErrorObject>(&text) {
						Ok(back) => {
							obs.check(back.data().map(|r| r.get()) == Some(dtext.as_str()), "error/raw-data-changed-by-parsing", || format!("{dtext} -> {:?}", back.data().map(|r| r.get())));
							obs.check(back == e, "error/roundtrip", || format!("{e:?} -> {text} -> {back:?}"));
							obs.check(serde_json::to_string(&back).unwrap() == text, "error/reserialise", || format!("{text} -> {}", serde_json::to_string(&back).unwrap()));
						}
						Err(err) => obs.fail("error/roundtrip-parse", format!("{text}: {err}")),
					}
					// ... also inside a response, as every client parse path sees it
					let rtext = format!(r#"{{"jsonrpc":"2.0","id":1,"error":{text}}}"#);
					match serde_json::from_str::<Response<serde_json::Value>>(&rtext) {
						Ok(r) => match r.payload {
							ResponsePayload::Error(back) => {
								obs.check(back.data().map(|r| r.get()) == Some(dtext.as_str()), "error/raw-data-changed-by-parsing", || format!("in a response: {dtext} -> {:?}", back.data().map(|r| r.get())));
							}
							_ => obs.fail("error/response-with-error-parsed-as-success", rtext.clone()),
						},
						Err(err) => obs.fail("error/roundtrip-parse", format!("{rtext}: {err}")),
					}
				}
			}
			RtCase::Request { id, method, params, tape } => {
				obs.class("request");
				if id.interesting() || params.as_ref().is_some_and(|p| p.is_container()) {
					obs.nontrivial();
				}
				let ptext = params.as_ref().map(|p| p.styled(&mut Style::new(tape.clone())));
				let raw: Option<Box<RawValue>> = ptext.as_ref().map(|t| RawValue::from_string(t.clone()).expect("rendered JSON is valid"));
				let req = Request::owned(method.clone(), raw, id.to_id());
				let text = serde_json::to_string(&req).unwrap();
				match parse_strict(text.as_bytes()) {
					Ok(j) => {
						if let Some(p) = shape_problem(&j, "request") {
							obs.fail("request/emitted-shape", format!("{p}: {text}"));
						}
						let ok = j.get("method") == Some(&J::str(method.clone()))
							&& j.get("id").map(|v| v.to_value()) == Some(id.to_j().to_value())
							&& j.get("params").map(|v| v.to_value()) == params.as_ref().map(|p| p.to_value());
						obs.check(ok, "request/serialised-meaning", || format!("{case:?} => {text}"));
					}
					Err(e) => obs.fail("request/serialised-not-json", format!("{text}: {e:?}")),
				}
				match serde_json::from_str::<Request>(&text) {
					Ok(back) => {
						let ok = back.id == id.to_id()
							&& back.method == method.as_str()
							&& back.params.as_ref().map(|p| p.get().to_string()) == ptext;
						obs.check(ok, "request/roundtrip", || format!("{text} -> {back:?}"));
						obs.check(serde_json::to_string(&back).unwrap() == text, "request/reserialise", || text.clone());
					}
					Err(e) => obs.fail("request/roundtrip-parse", format!("{text}: {e}")),
				}
			}
			RtCase::Notification { method, params } => {
				obs.class("notification");
				if params.as_ref().is_some_and(|p| p.is_container()) {
					obs.nontrivial();
				}
				// the params type is the caller's: a plain JSON value here (absent => null), whose image is injective
				let pv = params.as_ref().map(|p| p.to_value()).unwrap_or(serde_json::Value::Null);
				let n = Notification::new(Cow::Owned(method.clone()), pv.clone());
				let text = serde_json::to_string(&n).unwrap();
				match parse_strict(text.as_bytes()) {
					Ok(j) => {
						if let Some(p) = shape_problem(&j, "notification") {
							obs.fail("notification/emitted-shape", format!("{p}: {text}"));
						}
						let ok = j.get("method") == Some(&J::str(method.clone())) && j.get("params").map(|p| p.to_value()) == Some(pv.clone());
						obs.check(ok, "notification/serialised-meaning", || text.clone());
					}
					Err(e) => obs.fail("notification/serialised-not-json", format!("{text}: {e:?}")),
				}
				match serde_json::from_str::<Notification<serde_json::Value>>(&text) {
					Ok(back) => {
						obs.check(back.method == method.as_str() && back.params == pv, "notification/roundtrip", || {
							format!("{text} -> {back:?}")
						});
						obs.check(serde_json::to_string(&back).unwrap() == text, "notification/reserialise", || text.clone());
					}
					Err(e) => obs.fail("notification/roundtrip-parse", format!("{text}: {e}")),
				}
			}
			RtCase::ResponseOk { id, result, tape } => {
				obs.class("response-ok");
				if id.interesting() || result.is_container() {
					obs.nontrivial();
				}
				let rtext = result.styled(&mut Style::new(tape.clone()));
				let raw: Box<RawValue> = RawValue::from_string(rtext.clone()).unwrap();
				let rp: Response<Box<RawValue>> = Response::new(ResponsePayload::success(raw), id.to_id());
				let text = serde_json::to_string(&rp).unwrap();
				check_emitted_response(obs, &text, id, Some(result), None);
				match serde_json::from_str::<Response<Box<RawValue>>>(&text) {
					Ok(back) => {
						let ok = back.id == id.to_id()
							&& matches!(&back.payload, ResponsePayload::Success(r) if r.get() == rtext)
							&& back.jsonrpc.is_some();
						obs.check(ok, "response/roundtrip", || format!("{text} -> {back:?}"));
						obs.check(serde_json::to_string(&back).unwrap() == text, "response/reserialise", || text.clone());
					}
					Err(e) => obs.fail("response/roundtrip-parse", format!("{text}: {e}")),
				}
				// value-typed payload too
				let v = result.to_value();
				let rp2: Response<serde_json::Value> = Response::new(ResponsePayload::success(v.clone()), id.to_id());
				let text2 = serde_json::to_string(&rp2).unwrap();
				match serde_json::from_str::<Response<serde_json::Value>>(&text2) {
					Ok(back) => {
						let ok = back.id == id.to_id() && matches!(&back.payload, ResponsePayload::Success(r) if **r == v);
						obs.check(ok, "response/roundtrip-value", || format!("{text2} -> {back:?}"));
					}
					Err(e) => obs.fail("response/roundtrip-parse", format!("{text2}: {e}")),
				}
			}
			RtCase::ResponseErr { id, code, message, data } => {
				obs.class("response-err");
				if id.interesting() || data.is_some() {
					obs.nontrivial();
				}
				let e = err_obj(*code, message, data);
				let rp: Response<serde_json::Value> = Response::new(ResponsePayload::error(e.clone()), id.to_id());
				let text = serde_json::to_string(&rp).unwrap();
				check_emitted_response(obs, &text, id, None, Some((*code, message, data)));
				match serde_json::from_str::<Response<serde_json::Value>>(&text) {
					Ok(back) => {
						let ok = back.id == id.to_id() && matches!(&back.payload, ResponsePayload::Error(b) if *b == e && b.code() == *code);
						obs.check(ok, "response/roundtrip", || format!("{text} -> {back:?}"));
						obs.check(serde_json::to_string(&back).unwrap() == text, "response/reserialise", || text.clone());
					}
					Err(err) => obs.fail("response/roundtrip-parse", format!("{text}: {err}")),
				}
			}
			RtCase::SubResponse { method, sub, result } => {
				obs.class("sub-response");
				if sub.interesting() || result.is_container() {
					obs.nontrivial();
				}
				let sid: SubscriptionId<'static> = match sub {
					GId::Num(n) => SubscriptionId::Num(*n),
					GId::Str(s) => SubscriptionId::Str(Cow::Owned(s.clone())),
					GId::Null => return,
				};
				let v = result.to_value();
				let n: SubscriptionResponse<serde_json::Value> =
					Notification::new(Cow::Owned(method.clone()), SubscriptionPayload { subscription: sid.clone(), result: v.clone() });
				let text = serde_json::to_string(&n).unwrap();
				match parse_strict(text.as_bytes()) {
					Ok(j) => {
						if let Some(p) = shape_problem(&j, "notification") {
							obs.fail("subresponse/emitted-shape", format!("{p}: {text}"));
						}
						let p = j.get("params");
						let ok = p.and_then(|p| p.get("subscription")).map(|s| s.to_value()) == Some(sub.to_j().to_value())
							&& p.and_then(|p| p.get("result")).map(|s| s.to_value()) == Some(v.clone());
						obs.check(ok, "subresponse/serialised-meaning", || text.clone());
					}
					Err(e) => obs.fail("subresponse/serialised-not-json", format!("{text}: {e:?}")),
				}
				match serde_json::from_str::<SubscriptionResponse<serde_json::Value>>(&text) {
					Ok(back) => {
						let ok = back.method == method.as_str() && back.params.subscription == sid && back.params.result == v;
						obs.check(ok, "subresponse/roundtrip", || format!("{text} -> {back:?}"));
						obs.check(serde_json::to_string(&back).unwrap() == text, "subresponse/reserialise", || text.clone());
					}
					Err(e) => obs.fail("subresponse/roundtrip-parse", format!("{text}: {e}")),
				}
			}
		}
	}
}

fn check_emitted_response(obs: &mut Obs, text: &str, id: &GId, result: Option<&J>, error: Option<(i32, &String, &Option<J>)>) {
	match parse_strict(text.as_bytes()) {
		Ok(j) => {
			if let Some(p) = shape_problem(&j, "response") {
				obs.fail("response/emitted-shape", format!("{p}: {text}"));
			}
			let mut ok = j.get("id").map(|v| v.to_value()) == Some(id.to_j().to_value());
			if let Some(r) = result {
				ok &= j.get("result").map(|v| v.to_value()) == Some(r.to_value());
			}
			if let Some((code, msg, data)) = error {
				let e = j.get("error");
				ok &= e.and_then(|e| e.get("code")) == Some(&J::num(code))
					&& e.and_then(|e| e.get("message")) == Some(&J::str(msg.clone()))
					&& e.and_then(|e| e.get("data")).map(|d| d.to_value()) == data.as_ref().map(|d| d.to_value());
			}
			obs.check(ok, "response/serialised-meaning", || text.to_string());
		}
		Err(e) => obs.fail("response/serialised-not-json", format!("{text}: {e:?}")),
	}
}

// ---------------------------------------------------------------------------------------------
// sub-check 2: response parser accepts exactly the stated objects
// ---------------------------------------------------------------------------------------------

#[derive(Clone, Debug, Serialize, Deserialize, PartialEq)]
pub enum Member {
	JsonrpcOk,
	JsonrpcNull,
	JsonrpcOne,
	JsonrpcNum,
	IdIn(GId),
	/// out-of-domain id, as raw JSON text
	IdOut(String),
	Result(J),
	ErrorOk { code: i32, message: String, data: Option<J> },
	Unknown(String, J),
	/// an error object whose code is an integer no i32 holds (acceptance is not judged; what is accepted must still be
	/// what the text says)
	ErrorWide { code: i64, message: String },
}

#[derive(Clone, Debug, Serialize, Deserialize)]
pub struct ParserCase {
	pub members: Vec<Member>,
	pub tape: Vec<u8>,
}

pub fn arb_member(d: u32) -> BoxedStrategy<Member> {
	prop_oneof![
		4 => Just(Member::JsonrpcOk),
		1 => Just(Member::JsonrpcNull),
		1 => Just(Member::JsonrpcOne),
		1 => Just(Member::JsonrpcNum),
		6 => arb_gid().prop_map(Member::IdIn),
		1 => proptest::sample::select(vec!["-1", "1.5", "1e2", "18446744073709551616", "true", "false", "[]", "{}", "[1]", "{\"a\":1}", "-0.0"]).prop_map(|s| Member::IdOut(s.to_string())),
		5 => arb_json(d).prop_map(Member::Result),
		4 => (arb_code(), arb_string(8), proptest::option::of(arb_json(2))).prop_map(|(code, message, data)| Member::ErrorOk { code, message, data }),
		2 => ("[a-z]{1,5}".prop_filter("unknown", |k| !["jsonrpc", "id", "result", "error"].contains(&k.as_str())), arb_json(2)).prop_map(|(k, v)| Member::Unknown(k, v)),
		1 => (arb_wide_code(), arb_string(4)).prop_map(|(code, message)| Member::ErrorWide { code, message }),
	]
	.boxed()
}

/// integers outside i32: the neighbours of its bounds, every i32 code shifted by a multiple of 2^32 (what a narrowing cast
/// would fold onto a real code), the bounds of i64
pub fn arb_wide_code() -> BoxedStrategy<i64> {
	let shift = prop_oneof![Just(1i64 << 32), Just(-(1i64 << 32)), Just(1i64 << 33), Just(-(1i64 << 33)), Just(1i64 << 40), Just(-(1i64 << 62))];
	prop_oneof![
		2 => proptest::sample::select(vec![1i64 << 31, (1i64 << 31) + 1, -(1i64 << 31) - 1, 1i64 << 32, (1i64 << 32) - 1, -(1i64 << 32), i64::MAX, i64::MIN]),
		4 => (arb_code(), shift).prop_map(|(c, s)| c as i64 + s),
		1 => any::<i64>().prop_filter("outside i32", |c| i32::try_from(*c).is_err()),
	]
	.boxed()
}

pub fn render_members(members: &[Member], tape: &[u8]) -> String {
	let mut m: Vec<(String, J)> = vec![];
	for mem in members {
		match mem {
			Member::JsonrpcOk => m.push(("jsonrpc".into(), J::str("2.0"))),
			Member::JsonrpcNull => m.push(("jsonrpc".into(), J::Null)),
			Member::JsonrpcOne => m.push(("jsonrpc".into(), J::str("1.0"))),
			Member::JsonrpcNum => m.push(("jsonrpc".into(), J::num("2.0"))),
			Member::IdIn(g) => m.push(("id".into(), g.to_j())),
			Member::IdOut(t) => m.push(("id".into(), parse_strict(t.as_bytes()).unwrap())),
			Member::Result(j) => m.push(("result".into(), j.clone())),
			Member::ErrorOk { code, message, data } => {
				let mut e = vec![("code".to_string(), J::num(code)), ("message".to_string(), J::str(message.clone()))];
				if let Some(d) = data {
					e.push(("data".to_string(), d.clone()));
				}
				m.push(("error".into(), J::Obj(e)));
			}
			Member::Unknown(k, v) => m.push((k.clone(), v.clone())),
			Member::ErrorWide { code, message } => {
				m.push(("error".into(), J::Obj(vec![("code".to_string(), J::num(code)), ("message".to_string(), J::str(message.clone()))])));
			}
		}
	}
	J::Obj(m).styled(&mut Style::new(tape.to_vec()))
}

/// The acceptance predicate as the property states it, on the own reader's tree.
pub fn response_should_be_accepted(j: &J) -> bool {
	let J::Obj(_) = j else { return false };
	let ids = j.get_all("id");
	let results = j.get_all("result");
	let errors = j.get_all("error");
	let versions = j.get_all("jsonrpc");
	if ids.len() != 1 || versions.len() > 1 || results.len() > 1 || errors.len() > 1 {
		return false;
	}
	let id_ok = match ids[0] {
		J::Null | J::Str(_) => true,
		J::Num(t) => t.parse::<u64>().is_ok(),
		_ => false,
	};
	if !id_ok {
		return false;
	}
	if results.len() + errors.len() != 1 {
		return false;
	}
	if let Some(v) = versions.first() {
		if !(**v == J::Null || **v == J::str("2.0")) {
			return false;
		}
	}
	true
}

/// true if the error member (if any) is a well-formed error object (code in i32, message string,
/// optional data, nothing else, no duplicates) — outside that, acceptance is not judged.
pub fn error_member_well_formed(j: &J) -> bool {
	for e in j.get_all("error") {
		let J::Obj(m) = e else { return false };
		if e.has_dup_keys_top() {
			return false;
		}
		for (k, _) in m {
			if !["code", "message", "data"].contains(&k.as_str()) {
				return false;
			}
		}
		let code_ok = matches!(e.get("code"), Some(J::Num(t)) if t.parse::<i32>().is_ok());
		let msg_ok = matches!(e.get("message"), Some(J::Str(_)));
		if !code_ok || !msg_ok {
			return false;
		}
	}
	true
}

pub struct ParserStrictness;

impl SubCheck for ParserStrictness {
	type Case = ParserCase;
	fn name(&self) -> &'static str {
		"response-parser"
	}
	fn cases(&self, tier: Tier) -> u32 {
		tier.pick(600_000, 12_000_000)
	}
	fn strategy(&self, tier: Tier) -> BoxedStrategy<ParserCase> {
		let d = tier.pick(3, 5);
		let random = proptest::collection::vec(arb_member(d), 0..7);
		// a valid response (optional version, one in-domain id, one payload), then 0..2 extra members, then a shuffle
		let valid_base = (
			proptest::option::weighted(0.8, prop_oneof![4 => Just(Member::JsonrpcOk), 1 => Just(Member::JsonrpcNull)]),
			arb_gid().prop_map(Member::IdIn),
			prop_oneof![
				arb_json(d).prop_map(Member::Result),
				(arb_code(), arb_string(8), proptest::option::of(arb_json(2))).prop_map(|(code, message, data)| Member::ErrorOk { code, message, data }),
				(arb_wide_code(), arb_string(4)).prop_map(|(code, message)| Member::ErrorWide { code, message })
			],
			proptest::collection::vec(arb_member(d), 0..3),
			proptest::collection::vec(any::<u16>(), 8),
		)
			.prop_map(|(v, id, payload, extra, perm)| {
				let mut m: Vec<Member> = v.into_iter().chain([id, payload]).chain(extra).collect();
				// deterministic shuffle driven by generated selectors
				for i in (1..m.len()).rev() {
					let j = pick_idx(perm[i % perm.len()], i + 1);
					m.swap(i, j);
				}
				m
			});
		(prop_oneof![1 => random, 2 => valid_base], arb_tape()).prop_map(|(members, tape)| ParserCase { members, tape }).boxed()
	}
	fn run(&self, case: &ParserCase, obs: &mut Obs) {
		let text = render_members(&case.members, &case.tape);
		let j = parse_strict(text.as_bytes()).expect("rendered text is JSON");
		let want = response_should_be_accepted(&j);
		// an error member outside the error object's own domain (code no i32 holds): acceptance is not judged
		let judged = error_member_well_formed(&j);
		obs.class(if !judged { "error-code-outside-i32" } else if want { "accept" } else { "reject" });
		if case.members.len() >= 3 {
			obs.nontrivial();
		}
		let got = serde_json::from_str::<Response<&RawValue>>(&text);
		let got_ok = got.is_ok();
		obs.check(!judged || got_ok == want, if want { "parser/rejects-valid-response" } else { "parser/accepts-invalid-response" }, || {
			format!("{text} => accepted={got_ok}, expected={want}; err={:?}", got.as_ref().err().map(|e| e.to_string()))
		});
		if let Ok(rp) = got {
			// the parsed pieces are the ones in the text
			let id_ok = serde_json::to_value(&rp.id).ok() == j.get("id").map(|v| v.to_value());
			let payload_ok = match &rp.payload {
				ResponsePayload::Success(r) => {
					parse_strict(r.get().as_bytes()).ok().map(|v| v.to_value()) == j.get("result").map(|v| v.to_value())
				}
				ResponsePayload::Error(e) => {
					let ej = j.get("error");
					ej.and_then(|e| e.get("code")) == Some(&J::num(e.code()))
						&& ej.and_then(|e| e.get("message")) == Some(&J::str(e.message()))
				}
			};
			obs.check(id_ok && payload_ok, "parser/wrong-content", || format!("{text} => {rp:?}"));
		}
		// typed payload must agree on acceptance as well
		let parsed_v = serde_json::from_str::<Response<serde_json::Value>>(&text);
		let got_v = parsed_v.is_ok();
		obs.check(!judged || got_v == want, "parser/value-typed-disagrees", || format!("{text} => accepted={got_v}, expected={want}"));
		// what was parsed is the same value once it has been detached from the text (both clients do that to every
		// response before anybody looks at it)
		if let Ok(rp) = parsed_v {
			let before = (rp.jsonrpc.is_some(), serde_json::to_string(&rp).unwrap());
			let owned = rp.into_owned();
			let after = (owned.jsonrpc.is_some(), serde_json::to_string(&owned).unwrap());
			obs.check(before == after, "response/into-owned-changes-value", || format!("{text}: (has version, serialised) {before:?} before into_owned(), {after:?} after"));
		}
		if let Ok(rp) = serde_json::from_str::<Response<Box<RawValue>>>(&text) {
			let before = (rp.jsonrpc.is_some(), serde_json::to_string(&rp).unwrap());
			let owned = rp.into_owned();
			let after = (owned.jsonrpc.is_some(), serde_json::to_string(&owned).unwrap());
			obs.check(before == after, "response/into-owned-changes-value", || format!("{text}: (has version, serialised) {before:?} before into_owned(), {after:?} after"));
		}
	}
}

/// Byte-level differential used by the fuzz target and the corpus replay: arbitrary bytes.
/// Returns Some(failure description) on disagreement.
pub fn response_bytes_oracle(bytes: &[u8]) -> Option<String> {
	let got = serde_json::from_slice::<Response<&RawValue>>(bytes);
	match parse_strict(bytes) {
		Err(JsonErr(_, "lone surrogate")) | Err(JsonErr(_, "invalid utf-8")) => None,
		Err(_) => {
			if got.is_ok() {
				Some(format!("not JSON but accepted: {:?}", String::from_utf8_lossy(bytes)))
			} else {
				None
			}
		}
		Ok(j) => {
			if j.depth() > 100 || !j.numbers_in_range() || !error_member_well_formed(&j) {
				return None;
			}
			// duplicate names inside nested values are outside the stated predicate
			let want = response_should_be_accepted(&j);
			if got.is_ok() != want {
				Some(format!("accepted={} expected={want}: {}", got.is_ok(), String::from_utf8_lossy(bytes)))
			} else {
				None
			}
		}
	}
}

// ---------------------------------------------------------------------------------------------
// error codes: exhaustive over i32
// ---------------------------------------------------------------------------------------------

/// every kind the library defines (a new variant makes this match non-exhaustive => compile error
/// in the harness, which is the signal to extend the list)
fn all_named_kinds() -> Vec<ErrorCode> {
	let v = vec![
		ErrorCode::ParseError,
		ErrorCode::OversizedRequest,
		ErrorCode::InvalidRequest,
		ErrorCode::MethodNotFound,
		ErrorCode::ServerIsBusy,
		ErrorCode::InvalidParams,
		ErrorCode::InternalError,
	];
	for k in &v {
		match k {
			ErrorCode::ParseError
			| ErrorCode::OversizedRequest
			| ErrorCode::InvalidRequest
			| ErrorCode::MethodNotFound
			| ErrorCode::ServerIsBusy
			| ErrorCode::InvalidParams
			| ErrorCode::InternalError
			| ErrorCode::ServerError(_) => {}
		}
	}
	v
}

pub fn error_codes(ctx: &mut Ctx) {
	// kinds -> code -> kind
	let named = all_named_kinds();
	let named_codes: Vec<i32> = named.iter().map(|k| k.code()).collect();
	for k in &named {
		ctx.add_evaluations(1);
		let back = ErrorCode::from(k.code());
		ctx.add_distinct(hash_of(&("kind", k.code())));
		if back != *k {
			ctx.violation_raw(
				"error-codes",
				&format!("error-kind-roundtrip/{k:?}"),
				&format!("ErrorCode::from({k:?}.code()={}) == {back:?}", k.code()),
				json!({"kind": format!("{k:?}"), "code": k.code()}),
			);
		}
		// serde path
		let text = serde_json::to_string(k).unwrap();
		let de: ErrorCode = serde_json::from_str(&text).unwrap();
		if de != *k || text != k.code().to_string() {
			ctx.violation_raw(
				"error-codes",
				&format!("error-kind-serde-roundtrip/{k:?}"),
				&format!("{k:?} -> {text} -> {de:?}"),
				json!({"kind": format!("{k:?}"), "code": k.code()}),
			);
		}
	}
	// distinct codes for distinct kinds
	{
		let mut s = std::collections::HashSet::new();
		for c in &named_codes {
			if !s.insert(*c) {
				ctx.violation_raw("error-codes", "error-kind-codes-collide", &format!("code {c} used twice"), json!({"code": c}));
			}
		}
	}
	// constants are what the spec / the crate documents
	let consts = [
		(PARSE_ERROR_CODE, -32700),
		(INVALID_REQUEST_CODE, -32600),
		(METHOD_NOT_FOUND_CODE, -32601),
		(INVALID_PARAMS_CODE, -32602),
		(INTERNAL_ERROR_CODE, -32603),
		(BATCHES_NOT_SUPPORTED_CODE, -32005),
		(TOO_MANY_SUBSCRIPTIONS_CODE, -32006),
		(OVERSIZED_REQUEST_CODE, -32007),
		(OVERSIZED_RESPONSE_CODE, -32008),
		(SERVER_IS_BUSY_CODE, -32009),
		(TOO_BIG_BATCH_REQUEST_CODE, -32010),
		(TOO_BIG_BATCH_RESPONSE_CODE, -32011),
	];
	for (got, want) in consts {
		ctx.add_evaluations(1);
		if got != want {
			ctx.violation_raw("error-codes", "error-constant-changed", &format!("{got} != {want}"), json!({"got": got, "want": want}));
		}
	}
	// all 2^32 integers: code -> kind -> code, and ServerError(c) canonical for unnamed codes
	let threads = 16u64;
	let bad: Vec<(i32, String)> = std::thread::scope(|s| {
		let hs: Vec<_> = (0..threads)
			.map(|t| {
				let named_codes = named_codes.clone();
				s.spawn(move || {
					let mut bad = vec![];
					let lo = (t * (1u64 << 32) / threads) as i64 + i32::MIN as i64;
					let hi = ((t + 1) * (1u64 << 32) / threads) as i64 + i32::MIN as i64;
					for c in lo..hi {
						let c = c as i32;
						let k = ErrorCode::from(c);
						if k.code() != c {
							if bad.len() < 4 {
								bad.push((c, format!("ErrorCode::from({c}) = {k:?} with code {}", k.code())));
							}
							continue;
						}
						let is_named = named_codes.contains(&c);
						let is_server = matches!(k, ErrorCode::ServerError(_));
						if is_named == is_server && bad.len() < 4 {
							bad.push((c, format!("ErrorCode::from({c}) = {k:?}; named-code={is_named}")));
						}
					}
					bad
				})
			})
			.collect();
		hs.into_iter().flat_map(|h| h.join().unwrap()).collect()
	});
	ctx.add_evaluations(1u64 << 32);
	ctx.note_class("error-codes:i32-exhaustive", 1u64 << 32);
	for c in [-32700i32, -32009, -32603, 0, i32::MIN, i32::MAX] {
		ctx.add_distinct(hash_of(&("code", c)));
	}
	ctx.add_sample(json!({"sub": "error-codes", "case": "all i32 c: ErrorCode::from(c).code()==c; named kinds k: ErrorCode::from(k.code())==k"}));
	// integers on the wire that no i32 holds: whatever reads one as an error kind cannot map it back to the same integer,
	// so such a code is either refused or (should the code type ever widen) read as exactly that integer
	let mut wide: Vec<i128> = vec![1 << 31, (1 << 31) + 1, -(1 << 31) - 1, 1 << 32, (1 << 32) - 1, -(1i128 << 32), i64::MAX as i128, i64::MIN as i128, u64::MAX as i128];
	for c in named_codes.iter().copied().chain([0, 1, -1, -32000, -32099, i32::MAX, i32::MIN]) {
		for s in [1i128 << 32, -(1i128 << 32), 1 << 33, -(1i128 << 33)] {
			wide.push(c as i128 + s);
		}
	}
	for w in wide {
		ctx.add_evaluations(3);
		ctx.add_distinct(hash_of(&("wide", w as i64, (w >> 64) as i64)));
		let mut seen: Vec<(&str, i32)> = vec![];
		if let Ok(k) = serde_json::from_str::<ErrorCode>(&w.to_string()) {
			seen.push(("ErrorCode", k.code()));
		}
		let obj = format!(r#"{{"code":{w},"message":"m"}}"#);
		if let Ok(e) = serde_json::from_str::<ErrorObjectOwned>(&obj) {
			seen.push(("ErrorObject", e.code()));
		}
		let resp = format!(r#"{{"jsonrpc":"2.0","error":{obj},"id":1}}"#);
		if let Ok(r) = serde_json::from_str::<Response<&RawValue>>(&resp) {
			if let ResponsePayload::Error(e) = &r.payload {
				seen.push(("Response", e.code()));
			}
		}
		for (what, got) in seen {
			if got as i128 != w {
				ctx.violation_raw(
					"error-codes",
					"error-code-wire-integer-not-preserved",
					&format!("the integer {w} on the wire was read by {what} as the error code {got}"),
					json!({"wire": w.to_string(), "read_by": what, "code": got}),
				);
			}
		}
	}
	ctx.note_class("error-codes:wire-integers-outside-i32", 1);
	for (c, d) in bad {
		let sig = if named_codes.contains(&c) {
			let k = named.iter().find(|k| k.code() == c).unwrap();
			format!("error-kind-roundtrip/{k:?}")
		} else {
			"error-code-roundtrip".to_string()
		};
		ctx.violation_raw("error-codes", &sig, &d, json!({"code": c}));
	}
}

// ---------------------------------------------------------------------------------------------
// corpus replay of the byte-level target (quick tier runs this on the stable toolchain)
// ---------------------------------------------------------------------------------------------

pub fn corpus_replay(ctx: &mut Ctx) {
	let dir = verif_root().join("corpus/c15_response");
	let mut n = 0u64;
	if let Ok(rd) = std::fs::read_dir(&dir) {
		let mut files: Vec<_> = rd.filter_map(|e| e.ok()).map(|e| e.path()).collect();
		files.sort();
		for f in files {
			let Ok(bytes) = std::fs::read(&f) else { continue };
			n += 1;
			if let Some(d) = response_bytes_oracle(&bytes) {
				ctx.violation_raw("response-bytes", "parser/bytes-differential", &d, json!({"file": f.display().to_string(), "bytes": String::from_utf8_lossy(&bytes)}));
			}
		}
	}
	ctx.add_evaluations(n);
	ctx.note_class("response-bytes:corpus-files", n);
}

pub fn check(ctx: &mut Ctx) {
	ctx.rule = "generated wire values (ids incl. u64 boundaries / escaped Unicode strings, error objects, requests, notifications, responses) \
		serialised, re-read by an independent strict JSON reader and parsed back; response texts assembled from member lists \
		(every subset/order/duplication of jsonrpc/id/result/error/unknown) vs the stated acceptance predicate; all 2^32 error codes. \
		Non-trivial = id is a string needing escapes or a u64 > 2^53, container payloads, parser cases with >= 3 members; distinct by case value."
		.into();
	ctx.assumptions = vec![
		"serde_json number/escape semantics are trusted (floats limited to short decimal forms)".into(),
		"malformed error objects inside a response are outside the stated acceptance predicate (not judged)".into(),
		"ServerError(c) is a defined kind only for codes c that no named kind uses".into(),
	];
	ctx.run_sub(&RoundTrip);
	ctx.run_sub(&ParserStrictness);
	error_codes(ctx);
	corpus_replay(ctx);
	fuzz_campaign(ctx, "c15_response", 5_000_000, 256);
	ctx.exhaustive = false;
	ctx.extra.insert("error_codes_exhaustive_i32".into(), json!(true));
}

pub fn replay(file: &serde_json::Value) -> Option<i32> {
	replay_with(&RoundTrip, file, "C15").or_else(|| replay_with(&ParserStrictness, file, "C15")).or_else(|| {
		if file["subcheck"] == "error-codes" {
			let mut ctx = Ctx::new("C15", Tier::Quick, 0, "exploration");
			ctx.set_replay_only();
			error_codes(&mut ctx);
			Some(if ctx.has_violations() { 1 } else { 0 })
		} else {
			None
		}
	})
}
