//! C04 — server: a subscription's notifications are its own, ordered, and stop at close.

use crate::engine::*;
use crate::fix::server::*;
use crate::props::subs::*;
use proptest::prelude::*;
use serde_json::{Value, json};

pub struct Notifications;

fn family_notif(b: bool) -> &'static str {
	if b { "notif_b" } else { "notif_a" }
}

async fn run_case(case: &SubCase, obs: &mut Obs) {
	let mut w = SubWorld::new(case, 256, false).await;
	for step in &case.steps {
		let settle_after = !matches!(step, H::PauseRead { .. });
		w.step(step, settle_after).await;
	}
	w.finish().await;
	// let the handlers that are still running finish quietly, then look at the frames once more
	let open_at_end: Vec<bool> = w.conns.iter().map(|c| c.open).collect();
	let stopped = w.stopped;
	let mut fails: Vec<(String, String)> = std::mem::take(&mut w.failures);
	let mut live_interleaved = false;
	let mut send_after_close = false;
	for (ci, c) in w.conns.iter().enumerate() {
		// index of the accepting response of each instance
		let mut accept_idx: std::collections::HashMap<usize, usize> = Default::default();
		for (fi, f) in c.frames.iter().enumerate() {
			if let Some(id) = f["id"].as_str() {
				if let Some(i) = w.insts.iter().position(|x| x.conn == ci && x.req_id == id) {
					if f.get("result").is_some() {
						accept_idx.insert(i, fi);
					}
				}
			}
		}
		let mut items: std::collections::HashMap<usize, Vec<u32>> = Default::default();
		let mut closes: std::collections::HashMap<usize, Vec<usize>> = Default::default();
		let mut last_item_idx: std::collections::HashMap<usize, usize> = Default::default();
		let mut order: Vec<usize> = vec![];
		for (fi, f) in c.frames.iter().enumerate() {
			let Some(method) = f["method"].as_str() else { continue };
			let sid = &f["params"]["subscription"];
			let Some(i) = w.insts.iter().position(|x| x.sub_id.as_ref() == Some(sid)) else {
				fails.push(("c04/notification-for-unknown-subscription".into(), format!("conn {ci} frame {f}")));
				continue;
			};
			let x = &w.insts[i];
			if x.conn != ci {
				fails.push(("c04/notification-on-foreign-connection".into(), format!("conn {ci} got {f} of instance {x:?}")));
				continue;
			}
			if x.phase != Phase::Accepted {
				fails.push(("c04/notification-for-unaccepted-subscription".into(), format!("{f} of {x:?}")));
			}
			if method != family_notif(x.b) {
				fails.push(("c04/wrong-notification-method".into(), format!("{f}, expected method {}", family_notif(x.b))));
			}
			match accept_idx.get(&i) {
				Some(a) if *a < fi => {}
				_ => fails.push(("c04/notification-before-accepting-response".into(), format!("conn {ci}: frame #{fi} {f}; accepting response at {:?}", accept_idx.get(&i)))),
			}
			if let Some(n) = f["params"]["result"]["item"].as_u64() {
				items.entry(i).or_default().push(n as u32);
				last_item_idx.insert(i, fi);
				order.push(i);
			} else if f["params"].get("error").is_some() || f["params"]["result"].get("close").is_some() {
				closes.entry(i).or_default().push(fi);
			} else {
				fails.push(("c04/unexpected-notification-payload".into(), format!("{f}")));
			}
		}
		// interleaving of >= 2 live subscriptions
		let distinct: std::collections::HashSet<usize> = order.iter().copied().collect();
		if distinct.len() >= 2 && order.windows(2).filter(|w| w[0] != w[1]).count() >= 2 {
			live_interleaved = true;
		}
		for (i, x) in w.insts.iter().enumerate().filter(|(_, x)| x.conn == ci) {
			let wire = items.get(&i).cloned().unwrap_or_default();
			let ok: Vec<u32> = x.sends.iter().filter(|s| matches!(s.1, Some(Ack::SendOk) | Some(Ack::TrySendOk))).map(|s| s.0).collect();
			let refused: Vec<u32> = x.sends.iter().filter(|s| matches!(s.1, Some(Ack::SendErr) | Some(Ack::TrySendFull) | Some(Ack::TrySendClosed))).map(|s| s.0).collect();
			let ctx = || format!("conn {ci} instance #{i} {x:?}: on the wire {wire:?}, acknowledged Ok {ok:?}, refused {refused:?}");
			if wire.iter().any(|n| refused.contains(n)) {
				fails.push(("c04/refused-send-was-delivered".into(), ctx()));
			}
			let complete = open_at_end[ci] && !stopped;
			if complete {
				if wire != ok {
					fails.push(("c04/items-differ-from-acknowledged-sends".into(), ctx()));
				}
			} else if !(wire.len() <= ok.len() && wire[..] == ok[..wire.len()]) {
				fails.push(("c04/items-not-a-prefix-of-acknowledged-sends".into(), ctx()));
			}
			for s in &x.sends {
				if s.2 {
					send_after_close = true;
					if matches!(s.1, Some(Ack::SendOk) | Some(Ack::TrySendOk)) || wire.contains(&s.0) {
						fails.push(("c04/send-after-observed-close-delivered".into(), format!("item {} ; {}", s.0, ctx())));
					}
				}
			}
			let cl = closes.get(&i).cloned().unwrap_or_default();
			if cl.len() > 1 {
				fails.push(("c04/more-than-one-closing-notification".into(), ctx()));
			}
			if let Some(cf) = cl.first() {
				if x.phase != Phase::Accepted || !matches!(x.returned, Some(Cmd::ReturnErr(_)) | Some(Cmd::ReturnNotif(_))) {
					fails.push(("c04/closing-notification-without-cause".into(), format!("frame #{cf}; {}", ctx())));
				}
				if last_item_idx.get(&i).is_some_and(|li| li > cf) {
					fails.push(("c04/item-after-closing-notification".into(), ctx()));
				}
			}
			if x.phase != Phase::Accepted && (!wire.is_empty() || !cl.is_empty()) {
				fails.push(("c04/rejected-subscription-produced-notifications".into(), ctx()));
			}
		}
	}
	if live_interleaved || send_after_close {
		obs.nontrivial();
	}
	if live_interleaved {
		obs.class("interleaved-live-subscriptions");
	}
	if send_after_close {
		obs.class("send-after-close-event");
	}
	if case.steps.iter().any(|s| matches!(s, H::PauseRead { .. })) {
		obs.class("with-paused-reader");
	}
	if case.steps.iter().any(|s| matches!(s, H::Burst(_))) {
		obs.class("with-burst");
	}
	obs.class(format!("buffer:{}", case.buf));
	let sample: Vec<Value> = w.conns.iter().map(|c| json!(c.frames.iter().take(6).collect::<Vec<_>>())).collect();
	obs.sample(json!({"steps": format!("{:?}", case.steps), "frames": sample}));
	for (s, d) in fails {
		obs.fail(s, format!("{d}; case={case:?}"));
	}
	// release everything still blocked
	for i in 0..w.insts.len() {
		if w.insts[i].returned.is_none() {
			w.command(i, Cmd::ReturnOk).await;
		}
	}
	settle().await;
}

impl SubCheck for Notifications {
	type Case = SubCase;
	fn name(&self) -> &'static str {
		"notifications"
	}
	fn cases(&self, tier: Tier) -> u32 {
		tier.pick(150_000, 3_000_000)
	}
	fn strategy(&self, tier: Tier) -> BoxedStrategy<SubCase> {
		let max = tier.pick(24usize, 48);
		(1u8..4, proptest::sample::select(vec![1u32, 2, 1024]), any::<bool>(), proptest::collection::vec(arb_step(true), 1..max), 1usize..4, proptest::bool::weighted(0.15))
			.prop_map(|(conns, buf, string_ids, mut steps, pre, stop)| {
				// most histories start with a few accepted subscriptions on connection 0
				let mut head = vec![];
				for k in 0..pre {
					head.push(H::Subscribe { conn: if k == 2 { 1 } else { 0 }, b: k % 2 == 1, reuse: None });
					head.push(H::Act { inst: u16::MAX, cmd: Cmd::Accept });
				}
				head.extend(steps);
				steps = head;
				if stop {
					let at = steps.len() * 2 / 3;
					steps.insert(at, H::Stop);
				}
				SubCase { conns, cap: 16, buf, string_ids, steps, sweep_drop: false, lowlevel: false, per_conn_middleware: 0, id_escapes: buf % 2 == 0 }
			})
			.boxed()
	}
	fn run(&self, case: &SubCase, obs: &mut Obs) {
		let rt = rt();
		rt.block_on(run_case(case, obs));
	}
}

pub fn check(ctx: &mut Ctx) {
	ctx.rule = "histories over 1..3 WebSocket connections and several subscription instances of two methods (two notification names): subscribe, actor commands (Accept / Reject / DropPending / Send / TrySend / CloneSink / DropSink / IsClosed / closed() / Return Ok|Err|Notif), \
		unsubscribe (own / foreign / stale), peer close (clean / abrupt), server stop; message_buffer_capacity in {1, 2, 1024}, a 256-byte transport and a peer that can stop reading (back-pressure), bursts of steps without a barrier in between. \
		Oracle: invariants over each connection's ordered frame log and the actors' acknowledgements (own id and method, after the accepting response, payloads = acknowledged sends in order (a prefix if the connection ended / server stopped), refused sends never appear, nothing for rejected instances, \
		sends issued after an observed close are refused, at most one closing notification, after all items). Non-trivial = >= 2 live subscriptions with interleaved items, or a close event followed by a send; distinct by case value."
		.into();
	ctx.assumptions = vec!["schedules = order of harness operations x burst boundaries x back-pressure (paused reader, tiny buffers); current-thread runtime".into()];
	ctx.run_sub(&Notifications);
}

pub fn replay(file: &serde_json::Value) -> Option<i32> {
	replay_with(&Notifications, file, "C04")
}
