//! C06 — server: subscription bookkeeping is exact and respects the per-connection cap.

use crate::engine::*;
use crate::fix::server::*;
use crate::props::subs::*;
use proptest::prelude::*;
use serde_json::json;

pub struct Bookkeeping;

async fn run_once(case: &SubCase, drop_at: Option<usize>, obs: &mut Obs) {
	let mut w = SubWorld::new(case, 64 * 1024, true).await;
	let mut judged = 0usize;
	let mut classes: std::collections::BTreeSet<&'static str> = Default::default();
	let total = case.steps.len();
	for k in 0..=total {
		if drop_at == Some(k) {
			w.step(&H::PeerClose { conn: 0, abrupt: true }, true).await;
			classes.insert("injected-connection-drop");
		}
		if k == total {
			break;
		}
		let step = &case.steps[k];
		// model state before the step (the expectation for the acks of this step)
		let before: Vec<(bool, bool)> = (0..w.insts.len()).map(|i| (w.model_closed(i), w.insts[i].clone_dropped)).collect();
		w.step(step, true).await;
		for (i, cmd, ack) in w.acks[judged..].to_vec() {
			let (closed_before, clone_dropped) = before.get(i).copied().unwrap_or((false, false));
			let closed_now = w.model_closed(i);
			let inst = w.insts[i].clone();
			let ctx = || format!("step #{k} {step:?}: instance #{i} {inst:?} answered {ack:?}");
			let sig = |s: &str| if clone_dropped || inst.clone_dropped { "c06/sink-clone-drop-closes-subscription".to_string() } else { s.to_string() };
			match (&cmd, &ack) {
				(Cmd::IsClosed, Ack::Closed(b)) => {
					if *b != closed_now {
						w.failures.push((sig("c06/is-closed-disagrees-with-model"), format!("{}; model closed={closed_now}", ctx())));
					}
				}
				(Cmd::PollClosed, Ack::ClosedReady(b)) => {
					if *b != closed_now {
						w.failures.push((sig("c06/closed-future-disagrees-with-model"), format!("{}; model closed={closed_now}", ctx())));
					}
				}
				(Cmd::Send(_), Ack::SendOk) | (Cmd::SendTimeout(_), Ack::SendOk) | (Cmd::TrySend(_), Ack::TrySendOk) => {
					if closed_before {
						w.failures.push(("c06/send-on-closed-subscription-accepted".into(), ctx()));
					}
				}
				(Cmd::Send(_), Ack::SendErr) | (Cmd::SendTimeout(_), Ack::SendErr) | (Cmd::TrySend(_), Ack::TrySendClosed) => {
					if !closed_now {
						w.failures.push((sig("c06/send-on-active-subscription-failed"), ctx()));
					}
				}
				_ => {}
			}
		}
		judged = w.acks.len();
		match step {
			H::Unsub { target: Target::Inst(_), .. } => {
				classes.insert("unsubscribe");
			}
			H::Unsub { .. } => {
				classes.insert("unsubscribe-unknown-id");
			}
			H::Act { cmd: Cmd::CloneSink, .. } => {
				classes.insert("sink-clone");
			}
			_ => {}
		}
		if !w.failures.is_empty() {
			break;
		}
	}
	if w.reconnects > 0 {
		classes.insert("slot-reconnected");
	}
	if w.reused > 0 {
		classes.insert("subscription-id-handed-out-again");
	}
	// never more than `cap` instances pending or active per connection
	for ci in 0..w.conns.len() {
		let held = w.held_permits(ci);
		if held as u32 > case.cap {
			w.failures.push(("c06/more-than-cap-subscriptions".into(), format!("conn {ci}: {held} > {}", case.cap)));
		}
	}
	// every subscribe call whose handler has decided got exactly one reply of the right kind (connection still open)
	if w.failures.is_empty() && !w.stopped {
		for (i, x) in w.insts.iter().enumerate() {
			if !w.alive(x) {
				continue;
			}
			let replies: Vec<&serde_json::Value> = w.conns[x.conn].frames.iter().filter(|f| f["id"] == json!(x.req_id)).collect();
			let problem = match x.phase {
				// a handler that returns without having decided has let go of the pending sink
				Phase::Pending if x.returned.is_some() => (replies.len() != 1 || !replies[0]["error"]["code"].is_i64()).then(|| "a subscribe call whose handler returned undecided is answered by exactly one error".to_string()),
				Phase::Pending => (!replies.is_empty()).then(|| "answered before the handler decided".to_string()),
				Phase::Accepted => (replies.len() != 1 || replies[0].get("result") != x.sub_id.as_ref()).then(|| "an accepted subscription is answered by exactly one result carrying its id".to_string()),
				Phase::Rejected => (replies.len() != 1 || replies[0]["error"]["code"] != json!(-32077)).then(|| "a rejected subscription is answered by exactly one error carrying the handler's code".to_string()),
				Phase::DroppedPending => (replies.len() != 1 || !replies[0]["error"]["code"].is_i64()).then(|| "a subscribe call whose handler let go of the pending sink is answered by exactly one error".to_string()),
				Phase::AcceptFailed => None,
			};
			if let Some(p) = problem {
				w.failures.push(("c06/subscribe-call-reply".into(), format!("instance #{i} {x:?}: {p}; replies {replies:?}")));
			}
		}
	}
	// every way a subscription ended gave its slot back: finish all handlers, then `cap` new ones must start
	if w.failures.is_empty() && !w.stopped {
		for i in 0..w.insts.len() {
			if w.insts[i].returned.is_none() {
				w.command(i, Cmd::ReturnOk).await;
			}
		}
		settle().await;
		w.drain().await;
		for ci in 0..w.conns.len() {
			if !w.conns[ci].open {
				continue;
			}
			for _ in 0..case.cap {
				w.step(&H::Subscribe { conn: ci as u8, b: false, reuse: None }, true).await;
			}
			// and one more is refused
			w.step(&H::Subscribe { conn: ci as u8, b: true, reuse: None }, true).await;
		}
		classes.insert("slots-returned-check");
	}
	let refused = w.refusals.iter().filter(|r| r.1).count();
	let n_unsub_false = w.conns.iter().flat_map(|c| c.frames.iter()).filter(|f| f["id"].as_str().is_some_and(|s| s.starts_with("unsub-req")) && f["result"] == json!(false)).count();
	if (refused >= 1 || n_unsub_false >= 1) && w.insts.len() >= 2 {
		obs.nontrivial();
	}
	if refused > 0 {
		classes.insert("refusal");
	}
	if n_unsub_false > 0 {
		classes.insert("unsubscribe-answered-false");
	}
	if case.lowlevel {
		classes.insert("low-level-ws-connect");
	}
	if case.per_conn_middleware != 0 {
		classes.insert("per-connection-set_rpc/http_middleware");
	}
	for c in classes {
		obs.class(c);
	}
	for (s, d) in w.failures.drain(..) {
		obs.fail(s, format!("{d}; drop_at={drop_at:?}; case={case:?}"));
	}
	w.fix.ctx.gates.release_all();
}

impl SubCheck for Bookkeeping {
	type Case = SubCase;
	fn name(&self) -> &'static str {
		"bookkeeping"
	}
	fn cases(&self, tier: Tier) -> u32 {
		tier.pick(80_000, 1_500_000)
	}
	fn strategy(&self, tier: Tier) -> BoxedStrategy<SubCase> {
		let max = tier.pick(16usize, 30);
		(1u8..3, 0u32..4, any::<bool>(), proptest::collection::vec(arb_step(false), 1..max), proptest::bool::weighted(0.15), 1usize..3, proptest::bool::weighted(0.25), prop_oneof![6 => Just(0u8), 2 => Just(1u8), 1 => Just(2u8), 1 => Just(3u8)])
			.prop_map(|(conns, cap, string_ids, mut steps, sweep_drop, pre, lowlevel, per_conn_middleware)| {
				for _ in 0..pre {
					steps.insert(0, H::Act { inst: 0, cmd: Cmd::Accept });
					steps.insert(0, H::Subscribe { conn: 0, b: false, reuse: None });
				}
				SubCase { conns, cap, buf: 1024, string_ids, steps, sweep_drop, lowlevel, per_conn_middleware: if lowlevel { 0 } else { per_conn_middleware }, id_escapes: pre == 2 }
			})
			.boxed()
	}
	fn run(&self, case: &SubCase, obs: &mut Obs) {
		let rt = rt();
		rt.block_on(async {
			run_once(case, None, obs).await;
			if case.sweep_drop && obs.failures.is_empty() {
				// fault placement: an abrupt drop of connection 0 after every step
				for k in 0..=case.steps.len() {
					run_once(case, Some(k), obs).await;
					obs.nontrivial_keys.push(k as u64);
					if !obs.failures.is_empty() {
						break;
					}
				}
				obs.weight = case.steps.len() as u64 + 2;
				obs.class("drop-swept-over-every-position");
			}
		});
	}
}

pub fn check(ctx: &mut Ctx) {
	ctx.rule = "histories over 1..2 connections and caps 0..3: subscribe, Accept / Reject / DropPending / Return(Ok|Err|Notif), sink clone / drop, send / try_send, is_closed / closed(), unsubscribe (own / another connection's / stale / garbage id, right or other unsubscribe method), peer close (clean/abrupt); \
		for a share of the histories an abrupt drop of connection 0 is injected after EVERY step (fault placement). Oracle: model of active ids and held permits per connection: unsubscribe answers true iff the id is active on that connection, subscribe is refused with -32006 iff held permits == cap, \
		is_closed()/closed()/send agree with the model, never more than cap instances, and after all handlers returned `cap` new subscriptions start and one more is refused. Non-trivial = >= 1 refusal or an unsubscribe answered false, with >= 2 instances; distinct by case value. Further dimensions: connection slots that reconnect (a new connection in the place of one that left), subscription ids handed out again by the id provider when that is legitimate, string ids that need escaping, services built per connection through set_rpc/http_middleware; every subscribe call whose handler decided is answered exactly once. Sub-checks module-level (Methods::raw_json_request incl. a raw subscription whose call is given up) and call-given-up-by-middleware (an RPC middleware answers the subscribe call itself before the raw handler accepts)."
		.into();
	ctx.assumptions = vec![
		"every step is followed by a run-until-idle barrier, so the model is exact (no concurrency inside a step)".into(),
		"module-level sub-check: Methods::raw_json_request runs every call on connection id 0; the receiver returned by a subscribe call plays the connection of that subscription".into(),
	];
	ctx.run_sub(&Bookkeeping);
	ctx.run_sub(&crate::props::c06m::ModuleLevel);
	ctx.run_sub(&crate::props::c06m::GivenUpByMiddleware);
	ctx.run_sub(&crate::props::c06m::DroppedTogether);
	ctx.run_sub(&crate::props::c06m::UnsubscribedTogether);
	ctx.run_sub(&crate::props::c06m::ConnectionIdsAcrossThreads);
}

pub fn replay(file: &serde_json::Value) -> Option<i32> {
	replay_with(&Bookkeeping, file, "C06").or_else(|| replay_with(&crate::props::c06m::ModuleLevel, file, "C06")).or_else(|| replay_with(&crate::props::c06m::GivenUpByMiddleware, file, "C06")).or_else(|| replay_with(&crate::props::c06m::DroppedTogether, file, "C06")).or_else(|| replay_with(&crate::props::c06m::UnsubscribedTogether, file, "C06")).or_else(|| replay_with(&crate::props::c06m::ConnectionIdsAcrossThreads, file, "C06"))
}
