//! C09 — client: on connection failure everything pending fails promptly with the cause.
//! Systematic fault placement: every fault kind x every position of bounded client histories x gate placements.

use crate::engine::*;
use crate::fix::client::*;
use crate::fix::server::{rt, settle};
use crate::props::c03::{OpKind, Outcome, World};
use parking_lot::Mutex;
use std::sync::Arc;
use futures_util::FutureExt;
use jsonrpsee_core::client::Error;
use proptest::prelude::*;
use serde::{Deserialize, Serialize};
use serde_json::{Value, json};

#[derive(Clone, Debug, Serialize, Deserialize, PartialEq)]
pub enum Pre {
	Call { answered: bool },
	Subscribe { answered: bool },
	Batch { n: u8, answered: bool },
	Notify,
}

#[derive(Clone, Debug, Serialize, Deserialize, PartialEq)]
pub enum Fault {
	SendError,
	/// the send that fails is the unsubscribe request written when a subscription stream is dropped
	SendErrorOnUnsubscribe,
	/// valid JSON that is no JSON-RPC message, long, with multi-byte characters around the 512th byte
	LongJunk(u8, u8),
	ReceiveError,
	PeerGone,
	NotJson(u8),
	NotRpc(u8),
	ResponseToNobody(u8),
	EmptyArray,
	JunkArray(u8),
	ArrayWithId(u8),
	HugeArray(u8),
	Bytes(Vec<u8>),
	/// a batch-shaped reply whose ids lie very far apart
	ArrayIdRange(u8),
	/// (client with WebSocket pings enabled) the write of a ping fails
	PingFails,
}

#[derive(Clone, Debug, Serialize, Deserialize)]
pub struct C09Case {
	pub pre: Vec<Pre>,
	pub fault: Fault,
	pub close_stalls: bool,
	pub send_stalls: bool,
	pub during: Vec<u8>,
	pub after: Vec<u8>,
	pub id_kind: IdK,
}

pub const NOT_JSON: [&[u8]; 8] = [b"", b"   ", b"{", b"x", b"{\"jsonrpc\":\"2.0\",\"id\":0,\"result\":1", b"\xff\xfe", b"nul", b"{\"jsonrpc\":\"2.0\",\"id\":0,\"result\":1}}"];
pub const NOT_RPC: [&str; 8] = ["{}", "7", "null", "\"x\"", "{\"jsonrpc\":\"2.0\"}", "{\"id\":0}", "{\"jsonrpc\":\"2.0\",\"id\":0,\"result\":1,\"error\":{\"code\":1,\"message\":\"m\"}}", "{\"jsonrpc\":\"1.0\",\"id\":0,\"result\":1}"];

pub fn fault_message(f: &Fault, string_ids: bool) -> Option<Vec<u8>> {
	let id = |n: u64| if string_ids { json!(n.to_string()) } else { json!(n) };
	Some(match f {
		Fault::SendError | Fault::SendErrorOnUnsubscribe | Fault::ReceiveError | Fault::PeerGone | Fault::PingFails => return None,
		Fault::LongJunk(pad, kind) => {
			let unit = ["€", "é", "😀", "中"][*kind as usize % 4];
			let body = format!("{}{}", "a".repeat(*pad as usize % 8), unit.repeat(300));
			match kind / 4 % 3 {
				0 => json!({"x": body}).to_string().into_bytes(),
				1 => json!([body]).to_string().into_bytes(),
				_ => json!({"jsonrpc":"2.0","method":7,"params":body}).to_string().into_bytes(),
			}
		}
		Fault::NotJson(i) => NOT_JSON[*i as usize % NOT_JSON.len()].to_vec(),
		Fault::NotRpc(i) => NOT_RPC[*i as usize % NOT_RPC.len()].as_bytes().to_vec(),
		Fault::ResponseToNobody(i) => {
			let idv = match i % 5 {
				0 => id(777_777),
				1 => json!("nobody"),
				2 => Value::Null,
				3 => json!(u64::MAX),
				_ => id(1u64 << 63),
			};
			// (5..9: the same ids with an error object - how a server refuses a whole message, e.g. -32010 with id null)
			if i / 5 % 2 == 1 {
				json!({"jsonrpc":"2.0","id":idv,"error":{"code":-32010,"message":"The batch request was too large"}}).to_string().into_bytes()
			} else {
				json!({"jsonrpc":"2.0","id":idv,"result":1}).to_string().into_bytes()
			}
		}
		Fault::EmptyArray => b"[]".to_vec(),
		Fault::JunkArray(i) => match i % 4 {
			0 => b"[1,2]".to_vec(),
			1 => b"[{}]".to_vec(),
			2 => b"[null]".to_vec(),
			_ => b"[[]]".to_vec(),
		},
		Fault::ArrayWithId(i) => {
			let idv = match i % 6 {
				0 => json!(0),
				1 => json!(1u64 << 63),
				2 => json!(u64::MAX),
				3 => json!("abc"),
				4 => json!(u64::MAX - 1),
				_ => json!("18446744073709551615"),
			};
			json!([{"jsonrpc":"2.0","id":idv,"result":1}]).to_string().into_bytes()
		}
		Fault::HugeArray(i) => {
			let n = 100_000;
			let mut s = String::with_capacity(n * 40);
			s.push('[');
			for k in 0..n {
				if k > 0 {
					s.push(',');
				}
				match i % 3 {
					0 => s.push_str(&format!("{{\"jsonrpc\":\"2.0\",\"id\":{},\"result\":0}}", 500_000 + k)),
					// (an array of nothing but notifications would be a legitimate message: the last element is junk)
					1 if k + 1 == n => s.push('7'),
					1 => s.push_str("{\"jsonrpc\":\"2.0\",\"method\":\"m\",\"params\":[1]}"),
					_ => s.push('7'),
				}
			}
			s.push(']');
			s.into_bytes()
		}
		Fault::Bytes(b) => b.clone(),
		Fault::ArrayIdRange(i) => {
			let (a, b) = match i % 4 {
				0 => (0u64, u64::MAX - 1),
				1 => (5, u64::MAX),
				2 => (0, 1u64 << 62),
				_ => (u64::MAX - 1, u64::MAX),
			};
			json!([{"jsonrpc":"2.0","id":id(a),"result":1},{"jsonrpc":"2.0","id":id(b),"result":2}]).to_string().into_bytes()
		}
	})
}

fn has_placeholder(s: &str) -> bool {
	s.contains("could not be found")
}

/// Err(description) if the outcome is not "failed with RestartNeeded(cause)" with an acceptable cause
fn judge_failed(out: &Outcome, marker: Option<&str>) -> Result<(), String> {
	match out {
		Outcome::Failed(s) => {
			if has_placeholder(s) {
				return Err(format!("placeholder instead of the cause: {s}"));
			}
			if s.contains("RequestTimeout") {
				return Err("RequestTimeout".into());
			}
			if !s.starts_with("RestartNeeded(") {
				return Err(format!("not RestartNeeded(cause): {s}"));
			}
			if let Some(m) = marker {
				if !s.contains(m) {
					return Err(format!("cause does not mention {m:?}: {s}"));
				}
			}
			Ok(())
		}
		other => Err(format!("completed with {other:?} instead of failing with the disconnect cause")),
	}
}

pub struct Faults;

pub async fn run_fault_case(case: &C09Case, obs: &mut Obs) {
	crate::panics::clear_local();
	let mut w = World::new(ClientCfg { id_kind: case.id_kind, ping: case.fault == Fault::PingFails, mw_last: case.after.len() % 2 == 1, ws_builder: case.during.len() % 2 == 1, ..ClientCfg::default() });
	// (the deadline of every call is the configured request timeout, whichever builder and setter order made the client)
	obs.check(w.mc.client.request_timeout() == REQUEST_TIMEOUT, "c09/request-timeout-not-the-configured-one", || format!("configured {REQUEST_TIMEOUT:?}, the client reports {:?}; ws_builder={} mw_last={}", w.mc.client.request_timeout(), case.during.len() % 2 == 1, case.after.len() % 2 == 1));
	// ---- the history before the fault
	let mut want_before: Vec<Option<Outcome>> = vec![];
	for p in &case.pre {
		match p {
			Pre::Call { answered } => {
				w.spawn_call();
				settle().await;
				w.read_wire();
				let i = w.ops.len() - 1;
				if *answered {
					w.answer_single(i, false);
					settle().await;
					want_before.push(Some(Outcome::CallOk(w.ops[i].stamped[0].clone().unwrap().unwrap())));
				} else {
					want_before.push(None);
				}
			}
			Pre::Subscribe { answered } => {
				w.spawn_subscribe();
				settle().await;
				w.read_wire();
				let i = w.ops.len() - 1;
				if *answered {
					w.answer_single(i, false);
					settle().await;
					want_before.push(Some(Outcome::SubOk(w.ops[i].stamped[0].clone().unwrap().unwrap())));
				} else {
					want_before.push(None);
				}
			}
			Pre::Batch { n, answered } => {
				w.spawn_batch((*n).clamp(1, 4) as usize);
				settle().await;
				w.read_wire();
				let i = w.ops.len() - 1;
				if *answered {
					let n = w.ops[i].methods.len();
					let order: Vec<usize> = (0..n).rev().collect();
					w.answer_batch(i, &order, &[]);
					settle().await;
					want_before.push(Some(Outcome::BatchOk(w.ops[i].stamped.iter().map(|s| s.clone().unwrap()).collect())));
				} else {
					want_before.push(None);
				}
			}
			Pre::Notify => {
				w.spawn_notify();
				settle().await;
				want_before.push(Some(Outcome::NotifyOk));
			}
		}
	}
	let n_pre = w.ops.len();
	let pending_at_fault = want_before.iter().filter(|x| x.is_none()).count();
	// ---- arm gates and inject the fault
	if case.close_stalls {
		*w.mc.shared.close_gate.lock() = Some("close".into());
	}
	let marker: Option<String>;
	let mut benign_possible = false;
	match &case.fault {
		Fault::SendError => {
			marker = Some("injected-send-failure".into());
			let plan = if case.send_stalls { SendPlan::GateThenFail("send".into(), "injected-send-failure".into()) } else { SendPlan::Fail("injected-send-failure".into(), 1) };
			w.mc.shared.send_plans.lock().push_back(plan);
			w.spawn_call(); // the operation whose send fails
		}
		Fault::SendErrorOnUnsubscribe => {
			marker = Some("injected-send-failure".into());
			w.mc.shared.send_plans.lock().push_back(SendPlan::Fail("injected-send-failure".into(), 1));
			let stream = w.subs.lock().pop();
			match stream {
				// dropping the stream makes the background task write the unsubscribe request
				Some(s) => drop(s),
				// no accepted subscription in this history: an ordinary call triggers the send
				None => w.spawn_call(),
			}
		}
		Fault::ReceiveError => {
			marker = Some("injected-receive-failure".into());
			w.mc.push_err("injected-receive-failure");
		}
		Fault::PeerGone => {
			marker = Some("peer-closed".into());
			w.mc.push_err("peer-closed");
		}
		Fault::PingFails => {
			marker = Some("injected-ping-failure".into());
			*w.mc.shared.ping_fail.lock() = Some("injected-ping-failure".into());
		}
		f => {
			marker = None;
			if let Fault::Bytes(_) = f {
				benign_possible = true;
			}
			let mut msg = fault_message(f, case.id_kind == IdK::String).unwrap();
			if *f == Fault::ArrayWithId(0) {
				// `[{"id":0,..}]` is the legitimate reply of a pending one-entry batch with id 0: use an id nobody has then
				let legit = w.ops.iter().any(|o| matches!(o.kind, OpKind::Batch(1)) && o.stamped[0].is_none() && o.wire_ids[0].as_ref().map(|v| v.to_string().trim_matches('"').to_string()) == Some("0".into()));
				if legit {
					msg = br#"[{"jsonrpc":"2.0","id":424242,"result":1}]"#.to_vec();
				}
			}
			match String::from_utf8(msg.clone()) {
				Ok(s) => w.mc.push_text(s),
				Err(_) => w.mc.push_bytes(msg),
			}
		}
	}
	settle().await;
	let desc = |w: &World| format!("case={case:?} events={:?}", w.mc.shared.events.lock());
	// arbitrary bytes may be a harmless message (e.g. a notification): then nothing must have happened
	if benign_possible && w.mc.client.is_connected() {
		let outs = w.outcomes().await;
		// the bytes may happen to be a legitimate answer to something pending: then the completion must carry exactly that answer
		let sent: Value = match &case.fault {
			Fault::Bytes(b) => serde_json::from_slice(b).unwrap_or(Value::Null),
			_ => Value::Null,
		};
		let candidates: Vec<Value> = match &sent {
			Value::Array(a) => a.clone(),
			v => vec![v.clone()],
		};
		// bytes that serde_json::Value cannot read (e.g. invalid UTF-8 inside an ignored member) but the response
		// parser accepts: nothing to compare with, not judged
		let judgeable = !sent.is_null();
		for (i, (o, want)) in outs.iter().zip(want_before.iter()).enumerate() {
			if want.is_some() || !judgeable {
				continue;
			}
			let ok = match o {
				None | Some(Outcome::Failed(_)) => true,
				Some(Outcome::CallOk(v)) | Some(Outcome::SubOk(v)) => candidates.iter().any(|c| w.ops[i].wire_ids.contains(&c.get("id").cloned()) && c.get("result") == Some(v)),
				Some(Outcome::CallErr(code, _)) => candidates.iter().any(|c| w.ops[i].wire_ids.contains(&c.get("id").cloned()) && c["error"]["code"] == json!(code)),
				Some(Outcome::BatchOk(entries)) => entries.iter().enumerate().all(|(k, e)| match e {
					Ok(v) => candidates.iter().any(|c| w.ops[i].wire_ids.get(k) == Some(&c.get("id").cloned()) && c.get("result") == Some(v)),
					Err((code, _)) => *code == 0 || candidates.iter().any(|c| w.ops[i].wire_ids.get(k) == Some(&c.get("id").cloned()) && c["error"]["code"] == json!(code)),
				}),
				Some(_) => false,
			};
			obs.check(ok, "c09/pending-op-completed-by-arbitrary-bytes", || format!("op#{i} {o:?}; {}", desc(&w)));
		}
		obs.class("bytes-benign");
		let panics = crate::panics::take_local();
		obs.check(panics.is_empty(), "c09/background-panic", || format!("{panics:?}; {}", desc(&w)));
		return;
	}
	// ---- while gates are held: nothing that completes may carry the placeholder
	let gated = case.close_stalls || case.send_stalls;
	let disc_client = w.mc.client.clone();
	let mut on_disc = tokio::spawn(async move { format!("{:?}", disc_client.on_disconnect().await) });
	let during_start = w.ops.len();
	for k in &case.during {
		match k % 4 {
			0 => w.spawn_call(),
			1 => w.spawn_subscribe(),
			2 => w.spawn_batch(2),
			_ => w.spawn_register(),
		}
		settle().await;
	}
	settle().await;
	// while the transport's close() hangs after a failure of the sending half, the receiving half fails too:
	// the cause everybody is told stays the first one
	if case.close_stalls && !case.send_stalls && case.during.len() >= 2 && matches!(case.fault, Fault::SendError | Fault::SendErrorOnUnsubscribe | Fault::PingFails) {
		w.mc.push_err("second-failure-while-closing");
		obs.class("second-failure-while-close-hangs");
		settle().await;
	}
	if gated {
		let outs = w.outcomes().await;
		for (i, o) in outs.iter().enumerate() {
			if let Some(Outcome::Failed(s)) = o {
				if has_placeholder(s) {
					obs.fail("c09/placeholder-cause-on-send-failure", format!("op#{i} completed inside the gate window with {s}; {}", desc(&w)));
				}
			}
		}
		if on_disc.is_finished() {
			let s = (&mut on_disc).await.unwrap_or_default();
			if has_placeholder(&s) {
				obs.fail("c09/placeholder-cause-on-send-failure", format!("on_disconnect() resolved inside the gate window with {s}; {}", desc(&w)));
			}
			on_disc = tokio::spawn(async move { s });
		} else if case.close_stalls && !case.send_stalls {
			// the fault has happened and only the transport's close() is hanging: the client must not look alive
			obs.fail("c09/on-disconnect-pending-while-close-hangs", desc(&w));
		}
		if case.close_stalls && !case.send_stalls {
			obs.check(!w.mc.client.is_connected(), "c09/still-connected-while-close-hangs", || desc(&w));
			for (i, o) in outs.iter().enumerate().skip(during_start) {
				if o.is_none() {
					obs.fail("c09/operation-pending-while-close-hangs", format!("op#{i} {:?} issued after the fault is still pending although only close() is outstanding; {}", w.ops[i].kind, desc(&w)));
				}
			}
		}
	}
	// ---- release everything
	w.mc.shared.gates.open_all();
	settle().await;
	for k in &case.after {
		match k % 5 {
			0 => w.spawn_call(),
			1 => w.spawn_subscribe(),
			2 => w.spawn_batch(2),
			3 => w.spawn_notify(),
			_ => w.spawn_register(),
		}
		settle().await;
	}
	settle().await;
	let outs = w.outcomes().await;
	let panics = crate::panics::take_local();
	obs.check(panics.is_empty(), "c09/background-panic", || format!("{panics:?}; {}", desc(&w)));
	obs.check(!w.mc.client.is_connected(), "c09/still-connected-after-fault", || desc(&w));
	// on_disconnect resolves, with a cause
	let disc = if on_disc.is_finished() { Some((&mut on_disc).await.unwrap_or_default()) } else { None };
	match &disc {
		None => obs.fail("c09/on-disconnect-pending", desc(&w)),
		Some(s) => {
			if let Err(e) = judge_failed(&Outcome::Failed(s.clone()), marker.as_deref()) {
				let sig = if has_placeholder(s) { "c09/placeholder-cause-on-disconnect" } else { "c09/on-disconnect-wrong-cause" };
				obs.fail(sig, format!("{e}; {}", desc(&w)));
			}
		}
	}
	for (i, o) in outs.iter().enumerate() {
		let op = &w.ops[i];
		if i < n_pre {
			if let Some(want) = &want_before[i] {
				// completed before the fault: keeps its normal result
				obs.check(o.as_ref() == Some(want), "c09/completed-op-lost-its-result", || format!("op#{i} {o:?} want {want:?}; {}", desc(&w)));
				continue;
			}
		}
		if op.kind == OpKind::Notify && i >= n_pre {
			// a notification issued after the fault must fail too (or have been accepted before the channel closed)
			match o {
				None => obs.fail("c09/operation-pending-after-disconnect", format!("op#{i} {:?}; {}", op.kind, desc(&w))),
				Some(Outcome::NotifyOk) => {}
				Some(x) => {
					if let Err(e) = judge_failed(x, None) {
						obs.fail("c09/wrong-error-after-disconnect", format!("op#{i} {:?}: {e}; {}", op.kind, desc(&w)));
					}
				}
			}
			continue;
		}
		match o {
			None => obs.fail("c09/operation-pending-after-disconnect", format!("op#{i} {:?}; {}", op.kind, desc(&w))),
			Some(x) => {
				if let Err(e) = judge_failed(x, marker.as_deref()) {
					let sig = match x {
						Outcome::Failed(s) if has_placeholder(s) => "c09/placeholder-cause-after-disconnect",
						_ => "c09/wrong-error-after-disconnect",
					};
					obs.fail(sig, format!("op#{i} {:?}: {e}; {}", op.kind, desc(&w)));
				}
				// every failing caller sees the same cause as on_disconnect
				if let (Outcome::Failed(s), Some(d)) = (x, &disc) {
					obs.check(s == d, "c09/cause-differs-between-callers", || format!("op#{i} {s} vs on_disconnect {d}; {}", desc(&w)));
				}
			}
		}
	}
	// open subscription streams have ended
	{
		let mut subs = w.subs.lock();
		for (k, s) in subs.iter_mut().enumerate() {
			let mut ended = false;
			for _ in 0..4 {
				match s.next().now_or_never() {
					Some(None) => {
						ended = true;
						break;
					}
					Some(Some(_)) => continue,
					None => break,
				}
			}
			obs.check(ended, "c09/subscription-stream-still-open", || format!("stream #{k}; {}", desc(&w)));
		}
	}
	if pending_at_fault > 0 || !case.during.is_empty() {
		obs.nontrivial();
	}
	let _ = during_start;
	obs.class(format!("fault:{}", format!("{:?}", case.fault).split('(').next().unwrap()));
	if case.close_stalls {
		obs.class("close-stalls");
	}
	if case.send_stalls {
		obs.class("send-stalls");
	}
	obs.class(format!("pending-at-fault:{}", pending_at_fault.min(3)));
}

impl SubCheck for Faults {
	type Case = C09Case;
	fn name(&self) -> &'static str {
		"faults"
	}
	fn cases(&self, tier: Tier) -> u32 {
		tier.pick(150_000, 3_000_000)
	}
	fn strategy(&self, tier: Tier) -> BoxedStrategy<C09Case> {
		let pre = prop_oneof![
			4 => any::<bool>().prop_map(|answered| Pre::Call { answered }),
			2 => any::<bool>().prop_map(|answered| Pre::Subscribe { answered }),
			2 => (1u8..4, any::<bool>()).prop_map(|(n, answered)| Pre::Batch { n, answered }),
			1 => Just(Pre::Notify),
		];
		let fault = prop_oneof![
			3 => Just(Fault::SendError),
			2 => Just(Fault::SendErrorOnUnsubscribe),
			2 => (0u8..8, 0u8..12).prop_map(|(p, k)| Fault::LongJunk(p, k)),
			2 => Just(Fault::ReceiveError),
			2 => Just(Fault::PeerGone),
			2 => (0u8..8).prop_map(Fault::NotJson),
			2 => (0u8..8).prop_map(Fault::NotRpc),
			2 => (0u8..10).prop_map(Fault::ResponseToNobody),
			1 => Just(Fault::EmptyArray),
			1 => (0u8..4).prop_map(Fault::JunkArray),
			2 => (0u8..6).prop_map(Fault::ArrayWithId),
			1 => (0u8..4).prop_map(Fault::ArrayIdRange),
			2 => Just(Fault::PingFails),
			2 => proptest::collection::vec(any::<u8>(), 0..40).prop_map(Fault::Bytes),
			2 => (crate::props::c01::arb_msg(2)).prop_map(|m| Fault::Bytes(crate::props::c01::render_msg(&m))),
		];
		let max = tier.pick(6usize, 8);
		(proptest::collection::vec(pre, 0..max), fault, any::<bool>(), any::<bool>(), proptest::collection::vec(any::<u8>(), 0..3), proptest::collection::vec(any::<u8>(), 0..3), prop_oneof![Just(IdK::Number), Just(IdK::String)])
			.prop_map(|(pre, fault, close_stalls, send_stalls, during, after, id_kind)| {
				let send_stalls = send_stalls && fault == Fault::SendError;
				C09Case { pre, fault, close_stalls, send_stalls, during, after, id_kind }
			})
			.boxed()
	}
	fn run(&self, case: &C09Case, obs: &mut Obs) {
		let rt = rt();
		rt.block_on(run_fault_case(case, obs));
	}
}

/// Systematic placement: every fault kind at every position of a fixed set of histories, every gate placement.
pub fn enumerated_cases(tier: Tier) -> Vec<C09Case> {
	let history: Vec<Pre> = vec![
		Pre::Call { answered: true },
		Pre::Call { answered: false },
		Pre::Subscribe { answered: true },
		Pre::Batch { n: 2, answered: false },
		Pre::Subscribe { answered: false },
		Pre::Call { answered: false },
		Pre::Batch { n: 3, answered: true },
		Pre::Notify,
	];
	let mut faults = vec![Fault::SendError, Fault::SendErrorOnUnsubscribe, Fault::ReceiveError, Fault::PeerGone, Fault::EmptyArray, Fault::PingFails];
	for i in 0..4 {
		faults.push(Fault::ArrayIdRange(i));
	}
	for pad in 0..4 {
		for kind in [0u8, 2, 5, 11] {
			faults.push(Fault::LongJunk(pad, kind));
		}
	}
	for i in 0..8 {
		faults.push(Fault::NotJson(i));
		faults.push(Fault::NotRpc(i));
	}
	for i in 0..10 {
		faults.push(Fault::ResponseToNobody(i));
	}
	for i in 0..4 {
		faults.push(Fault::JunkArray(i));
	}
	for i in 0..6 {
		faults.push(Fault::ArrayWithId(i));
	}
	if tier == Tier::Thorough {
		for i in 0..3 {
			faults.push(Fault::HugeArray(i));
		}
	} else {
		faults.push(Fault::HugeArray(0));
	}
	let mut out = vec![];
	for pos in 0..=history.len() {
		for f in &faults {
			for close_stalls in [false, true] {
				for send_stalls in [false, true] {
					if send_stalls && *f != Fault::SendError {
						continue;
					}
					if matches!(f, Fault::HugeArray(_)) && (pos % 4 != 1 || close_stalls) {
						continue;
					}
					for id_kind in [IdK::Number, IdK::String] {
						out.push(C09Case { pre: history[..pos].to_vec(), fault: f.clone(), close_stalls, send_stalls, during: vec![0, 1, 2, 3], after: vec![0, 1, 2, 3, 4], id_kind });
					}
				}
			}
		}
	}
	out
}

/// arbitrary bytes delivered to a client with pending work (fuzz target)
pub fn bytes_oracle(data: &[u8]) -> Option<String> {
	if data.len() > 20_000 {
		return None;
	}
	let case = C09Case { pre: vec![Pre::Call { answered: false }, Pre::Batch { n: 2, answered: false }, Pre::Subscribe { answered: true }], fault: Fault::Bytes(data.to_vec()), close_stalls: false, send_stalls: false, during: vec![], after: vec![0], id_kind: IdK::Number };
	let mut obs = Obs::new();
	let rt = rt();
	rt.block_on(run_fault_case(&case, &mut obs));
	let known = load_known_findings();
	obs.failures.into_iter().find(|f| !tolerated_signature(&known, "C09", &f.signature)).map(|f| format!("{} — {}", f.signature, f.detail))
}

pub fn corpus_replay(ctx: &mut Ctx) {
	let dir = verif_root().join("corpus/c09_client_rx");
	let mut n = 0u64;
	if let Ok(rd) = std::fs::read_dir(&dir) {
		let mut files: Vec<_> = rd.filter_map(|e| e.ok()).map(|e| e.path()).collect();
		files.sort();
		for f in files {
			let Ok(bytes) = std::fs::read(&f) else { continue };
			n += 1;
			let case = C09Case { pre: vec![Pre::Call { answered: false }, Pre::Batch { n: 2, answered: false }, Pre::Subscribe { answered: true }], fault: Fault::Bytes(bytes), close_stalls: false, send_stalls: false, during: vec![], after: vec![0], id_kind: IdK::Number };
			ctx.run_case(&Faults, &case);
		}
	}
	ctx.note_class("faults:corpus-files", n);
}

pub fn check(ctx: &mut Ctx) {
	ctx.rule = "fault enumeration: each fault kind {send error, receive error, peer gone, 8 non-JSON texts, 8 JSON-but-not-JSON-RPC texts, responses to nobody (ids incl. null, 2^63, 2^64-1), empty array, junk arrays, one-element arrays with ids 0/2^63/2^64-1/2^64-2/\"abc\", a 10^5-element array} \
		a failing unsubscribe write (dropped stream), long non-ASCII junk} injected at EVERY position of a fixed 8-operation client history (calls/subscribes/batches answered or pending) x {close() stalls or not} x {send stalls before failing or not} x id kind, with operations issued inside the gate window and after it; plus generated histories/faults incl. arbitrary and mutated bytes. \
		Oracle: no task panics; nothing completing inside the window carries the 'reason could not be found' placeholder; after release every outstanding and later operation is complete with RestartNeeded(cause) naming the injected cause, all callers and on_disconnect() see the same cause, streams ended, is_connected()==false, results obtained before the fault are kept. \
		Non-trivial = >= 1 operation pending at the fault or issued inside a gate window; distinct by case value. Also: failing ping write (ping-enabled client), batch-shaped replies with ids far apart, subscribe_to_method among the operations, a second failure while close() hangs; while only close() is outstanding the client already reports disconnected and later operations fail at once with the first cause."
		.into();
	ctx.assumptions = vec![
		"'within the request timeout' is checked as 'nothing pending at quiescence' (paused clock); the 60 s real-time timeout never fires in a run".into(),
		"current-thread runtime: delay placements are the transport's own awaits (send / close gates), not arbitrary preemption".into(),
	];
	let cases = enumerated_cases(ctx.tier);
	let n = cases.len();
	ctx.run_cases_parallel(&Faults, cases, 16);
	ctx.extra.insert("fault_enumeration".into(), json!({"cases": n, "exhaustive_over": "fault kinds x positions 0..8 of the fixed history x gate placements x id kind"}));
	ctx.exhaustive = false;
	ctx.run_sub(&Faults);
	ctx.run_sub(&UnderTraffic);
	corpus_replay(ctx);
	fuzz_campaign(ctx, "c09_client_rx", 150_000, 512);
}

pub fn replay(file: &serde_json::Value) -> Option<i32> {
	replay_with(&Faults, file, "C09").or_else(|| replay_with(&UnderTraffic, file, "C09"))
}

// ---------------------------------------------------------------------------------------------
// the connection fails while front-end callers keep the request queue full
// ---------------------------------------------------------------------------------------------

#[derive(Clone, Debug, Serialize, Deserialize)]
pub struct TrafficCase {
	/// max_concurrent_requests (the length of the queue between callers and the background task)
	pub queue: u8,
	pub spammers: u8,
	/// how long (paused clock) the traffic has been flowing when the fault arrives
	pub lead_ms: u16,
	/// 0 receive error, 1 not JSON, 2 a response to nobody, 3 JSON but not JSON-RPC
	pub fault: u8,
	/// outstanding at the fault: bit 0 a call, bit 1 a subscribe, bit 2 a batch
	pub pending: u8,
	pub id_kind: IdK,
	pub ws_builder: bool,
}

pub struct UnderTraffic;

/// writes per caller; every write takes one second of the paused clock, so the callers together keep the queue
/// non-empty for longer than the client's (default, 60 s) request timeout
const TRAFFIC_PER_CALLER: usize = 45;
/// ... and the client has to be done with the failed connection well inside that timeout
const TRAFFIC_BOUND_S: u64 = 30;

impl SubCheck for UnderTraffic {
	type Case = TrafficCase;
	fn name(&self) -> &'static str {
		"fault-under-traffic"
	}
	fn cases(&self, tier: Tier) -> u32 {
		tier.pick(1_500, 40_000)
	}
	fn strategy(&self, _tier: Tier) -> BoxedStrategy<TrafficCase> {
		(1u8..6, 2u8..5, 0u16..6000, 0u8..4, 0u8..8, prop_oneof![Just(IdK::Number), Just(IdK::String)], any::<bool>())
			.prop_map(|(queue, spammers, lead_ms, fault, pending, id_kind, ws_builder)| TrafficCase { queue, spammers, lead_ms, fault, pending, id_kind, ws_builder })
			.boxed()
	}
	fn run(&self, case: &TrafficCase, obs: &mut Obs) {
		use jsonrpsee_core::client::{BatchResponse, ClientT, SubscriptionClientT};
		use jsonrpsee_core::params::BatchRequestBuilder;
		use std::sync::atomic::{AtomicUsize, Ordering};
		use std::time::Duration;
		let rt = rt();
		rt.block_on(async {
			crate::panics::clear_local();
			let mc = MockClient::new(ClientCfg { id_kind: case.id_kind, max_concurrent_requests: case.queue.max(1) as usize, ws_builder: case.ws_builder, ..ClientCfg::default() });
			*mc.shared.send_cost_ms.lock() = 1000;
			let desc = || format!("case={case:?} events={:?}", mc.shared.events.lock());
			// ---- what is outstanding when the connection fails
			let mut pend: Vec<(&'static str, tokio::task::JoinHandle<Result<(), String>>)> = vec![];
			if case.pending & 1 != 0 {
				let c = mc.client.clone();
				pend.push(("call", tokio::spawn(async move { c.request::<Value, _>("held_call", jsonrpsee_core::rpc_params![]).await.map(|_| ()).map_err(|e| format!("{e:?}")) })));
			}
			if case.pending & 2 != 0 {
				let c = mc.client.clone();
				pend.push(("subscribe", tokio::spawn(async move { c.subscribe::<Value, _>("held_sub", jsonrpsee_core::rpc_params![], "held_unsub").await.map(|_| ()).map_err(|e| format!("{e:?}")) })));
			}
			if case.pending & 4 != 0 {
				let c = mc.client.clone();
				pend.push((
					"batch",
					tokio::spawn(async move {
						let mut b = BatchRequestBuilder::new();
						b.insert("held_b0", jsonrpsee_core::rpc_params![]).unwrap();
						b.insert("held_b1", jsonrpsee_core::rpc_params![]).unwrap();
						let r: Result<BatchResponse<Value>, _> = c.batch_request(b).await;
						r.map(|_| ()).map_err(|e| format!("{e:?}"))
					}),
				));
			}
			tokio::time::sleep(Duration::from_millis(1000 * pend.len() as u64 + 500)).await;
			// ---- callers that write back to back
			let finished = Arc::new(AtomicUsize::new(0));
			let bad: Arc<Mutex<Vec<String>>> = Arc::new(Mutex::new(vec![]));
			for k in 0..case.spammers {
				let (c, finished, bad) = (mc.client.clone(), finished.clone(), bad.clone());
				tokio::spawn(async move {
					for i in 0..TRAFFIC_PER_CALLER {
						if let Err(e) = c.notification("spam", jsonrpsee_core::rpc_params![k, i]).await {
							let s = format!("{e:?}");
							if has_placeholder(&s) || !s.starts_with("RestartNeeded(") {
								bad.lock().push(s);
							}
						}
					}
					finished.fetch_add(1, Ordering::SeqCst);
				});
			}
			tokio::time::sleep(Duration::from_millis(case.lead_ms as u64)).await;
			let written_before = mc.shared.wire.lock().len();
			// ---- the fault
			let marker: Option<&str> = match case.fault % 4 {
				0 => {
					mc.push_err("injected-receive-failure");
					Some("injected-receive-failure")
				}
				1 => {
					mc.push_text("{\"jsonrpc\":\"2.0\",\"id\":0,\"result\":1");
					None
				}
				2 => {
					mc.push_text(json!({"jsonrpc":"2.0","id":"nobody","result":1}).to_string());
					None
				}
				_ => {
					mc.push_text("{\"jsonrpc\":\"2.0\"}");
					None
				}
			};
			let t0 = tokio::time::Instant::now();
			match tokio::time::timeout(Duration::from_secs(TRAFFIC_BOUND_S), mc.client.on_disconnect()).await {
				Err(_) => obs.fail(
					"c09/stalled-under-traffic",
					format!("on_disconnect() has not resolved {TRAFFIC_BOUND_S} s after the connection failed while callers keep writing ({} more messages written since); {}", mc.shared.wire.lock().len() - written_before, desc()),
				),
				Ok(e) => {
					if let Err(why) = judge_failed(&Outcome::Failed(format!("{e:?}")), marker) {
						obs.fail("c09/wrong-disconnect-cause", format!("{why}; {}", desc()));
					}
				}
			}
			obs.check(!mc.client.is_connected() || t0.elapsed() >= Duration::from_secs(TRAFFIC_BOUND_S), "c09/still-connected-after-fault", || desc());
			// what was outstanding is complete by then, with the cause
			tokio::time::sleep(Duration::from_millis(1)).await;
			let within_bound = t0.elapsed() < Duration::from_secs(TRAFFIC_BOUND_S);
			for (what, h) in pend {
				if h.is_finished() {
					match h.await {
						Ok(Err(s)) => {
							if let Err(why) = judge_failed(&Outcome::Failed(s), marker) {
								obs.fail("c09/wrong-error-after-disconnect", format!("the outstanding {what}: {why}; {}", desc()));
							}
						}
						Ok(Ok(())) => obs.fail("c09/wrong-error-after-disconnect", format!("the outstanding {what} succeeded; {}", desc())),
						Err(e) => obs.fail("c09/background-panic", format!("the outstanding {what}: {e}; {}", desc())),
					}
				} else if within_bound {
					obs.fail("c09/pending-after-disconnect", format!("on_disconnect() resolved but the outstanding {what} is still pending; {}", desc()));
				} else {
					obs.fail("c09/stalled-under-traffic", format!("the outstanding {what} is still pending {TRAFFIC_BOUND_S} s after the connection failed; {}", desc()));
				}
			}
			// ---- the callers come to an end too, with nothing but the cause
			settle().await;
			obs.check(finished.load(Ordering::SeqCst) == case.spammers as usize, "c09/caller-still-pending", || format!("{} of {} callers done; {}", finished.load(Ordering::SeqCst), case.spammers, desc()));
			let bad = bad.lock().clone();
			obs.check(bad.is_empty(), "c09/wrong-error-after-disconnect", || format!("notifications failed with {bad:?}; {}", desc()));
			let panics = crate::panics::take_local();
			obs.check(panics.is_empty(), "c09/background-panic", || format!("{panics:?}; {}", desc()));
			obs.nontrivial();
			obs.class(["traffic:receive-error", "traffic:not-json", "traffic:response-to-nobody", "traffic:not-json-rpc"][case.fault as usize % 4]);
			if case.pending != 0 {
				obs.class("traffic:with-outstanding-operations");
			}
		});
	}
}

#[allow(dead_code)]
fn _e(_: Error) {}
