//! C19 — only JSON POSTs reach RPC; body chunking / Content-Length / content-type spelling never change the answer.

use crate::engine::*;
use crate::fix::server::*;
use crate::props::c01::{Msg, arb_msg, render_msg};
use proptest::prelude::*;
use serde::{Deserialize, Serialize};
use serde_json::json;

pub const ACCEPTED: [&str; 6] = [
	"application/json",
	"application/json; charset=utf-8",
	"application/json;charset=utf-8",
	"application/json-rpc",
	"application/json-rpc;charset=utf-8",
	"application/json-rpc; charset=utf-8",
];

pub const NEAR_MISS: [&str; 16] = [
	"text/json",
	"application/jsonx",
	"application/json ",
	" application/json",
	"application/json;",
	"application/json; charset=utf-16",
	"application/json;  charset=utf-8",
	"application/json; charset=utf-8; x=1",
	"application/json-rp",
	"application/jsonrpc",
	"application/x-json",
	"text/plain",
	"application/json,application/json",
	"json",
	"",
	"application/json\t",
];

#[derive(Clone, Debug, Serialize, Deserialize, PartialEq)]
pub enum Ct {
	Accepted(u8, u32),
	Near(u8),
	Raw(Vec<u8>),
}

fn apply_case(s: &str, mask: u32) -> String {
	s.chars().enumerate().map(|(i, c)| if (mask >> (i % 32)) & 1 == 1 { c.to_ascii_uppercase() } else { c }).collect()
}

pub fn ct_bytes(c: &Ct) -> Vec<u8> {
	match c {
		Ct::Accepted(i, mask) => apply_case(ACCEPTED[*i as usize % 6], *mask).into_bytes(),
		Ct::Near(i) => NEAR_MISS[*i as usize % NEAR_MISS.len()].as_bytes().to_vec(),
		Ct::Raw(b) => b.clone(),
	}
}

/// reference reading of "a JSON content type": one of the six spellings, ASCII case-insensitively
pub fn ct_is_json(b: &[u8]) -> bool {
	match std::str::from_utf8(b) {
		Ok(s) => ACCEPTED.iter().any(|a| a.eq_ignore_ascii_case(s)),
		Err(_) => false,
	}
}

pub fn arb_ct() -> BoxedStrategy<Ct> {
	prop_oneof![
		5 => (0u8..6, any::<u32>()).prop_map(|(i, m)| Ct::Accepted(i, m)),
		3 => (0u8..16).prop_map(Ct::Near),
		1 => proptest::collection::vec(prop_oneof![32u8..127, 128u8..=255], 0..20).prop_map(Ct::Raw),
	]
	.boxed()
}

// ---------------------------------------------------------------------------------------------
// gates
// ---------------------------------------------------------------------------------------------

#[derive(Clone, Debug, Serialize, Deserialize)]
pub struct GateCase {
	pub method: String,
	pub cts: Vec<Ct>,
	pub body: Msg,
	pub content_length: bool,
}

pub struct Gates;

pub const METHODS: [&str; 14] = ["POST", "GET", "PUT", "DELETE", "PATCH", "OPTIONS", "HEAD", "TRACE", "CONNECT", "post", "Post", "POSTX", "PROPFIND", "P"];

const VALID_CALL: &[u8] = br#"{"jsonrpc":"2.0","id":1,"method":"echo_sync","params":[1]}"#;

impl SubCheck for Gates {
	type Case = GateCase;
	fn name(&self) -> &'static str {
		"gates"
	}
	fn cases(&self, tier: Tier) -> u32 {
		tier.pick(300_000, 6_000_000)
	}
	fn strategy(&self, _tier: Tier) -> BoxedStrategy<GateCase> {
		(
			prop_oneof![3 => Just("POST".to_string()), 4 => proptest::sample::select(METHODS.to_vec()).prop_map(|s| s.to_string())],
			proptest::collection::vec(arb_ct(), 0..3),
			prop_oneof![3 => Just(Msg::Bytes(VALID_CALL.to_vec())), 1 => arb_msg(2)],
			any::<bool>(),
		)
			.prop_map(|(method, cts, body, content_length)| GateCase { method, cts, body, content_length })
			.boxed()
	}
	fn run(&self, case: &GateCase, obs: &mut Obs) {
		let body = render_msg(&case.body);
		let cts: Vec<Vec<u8>> = case.cts.iter().map(ct_bytes).collect();
		let rt = rt();
		rt.block_on(async {
			let fix = Fixture::new(Cfg::default());
			let mk = |cts: &[Vec<u8>]| HttpReq {
				method: case.method.clone(),
				headers: cts.iter().map(|c| ("content-type".to_string(), c.clone())).collect(),
				frames: vec![body.clone()],
				content_length: case.content_length,
				uri: "/".into(),
				trailers: false,
			};
			let log0 = fix.ctx.log_len();
			let r = fix.http(mk(&cts)).await;
			settle().await;
			let log = fix.ctx.log_since(log0);
			if r.status == 0 {
				obs.class("unbuildable-request");
				return;
			}
			let desc = || format!("{} content-types={:?} => {}", case.method, cts.iter().map(|c| String::from_utf8_lossy(c).to_string()).collect::<Vec<_>>(), r.status);
			if case.method != "POST" {
				obs.class("non-post");
				obs.nontrivial();
				obs.check(r.status == 405, "c19/non-post-not-405", desc);
				obs.check(log.is_empty(), "c19/handler-ran-for-non-post", || format!("{} log={log:?}", desc()));
				// the same request to a path that a `ProxyGetRequestLayer` in front maps to a method: that layer turns GET
				// requests into calls (what it is for); every other non-POST method is still refused and runs nothing
				if case.method != "GET" {
					let l0 = fix.ctx.log_len();
					let mut q = mk(&cts);
					q.uri = "/health".into();
					let rp = fix.http_via_proxy(q).await;
					settle().await;
					let ran = fix.ctx.log_since(l0);
					if rp.status != 0 {
						obs.class("non-post-to-proxied-path");
						obs.check(rp.status == 405, "c19/non-post-not-405-behind-proxy-get-layer", || format!("{} /health behind ProxyGetRequestLayer => {}", case.method, rp.status));
						obs.check(ran.is_empty(), "c19/handler-ran-for-non-post-behind-proxy-get-layer", || format!("{} /health behind ProxyGetRequestLayer => {} log={ran:?}", case.method, rp.status));
					}
				}
				return;
			}
			// POST: with several content-type headers the outcome must be that of one of the values alone
			let mut alone = vec![];
			for c in &cts {
				let l0 = fix.ctx.log_len();
				let ra = fix.http(mk(std::slice::from_ref(c))).await;
				settle().await;
				let ran = fix.ctx.log_len() > l0;
				let json = ct_is_json(c);
				obs.check((ra.status == 415) == !json, if json { "c19/json-content-type-rejected" } else { "c19/non-json-content-type-accepted" }, || {
					format!("content-type {:?} => {}", String::from_utf8_lossy(c), ra.status)
				});
				if !json {
					obs.check(!ran, "c19/handler-ran-for-non-json-content-type", || format!("{:?}", String::from_utf8_lossy(c)));
				}
				alone.push(ra);
			}
			match cts.len() {
				0 => {
					obs.class("post-without-content-type");
					obs.check(r.status == 415, "c19/missing-content-type-not-415", desc);
					obs.check(log.is_empty(), "c19/handler-ran-without-content-type", desc);
				}
				1 => {
					obs.class(if ct_is_json(&cts[0]) { "post-json" } else { "post-non-json" });
					if !ct_is_json(&cts[0]) || matches!(case.cts[0], Ct::Accepted(_, m) if m != 0) {
						obs.nontrivial();
					}
				}
				_ => {
					obs.class("post-duplicate-content-type");
					obs.nontrivial();
					obs.check(alone.iter().any(|a| a.status == r.status && a.body == r.body), "c19/duplicate-content-type-outcome", || {
						format!("{} alone: {:?}", desc(), alone.iter().map(|a| a.status).collect::<Vec<_>>())
					});
					if alone.iter().all(|a| a.status == 415) {
						obs.check(log.is_empty(), "c19/handler-ran-for-non-json-content-type", desc);
					}
					// several Content-Type lines: the content type of the request is its first line (what `HeaderMap::get`
					// reports); a later line that says JSON does not turn a text/plain request into a JSON one
					if !ct_is_json(&cts[0]) {
						obs.class("post-duplicate-content-type-first-not-json");
						obs.check(r.status == 415, "c19/non-json-content-type-accepted", || format!("{} (first content-type line {:?})", desc(), String::from_utf8_lossy(&cts[0])));
						obs.check(log.is_empty(), "c19/handler-ran-for-non-json-content-type", desc);
					}
				}
			}
			fix.ctx.gates.release_all();
		});
	}
}

// ---------------------------------------------------------------------------------------------
// chunking
// ---------------------------------------------------------------------------------------------

#[derive(Clone, Debug, Serialize, Deserialize)]
pub struct ChunkCase {
	pub body: Msg,
	pub lead: u8,
	pub cuts: Vec<u16>,
	pub content_length: bool,
	pub ct: (u8, u32),
	/// small request limit (exercises the Content-Length / Limited paths together with chunking)
	pub limit: Option<u16>,
	/// 0 = TowerService, 1 = low-level `http::call_with_service_builder`
	#[serde(default)]
	pub entry: u8,
}

pub struct Chunking;

pub fn cut(body: &[u8], cuts: &[usize]) -> Vec<Vec<u8>> {
	let mut c: Vec<usize> = cuts.iter().map(|x| (*x).min(body.len())).collect();
	c.sort();
	let mut frames = vec![];
	let mut prev = 0;
	for p in c {
		frames.push(body[prev..p].to_vec());
		prev = p;
	}
	frames.push(body[prev..].to_vec());
	frames
}

fn blank_only(f: &[u8]) -> bool {
	f.iter().all(|b| b.is_ascii_whitespace())
}

async fn compare_framings(fix: &Fixture, body: &[u8], frames: Vec<Vec<u8>>, content_length: bool, ct: &[u8], obs: &mut Obs, reference: &HttpResp) {
	// (a body without Content-Length may end in a trailers frame: every other framing of that kind does)
	let trailers = !content_length && (frames.len() + body.len()) % 2 == 1;
	if trailers {
		obs.class("body-ends-with-trailers");
	}
	let req = HttpReq { method: "POST".into(), headers: vec![("content-type".into(), ct.to_vec())], frames: frames.clone(), content_length, uri: "/".into(), trailers };
	let r = if fix.cfg.entry == 1 { fix.http_lowlevel(req).await } else { fix.http(req).await };
	settle().await;
	if r.status != reference.status || r.body != reference.body {
		let first_blank = frames.first().is_some_and(|f| blank_only(f)) && frames.len() > 1;
		let sniff_malformed = !matches!(body.iter().take(128).find(|b| !b.is_ascii_whitespace()), Some(b'{') | Some(b'['));
		let sig = if reference.status == 413 && r.status == 400 && sniff_malformed && !content_length {
			// doubly invalid body: too big AND not starting with '{'/'[': with Content-Length the size is rejected first,
			// without it the first chunk is sniffed first
			"c19/oversized-malformed-body-413-or-400"
		} else if reference.status == 413 && r.status >= 400 {
			"c19/oversize-status-depends-on-content-length"
		} else if first_blank {
			"c19/blank-or-empty-first-chunk"
		} else {
			"c19/framing-changes-answer"
		};
		obs.fail(
			sig,
			format!(
				"body {:?} frames {:?} content-length={content_length} trailers={trailers} => {} {:?}; one chunk => {} {:?}",
				String::from_utf8_lossy(body),
				frames.iter().map(|f| String::from_utf8_lossy(f).to_string()).collect::<Vec<_>>(),
				r.status,
				String::from_utf8_lossy(&r.body),
				reference.status,
				String::from_utf8_lossy(&reference.body)
			),
		);
	}
}

impl SubCheck for Chunking {
	type Case = ChunkCase;
	fn name(&self) -> &'static str {
		"chunking"
	}
	fn cases(&self, tier: Tier) -> u32 {
		tier.pick(300_000, 6_000_000)
	}
	fn strategy(&self, _tier: Tier) -> BoxedStrategy<ChunkCase> {
		(
			prop_oneof![2 => Just(Msg::Bytes(VALID_CALL.to_vec())), 1 => Just(Msg::Bytes(br#"[{"jsonrpc":"2.0","id":1,"method":"echo_sync"},{"jsonrpc":"2.0","method":"x"}]"#.to_vec())), 4 => arb_msg(2)],
			prop_oneof![4 => Just(0u8), 2 => 1u8..6, 1 => 120u8..=127, 1 => 128u8..135],
			proptest::collection::vec(any::<u16>(), 1..8),
			any::<bool>(),
			(0u8..6, any::<u32>()),
			proptest::option::weighted(0.15, 40u16..200),
			prop_oneof![3 => Just(0u8), 1 => Just(1u8)],
		)
			.prop_map(|(body, lead, cuts, content_length, ct, limit, entry)| ChunkCase { body, lead, cuts, content_length, ct, limit, entry })
			.boxed()
	}
	fn run(&self, case: &ChunkCase, obs: &mut Obs) {
		let mut body: Vec<u8> = (0..case.lead).map(|i| [b' ', b'\n', b'\t', b'\r'][i as usize % 4]).collect();
		body.extend_from_slice(&render_msg(&case.body));
		// cut positions: biased towards the sniffing window
		let positions: Vec<usize> = case
			.cuts
			.iter()
			.enumerate()
			.map(|(i, c)| if i % 2 == 0 { pick_idx(*c, body.len().min(130) + 1) } else { pick_idx(*c, body.len() + 1) })
			.collect();
		let frames = cut(&body, &positions);
		let in_window = positions.iter().any(|p| *p < 128 && *p > 0 && *p < body.len());
		let has_blank = frames.iter().any(|f| blank_only(f));
		if (frames.len() >= 2 && in_window) || has_blank {
			obs.nontrivial();
		}
		if has_blank {
			obs.class("with-empty-or-blank-chunk");
		}
		if frames.first().is_some_and(|f| blank_only(f)) && frames.len() > 1 {
			obs.class("blank-first-chunk");
		}
		obs.class(if case.content_length { "with-content-length" } else { "without-content-length" });
		obs.class(format!("chunks:{}", frames.len().min(5)));
		obs.sample(json!({"frames": frames.iter().map(|f| String::from_utf8_lossy(f).to_string()).collect::<Vec<_>>(), "content_length": case.content_length}));
		let ct = apply_case(ACCEPTED[case.ct.0 as usize % 6], case.ct.1).into_bytes();
		let rt = rt();
		rt.block_on(async {
			let mut cfg = Cfg::default();
			if let Some(l) = case.limit {
				cfg.max_request = l as u32;
				obs.class("small-request-limit");
			}
			cfg.entry = case.entry;
			obs.class(if case.entry == 1 { "entry:low-level" } else { "entry:tower-service" });
			let fix = Fixture::new(cfg);
			let reference = fix.http_post_e(&body).await;
			settle().await;
			compare_framings(&fix, &body, frames.clone(), case.content_length, &ct, obs, &reference).await;
			fix.ctx.gates.release_all();
		});
	}
}

/// Exhaustive: every way of cutting a short body into <= 3 chunks (incl. empty chunks), with and without Content-Length.
#[derive(Clone, Debug, Serialize, Deserialize)]
pub struct CutAllCase {
	pub body: Vec<u8>,
	pub only: Option<(usize, usize, bool)>,
}

pub struct CutAll;

impl SubCheck for CutAll {
	type Case = CutAllCase;
	fn name(&self) -> &'static str {
		"all-cuts"
	}
	fn cases(&self, _tier: Tier) -> u32 {
		0
	}
	fn strategy(&self, _tier: Tier) -> BoxedStrategy<CutAllCase> {
		proptest::collection::vec(any::<u8>(), 0..10).prop_map(|body| CutAllCase { body, only: None }).boxed()
	}
	fn run(&self, case: &CutAllCase, obs: &mut Obs) {
		let body = &case.body;
		obs.nontrivial();
		let rt = rt();
		rt.block_on(async {
			let fix = Fixture::new(Cfg::default());
			let reference = fix.http_post(body).await;
			settle().await;
			let mut n = 0u64;
			let combos: Vec<(usize, usize, bool)> = match case.only {
				Some(c) => vec![c],
				None => {
					let mut v = vec![];
					for i in 0..=body.len() {
						for j in i..=body.len() {
							v.push((i, j, true));
							v.push((i, j, false));
						}
					}
					v
				}
			};
			for (i, j, cl) in combos {
				n += 1;
				obs.nontrivial_keys.push(hash_of(&(i, j, cl)));
				let before = obs.failures.len();
				compare_framings(&fix, body, cut(body, &[i, j]), cl, b"application/json", obs, &reference).await;
				if obs.failures.len() > before {
					break;
				}
			}
			obs.weight = n;
			fix.ctx.gates.release_all();
		});
	}
	fn split(&self, case: &CutAllCase) -> Vec<CutAllCase> {
		if case.only.is_some() {
			return vec![];
		}
		let mut v = vec![];
		for i in 0..=case.body.len() {
			for j in i..=case.body.len() {
				for cl in [true, false] {
					v.push(CutAllCase { body: case.body.clone(), only: Some((i, j, cl)) });
				}
			}
		}
		v
	}
}

pub fn short_bodies() -> Vec<Vec<u8>> {
	let mut v: Vec<Vec<u8>> = vec![
		br#"{"jsonrpc":"2.0","id":1,"method":"echo_sync","params":[1]}"#.to_vec(),
		br#"  {"jsonrpc":"2.0","id":"a","method":"typed_async","params":[7,"x"]}"#.to_vec(),
		br#"{"jsonrpc":"2.0","method":"echo_sync"}"#.to_vec(),
		br#"[{"jsonrpc":"2.0","id":1,"method":"echo_sync"},{"id":2}]"#.to_vec(),
		b" \n\t [ ]".to_vec(),
		b"[]".to_vec(),
		b"{}".to_vec(),
		b"".to_vec(),
		b"   ".to_vec(),
		b"x".to_vec(),
		b" {\"jsonrpc\":\"2.0\",\"id\":1,\"method\":".to_vec(),
		br#"{"jsonrpc":"2.0","id":1,"method":"nope"}"#.to_vec(),
		b"\r\n{\"id\":5}".to_vec(),
		b"\x0c{\"jsonrpc\":\"2.0\",\"id\":1,\"method\":\"echo_sync\"}".to_vec(),
		b"null".to_vec(),
		b"7".to_vec(),
	];
	// bodies whose leading blanks straddle the 128-byte window
	for lead in [126usize, 127, 128, 129] {
		let mut b = vec![b' '; lead];
		b.extend_from_slice(br#"{"jsonrpc":"2.0","id":1,"method":"echo_sync"}"#);
		v.push(b);
	}
	v
}

pub fn check(ctx: &mut Ctx) {
	ctx.rule = "HTTP requests into the tower service with the body supplied as an explicit frame sequence: methods x content-type lists (six accepted spellings in random letter case, near misses, raw bytes, duplicates, none) x bodies; \
		for accepted requests random cuts into <= 8 chunks (biased into the 128-byte sniffing window, empty and blank-only chunks) with/without Content-Length (a quarter of them through the low-level http::call_with_service_builder), and EVERY way of cutting each of a set of short bodies into <= 3 chunks. \
		Oracle: 405 / 415 + empty invocation log; metamorphic: same bytes as one chunk with Content-Length. Non-trivial = >= 2 chunks with a cut inside the first 128 bytes, or an empty/blank-only chunk (gates: non-POST, non-JSON, case variants, duplicates)."
		.into();
	ctx.assumptions = vec!["requests the `http` crate refuses to build (invalid header bytes / method tokens) are skipped and counted".into()];
	ctx.run_sub(&Gates);
	ctx.run_sub(&Chunking);
	let bodies = short_bodies();
	let n = bodies.len();
	let cases: Vec<CutAllCase> = bodies.into_iter().map(|body| CutAllCase { body, only: None }).collect();
	ctx.run_cases_parallel(&CutAll, cases, 16);
	ctx.extra.insert("all_cuts".into(), json!({"bodies": n, "exhaustive_over": "all (i<=j) cut pairs of each listed body x Content-Length present/absent"}));
}

pub fn replay(file: &serde_json::Value) -> Option<i32> {
	replay_with(&Gates, file, "C19").or_else(|| replay_with(&Chunking, file, "C19")).or_else(|| replay_with(&CutAll, file, "C19"))
}
