//! Own JSON tree (order- and duplicate-preserving, raw number text), renderer with generated
//! insignificant whitespace / alternative spellings, strict reader (RFC 8259), and strategies.

use proptest::prelude::*;
use serde::{Deserialize, Serialize};

#[derive(Clone, Debug, PartialEq, Eq, Hash, Serialize, Deserialize)]
pub enum J {
	Null,
	Bool(bool),
	/// raw number text (valid JSON number)
	Num(String),
	Str(String),
	Arr(Vec<J>),
	Obj(Vec<(String, J)>),
}

impl J {
	pub fn num(n: impl ToString) -> J {
		J::Num(n.to_string())
	}
	pub fn str(s: impl Into<String>) -> J {
		J::Str(s.into())
	}
	pub fn obj(members: Vec<(&str, J)>) -> J {
		J::Obj(members.into_iter().map(|(k, v)| (k.to_string(), v)).collect())
	}
	pub fn get(&self, key: &str) -> Option<&J> {
		match self {
			J::Obj(m) => m.iter().find(|(k, _)| k == key).map(|(_, v)| v),
			_ => None,
		}
	}
	pub fn get_all(&self, key: &str) -> Vec<&J> {
		match self {
			J::Obj(m) => m.iter().filter(|(k, _)| k == key).map(|(_, v)| v).collect(),
			_ => vec![],
		}
	}
	pub fn has_dup_keys_top(&self) -> bool {
		match self {
			J::Obj(m) => {
				let mut s = std::collections::HashSet::new();
				m.iter().any(|(k, _)| !s.insert(k.as_str()))
			}
			_ => false,
		}
	}
	pub fn has_dup_keys_deep(&self) -> bool {
		match self {
			J::Obj(m) => self.has_dup_keys_top() || m.iter().any(|(_, v)| v.has_dup_keys_deep()),
			J::Arr(a) => a.iter().any(|v| v.has_dup_keys_deep()),
			_ => false,
		}
	}
	/// all number tokens representable by serde_json (finite f64 / u64 / i64)
	pub fn numbers_in_range(&self) -> bool {
		match self {
			J::Num(t) => serde_json::from_str::<serde_json::Value>(t).is_ok(),
			J::Arr(a) => a.iter().all(|v| v.numbers_in_range()),
			J::Obj(m) => m.iter().all(|(_, v)| v.numbers_in_range()),
			_ => true,
		}
	}
	pub fn depth(&self) -> usize {
		match self {
			J::Arr(a) => 1 + a.iter().map(|v| v.depth()).max().unwrap_or(0),
			J::Obj(m) => 1 + m.iter().map(|(_, v)| v.depth()).max().unwrap_or(0),
			_ => 0,
		}
	}
	pub fn is_container(&self) -> bool {
		matches!(self, J::Arr(_) | J::Obj(_))
	}
	/// Conversion to serde_json's value model (what the library itself sees after a full parse).
	pub fn to_value(&self) -> serde_json::Value {
		use serde_json::Value as V;
		match self {
			J::Null => V::Null,
			J::Bool(b) => V::Bool(*b),
			J::Num(t) => serde_json::from_str::<V>(t).unwrap_or(V::Null),
			J::Str(s) => V::String(s.clone()),
			J::Arr(a) => V::Array(a.iter().map(|v| v.to_value()).collect()),
			J::Obj(m) => {
				let mut o = serde_json::Map::new();
				for (k, v) in m {
					o.insert(k.clone(), v.to_value());
				}
				V::Object(o)
			}
		}
	}
	pub fn from_value(v: &serde_json::Value) -> J {
		use serde_json::Value as V;
		match v {
			V::Null => J::Null,
			V::Bool(b) => J::Bool(*b),
			V::Number(n) => J::Num(n.to_string()),
			V::String(s) => J::Str(s.clone()),
			V::Array(a) => J::Arr(a.iter().map(J::from_value).collect()),
			V::Object(m) => J::Obj(m.iter().map(|(k, v)| (k.clone(), J::from_value(v))).collect()),
		}
	}
	pub fn compact(&self) -> String {
		let mut out = String::new();
		render(self, &mut out, &mut Style::compact());
		out
	}
	pub fn styled(&self, style: &mut Style) -> String {
		let mut out = String::new();
		render(self, &mut out, style);
		out
	}
}

/// Rendering plan: a cyclic tape of selectors decides whitespace and escape spellings.
#[derive(Clone, Debug)]
pub struct Style {
	tape: Vec<u8>,
	pos: usize,
}

impl Style {
	pub fn compact() -> Self {
		Style { tape: vec![], pos: 0 }
	}
	pub fn new(tape: Vec<u8>) -> Self {
		Style { tape, pos: 0 }
	}
	fn next(&mut self) -> u8 {
		if self.tape.is_empty() {
			return 0;
		}
		let v = self.tape[self.pos % self.tape.len()];
		self.pos += 1;
		v
	}
	pub fn ws(&mut self, out: &mut String) {
		let v = self.next();
		// most positions get nothing
		match v % 16 {
			0..=9 => {}
			10 => out.push(' '),
			11 => out.push('\n'),
			12 => out.push('\t'),
			13 => out.push('\r'),
			14 => out.push_str("  "),
			_ => out.push_str(" \n\t"),
		}
	}
}

pub fn escape_str(s: &str, out: &mut String, style: &mut Style) {
	out.push('"');
	for c in s.chars() {
		let alt = style.next();
		match c {
			'"' => out.push_str("\\\""),
			'\\' => out.push_str("\\\\"),
			'\n' => out.push_str(if alt % 2 == 0 { "\\n" } else { "\\u000a" }),
			'\r' => out.push_str("\\r"),
			'\t' => out.push_str(if alt % 2 == 0 { "\\t" } else { "\\u0009" }),
			'\u{8}' => out.push_str("\\b"),
			'\u{c}' => out.push_str("\\f"),
			c if (c as u32) < 0x20 => out.push_str(&format!("\\u{:04x}", c as u32)),
			'/' if alt % 3 == 1 => out.push_str("\\/"),
			c if alt % 16 == 15 => {
				// alternative spelling as \u escapes (surrogate pair if needed)
				let mut buf = [0u16; 2];
				for u in c.encode_utf16(&mut buf) {
					out.push_str(&format!("\\u{:04X}", u));
				}
			}
			c => out.push(c),
		}
	}
	out.push('"');
}

fn render(j: &J, out: &mut String, st: &mut Style) {
	match j {
		J::Null => out.push_str("null"),
		J::Bool(true) => out.push_str("true"),
		J::Bool(false) => out.push_str("false"),
		J::Num(t) => out.push_str(t),
		J::Str(s) => escape_str(s, out, st),
		J::Arr(a) => {
			out.push('[');
			st.ws(out);
			for (i, v) in a.iter().enumerate() {
				if i > 0 {
					out.push(',');
					st.ws(out);
				}
				render(v, out, st);
				st.ws(out);
			}
			out.push(']');
		}
		J::Obj(m) => {
			out.push('{');
			st.ws(out);
			for (i, (k, v)) in m.iter().enumerate() {
				if i > 0 {
					out.push(',');
					st.ws(out);
				}
				escape_str(k, out, st);
				st.ws(out);
				out.push(':');
				st.ws(out);
				render(v, out, st);
				st.ws(out);
			}
			out.push('}');
		}
	}
}

// ------------------------------------------------------------------------------------------
// Strict reader (RFC 8259). Iterative; no depth limit; keeps duplicate names and raw numbers.
// ------------------------------------------------------------------------------------------

#[derive(Debug, Clone, PartialEq)]
pub struct JsonErr(pub usize, pub &'static str);

pub fn parse_strict(bytes: &[u8]) -> Result<J, JsonErr> {
	let s = std::str::from_utf8(bytes).map_err(|e| JsonErr(e.valid_up_to(), "invalid utf-8"))?;
	let b = s.as_bytes();
	let mut p = Parser { b, i: 0 };
	p.ws();
	let v = p.value()?;
	p.ws();
	if p.i != b.len() {
		return Err(JsonErr(p.i, "trailing characters"));
	}
	Ok(v)
}

struct Parser<'a> {
	b: &'a [u8],
	i: usize,
}

enum Frame {
	Arr(Vec<J>),
	Obj(Vec<(String, J)>, String),
}

impl<'a> Parser<'a> {
	fn ws(&mut self) {
		while self.i < self.b.len() && matches!(self.b[self.i], b' ' | b'\n' | b'\t' | b'\r') {
			self.i += 1;
		}
	}
	fn peek(&self) -> Option<u8> {
		self.b.get(self.i).copied()
	}
	fn lit(&mut self, word: &'static [u8]) -> Result<(), JsonErr> {
		if self.b.len() >= self.i + word.len() && &self.b[self.i..self.i + word.len()] == word {
			self.i += word.len();
			Ok(())
		} else {
			Err(JsonErr(self.i, "bad literal"))
		}
	}
	fn number(&mut self) -> Result<J, JsonErr> {
		let st = self.i;
		if self.peek() == Some(b'-') {
			self.i += 1;
		}
		match self.peek() {
			Some(b'0') => self.i += 1,
			Some(b'1'..=b'9') => {
				while matches!(self.peek(), Some(b'0'..=b'9')) {
					self.i += 1;
				}
			}
			_ => return Err(JsonErr(self.i, "bad number")),
		}
		if self.peek() == Some(b'.') {
			self.i += 1;
			if !matches!(self.peek(), Some(b'0'..=b'9')) {
				return Err(JsonErr(self.i, "bad fraction"));
			}
			while matches!(self.peek(), Some(b'0'..=b'9')) {
				self.i += 1;
			}
		}
		if matches!(self.peek(), Some(b'e' | b'E')) {
			self.i += 1;
			if matches!(self.peek(), Some(b'+' | b'-')) {
				self.i += 1;
			}
			if !matches!(self.peek(), Some(b'0'..=b'9')) {
				return Err(JsonErr(self.i, "bad exponent"));
			}
			while matches!(self.peek(), Some(b'0'..=b'9')) {
				self.i += 1;
			}
		}
		Ok(J::Num(String::from_utf8(self.b[st..self.i].to_vec()).unwrap()))
	}
	fn hex4(&mut self) -> Result<u16, JsonErr> {
		if self.i + 4 > self.b.len() {
			return Err(JsonErr(self.i, "short \\u"));
		}
		let mut v = 0u16;
		for k in 0..4 {
			let c = self.b[self.i + k];
			let d = match c {
				b'0'..=b'9' => c - b'0',
				b'a'..=b'f' => c - b'a' + 10,
				b'A'..=b'F' => c - b'A' + 10,
				_ => return Err(JsonErr(self.i + k, "bad hex")),
			};
			v = v * 16 + d as u16;
		}
		self.i += 4;
		Ok(v)
	}
	fn string(&mut self) -> Result<String, JsonErr> {
		// at opening quote
		self.i += 1;
		let mut out = String::new();
		loop {
			let Some(c) = self.peek() else { return Err(JsonErr(self.i, "unterminated string")) };
			match c {
				b'"' => {
					self.i += 1;
					return Ok(out);
				}
				b'\\' => {
					self.i += 1;
					let Some(e) = self.peek() else { return Err(JsonErr(self.i, "unterminated escape")) };
					self.i += 1;
					match e {
						b'"' => out.push('"'),
						b'\\' => out.push('\\'),
						b'/' => out.push('/'),
						b'b' => out.push('\u{8}'),
						b'f' => out.push('\u{c}'),
						b'n' => out.push('\n'),
						b'r' => out.push('\r'),
						b't' => out.push('\t'),
						b'u' => {
							let u = self.hex4()?;
							if (0xD800..0xDC00).contains(&u) {
								// need a low surrogate
								if self.peek() == Some(b'\\') && self.b.get(self.i + 1) == Some(&b'u') {
									self.i += 2;
									let lo = self.hex4()?;
									if !(0xDC00..0xE000).contains(&lo) {
										return Err(JsonErr(self.i, "lone surrogate"));
									}
									let cp = 0x10000 + (((u - 0xD800) as u32) << 10) + (lo - 0xDC00) as u32;
									out.push(char::from_u32(cp).ok_or(JsonErr(self.i, "bad code point"))?);
								} else {
									return Err(JsonErr(self.i, "lone surrogate"));
								}
							} else if (0xDC00..0xE000).contains(&u) {
								return Err(JsonErr(self.i, "lone surrogate"));
							} else {
								out.push(char::from_u32(u as u32).ok_or(JsonErr(self.i, "bad code point"))?);
							}
						}
						_ => return Err(JsonErr(self.i - 1, "bad escape")),
					}
				}
				c if c < 0x20 => return Err(JsonErr(self.i, "control character in string")),
				_ => {
					// copy one UTF-8 scalar
					let st = self.i;
					self.i += 1;
					while self.i < self.b.len() && (self.b[self.i] & 0xC0) == 0x80 {
						self.i += 1;
					}
					out.push_str(std::str::from_utf8(&self.b[st..self.i]).unwrap());
				}
			}
		}
	}

	fn value(&mut self) -> Result<J, JsonErr> {
		let mut stack: Vec<Frame> = vec![];
		loop {
			// parse a value start
			self.ws();
			let mut done: Option<J> = match self.peek() {
				None => return Err(JsonErr(self.i, "unexpected end")),
				Some(b'n') => {
					self.lit(b"null")?;
					Some(J::Null)
				}
				Some(b't') => {
					self.lit(b"true")?;
					Some(J::Bool(true))
				}
				Some(b'f') => {
					self.lit(b"false")?;
					Some(J::Bool(false))
				}
				Some(b'"') => Some(J::Str(self.string()?)),
				Some(b'-' | b'0'..=b'9') => Some(self.number()?),
				Some(b'[') => {
					self.i += 1;
					self.ws();
					if self.peek() == Some(b']') {
						self.i += 1;
						Some(J::Arr(vec![]))
					} else {
						stack.push(Frame::Arr(vec![]));
						None
					}
				}
				Some(b'{') => {
					self.i += 1;
					self.ws();
					if self.peek() == Some(b'}') {
						self.i += 1;
						Some(J::Obj(vec![]))
					} else {
						if self.peek() != Some(b'"') {
							return Err(JsonErr(self.i, "expected member name"));
						}
						let k = self.string()?;
						self.ws();
						if self.peek() != Some(b':') {
							return Err(JsonErr(self.i, "expected ':'"));
						}
						self.i += 1;
						stack.push(Frame::Obj(vec![], k));
						None
					}
				}
				Some(_) => return Err(JsonErr(self.i, "unexpected character")),
			};
			// attach completed values upward
			while let Some(v) = done.take() {
				match stack.pop() {
					None => return Ok(v),
					Some(Frame::Arr(mut a)) => {
						a.push(v);
						self.ws();
						match self.peek() {
							Some(b',') => {
								self.i += 1;
								stack.push(Frame::Arr(a));
							}
							Some(b']') => {
								self.i += 1;
								done = Some(J::Arr(a));
							}
							_ => return Err(JsonErr(self.i, "expected ',' or ']'")),
						}
					}
					Some(Frame::Obj(mut m, k)) => {
						m.push((k, v));
						self.ws();
						match self.peek() {
							Some(b',') => {
								self.i += 1;
								self.ws();
								if self.peek() != Some(b'"') {
									return Err(JsonErr(self.i, "expected member name"));
								}
								let k = self.string()?;
								self.ws();
								if self.peek() != Some(b':') {
									return Err(JsonErr(self.i, "expected ':'"));
								}
								self.i += 1;
								stack.push(Frame::Obj(m, k));
							}
							Some(b'}') => {
								self.i += 1;
								done = Some(J::Obj(m));
							}
							_ => return Err(JsonErr(self.i, "expected ',' or '}'")),
						}
					}
				}
			}
		}
	}
}

// ------------------------------------------------------------------------------------------
// Strategies
// ------------------------------------------------------------------------------------------

pub const INTERESTING_NUMS: &[&str] = &[
	"0",
	"1",
	"-1",
	"7",
	"42",
	"255",
	"256",
	"65535",
	"2147483647",
	"2147483648",
	"-2147483648",
	"4294967295",
	"4294967296",
	"9007199254740991",
	"9007199254740992",
	"9007199254740993",
	"9223372036854775807",
	"9223372036854775808",
	"-9223372036854775808",
	"18446744073709551615",
	"0.5",
	"-0.25",
	"1.5",
	"1e2",
	"1E2",
	"2.5e-3",
	"-0",
	"0.0",
	"123456.789",
	"1e10",
];

pub fn arb_num_text() -> BoxedStrategy<String> {
	prop_oneof![
		3 => proptest::sample::select(INTERESTING_NUMS).prop_map(|s| s.to_string()),
		2 => any::<u64>().prop_map(|n| n.to_string()),
		1 => any::<i64>().prop_map(|n| n.to_string()),
		1 => (any::<i32>(), 0u8..4).prop_map(|(m, d)| format!("{}.{}", m, "5".repeat(d as usize + 1))),
	]
	.boxed()
}

/// Characters that matter: delimiters, quotes, backslashes, controls, multi-byte UTF-8.
pub fn arb_char() -> BoxedStrategy<char> {
	prop_oneof![
		6 => proptest::char::range('a', 'z'),
		2 => proptest::char::range('0', '9'),
		3 => proptest::sample::select(vec!['[', ']', '{', '}', ',', ':', '"', '\\', '/', ' ', '\'']),
		1 => proptest::sample::select(vec!['\n', '\t', '\r', '\u{0}', '\u{1}', '\u{1f}', '\u{7f}', '\u{8}', '\u{c}']),
		2 => proptest::sample::select(vec!['é', 'ß', 'ж', '中', '€', '\u{2028}', '\u{feff}', '😀', '𝄞', '\u{10ffff}', '\u{fffd}', '\u{d7ff}', '\u{e000}']),
		1 => any::<char>(),
	]
	.boxed()
}

pub fn arb_string(max: usize) -> BoxedStrategy<String> {
	proptest::collection::vec(arb_char(), 0..=max).prop_map(|v| v.into_iter().collect()).boxed()
}

pub fn arb_key() -> BoxedStrategy<String> {
	prop_oneof![
		4 => "[a-z]{1,6}",
		1 => arb_string(5),
		1 => proptest::sample::select(vec!["jsonrpc", "id", "method", "params", "result", "error", "code", "message", "data", "subscription", ""]).prop_map(|s| s.to_string()),
	]
	.boxed()
}

fn uniq_keys(m: Vec<(String, J)>) -> Vec<(String, J)> {
	let mut seen = std::collections::HashSet::new();
	m.into_iter().filter(|(k, _)| seen.insert(k.clone())).collect()
}

pub fn arb_scalar() -> BoxedStrategy<J> {
	prop_oneof![
		1 => Just(J::Null),
		1 => any::<bool>().prop_map(J::Bool),
		3 => arb_num_text().prop_map(J::Num),
		3 => arb_string(12).prop_map(J::Str),
	]
	.boxed()
}

/// JSON values with unique member names.
pub fn arb_json(depth: u32) -> BoxedStrategy<J> {
	arb_scalar()
		.prop_recursive(depth, 48, 5, |inner| {
			prop_oneof![
				proptest::collection::vec(inner.clone(), 0..5).prop_map(J::Arr),
				proptest::collection::vec((arb_key(), inner), 0..5).prop_map(|m| J::Obj(uniq_keys(m))),
			]
		})
		.boxed()
}

pub fn arb_style() -> BoxedStrategy<Style> {
	prop_oneof![
		2 => Just(Style::compact()),
		3 => proptest::collection::vec(any::<u8>(), 1..24).prop_map(Style::new),
	]
	.boxed()
}

pub fn arb_tape() -> BoxedStrategy<Vec<u8>> {
	prop_oneof![2 => Just(vec![]), 3 => proptest::collection::vec(any::<u8>(), 1..24)].boxed()
}

#[cfg(test)]
mod tests {
	use super::*;
	#[test]
	fn strict_agrees_with_serde_on_samples() {
		for t in ["{}", "[]", " [1, 2.5e3, \"a\\u00e9\\ud834\\udd1e\", {\"a\":null}] ", "[1,]", "{\"a\":1,}", "01", "1.", "\"\\x\"", "\"\\ud800\"", "tru", "[1 2]", "-", "1e", "\"a\nb\""] {
			let a = parse_strict(t.as_bytes()).is_ok();
			let b = serde_json::from_str::<serde_json::Value>(t).is_ok();
			assert_eq!(a, b, "{t}");
		}
	}
}
