//! Engine: seeds, tiers, sharded proptest runs, classification counters, evidence writer,
//! replay files and the known-findings protocol.
//!
//! Every random choice of a check comes from a proptest strategy driven by a `TestRunner`
//! whose RNG seed is a pure function of (`VERIF_SEED`, sub-check name, shard index).

use proptest::strategy::{BoxedStrategy, Strategy, ValueTree};
use proptest::test_runner::{Config, RngSeed, TestCaseError, TestError, TestRunner};
use serde::Serialize;
use serde::de::DeserializeOwned;
use serde_json::{Value, json};
use std::collections::{BTreeMap, HashSet};
use std::fmt::Debug;
use std::hash::{Hash, Hasher};
use std::path::{Path, PathBuf};
use std::sync::Mutex;
use std::time::Instant;

#[derive(Clone, Copy, Debug, PartialEq, Eq)]
pub enum Tier {
	Quick,
	Thorough,
}

impl Tier {
	pub fn name(self) -> &'static str {
		match self {
			Tier::Quick => "quick",
			Tier::Thorough => "thorough",
		}
	}
	/// pick by tier
	pub fn pick<T>(self, quick: T, thorough: T) -> T {
		match self {
			Tier::Quick => quick,
			Tier::Thorough => thorough,
		}
	}
}

/// One oracle failure. `signature` is stable and specific (used to key known findings).
#[derive(Clone, Debug, Serialize, serde::Deserialize)]
pub struct Failure {
	pub signature: String,
	pub detail: String,
}

/// Per-case observation sink handed to the oracle.
#[derive(Default, Debug)]
pub struct Obs {
	pub classes: Vec<String>,
	pub nontrivial: bool,
	pub failures: Vec<Failure>,
	pub sample: Option<Value>,
	/// number of elementary evaluations this case stands for (default 1)
	pub weight: u64,
	/// extra keys that make distinct non-trivial sub-cases of this case
	pub nontrivial_keys: Vec<u64>,
}

impl Obs {
	pub fn new() -> Self {
		Obs { weight: 1, ..Default::default() }
	}
	pub fn class(&mut self, c: impl Into<String>) {
		self.classes.push(c.into());
	}
	pub fn nontrivial(&mut self) {
		self.nontrivial = true;
	}
	pub fn fail(&mut self, signature: impl Into<String>, detail: impl Into<String>) {
		self.failures.push(Failure { signature: signature.into(), detail: detail.into() });
	}
	pub fn check(&mut self, cond: bool, signature: &str, detail: impl FnOnce() -> String) -> bool {
		if !cond {
			self.fail(signature, detail());
		}
		cond
	}
	pub fn sample(&mut self, v: Value) {
		self.sample = Some(v);
	}
}

pub fn hash_of<T: Hash>(t: &T) -> u64 {
	let mut h = std::collections::hash_map::DefaultHasher::new();
	t.hash(&mut h);
	h.finish()
}

/// A sub-check of a property: a generator and an oracle over one case type.
pub trait SubCheck: Sync {
	type Case: Debug + Clone + Serialize + DeserializeOwned + Send + Sync + 'static;
	fn name(&self) -> &'static str;
	fn strategy(&self, tier: Tier) -> BoxedStrategy<Self::Case>;
	fn cases(&self, tier: Tier) -> u32;
	fn run(&self, case: &Self::Case, obs: &mut Obs);
	/// how many shards (threads) to use
	fn shards(&self, _tier: Tier) -> u32 {
		16
	}
	/// smaller cases to try when an enumerated (non-proptest) case fails
	fn split(&self, _case: &Self::Case) -> Vec<Self::Case> {
		vec![]
	}
}

#[derive(Clone, Debug, serde::Deserialize, Serialize)]
pub struct KnownFinding {
	pub property: String,
	pub signature: String,
	/// "open" or "fixed"
	pub status: String,
	#[serde(default)]
	pub commit: Option<String>,
	pub what: String,
	/// sub-check and case that reproduce it (probe)
	#[serde(default)]
	pub subcheck: Option<String>,
	#[serde(default)]
	pub case: Option<Value>,
}

pub fn verif_root() -> PathBuf {
	std::env::var("VERIF_ROOT").map(PathBuf::from).unwrap_or_else(|_| PathBuf::from("/verif"))
}

pub fn load_known_findings() -> Vec<KnownFinding> {
	let p = verif_root().join("known_findings.json");
	match std::fs::read_to_string(&p) {
		Ok(s) => {
			let v: Value = serde_json::from_str(&s).expect("known_findings.json must be valid JSON");
			serde_json::from_value(v["findings"].clone()).expect("known_findings.json: findings[]")
		}
		Err(_) => vec![],
	}
}

struct SubStats {
	pub(crate) evaluations: u64,
	cases: u64,
	nontrivial_cases: u64,
	pub(crate) classes: BTreeMap<String, u64>,
	excluded_known: BTreeMap<String, u64>,
}

/// Context of one run of one property's check.
pub struct Ctx {
	pub property: &'static str,
	pub tier: Tier,
	pub seed: u64,
	pub level: &'static str,
	start: Instant,
	pub(crate) evaluations: u64,
	distinct: HashSet<u64>,
	pub(crate) classes: BTreeMap<String, u64>,
	excluded_known: BTreeMap<String, u64>,
	samples: Vec<Value>,
	subs: BTreeMap<String, Value>,
	pub rule: String,
	pub assumptions: Vec<String>,
	pub extra: BTreeMap<String, Value>,
	known: Vec<KnownFinding>,
	pub(crate) violations: Vec<(String, String, PathBuf)>,
	known_lines: Vec<String>,
	pub exhaustive: bool,
	replay_only: bool,
}

pub fn tolerated_signature(known: &[KnownFinding], property: &str, sig: &str) -> bool {
	known.iter().any(|k| k.property == property && k.status == "open" && k.signature == sig)
}

impl Ctx {
	pub fn new(property: &'static str, tier: Tier, seed: u64, level: &'static str) -> Self {
		Ctx {
			property,
			tier,
			seed,
			level,
			start: Instant::now(),
			evaluations: 0,
			distinct: HashSet::new(),
			classes: BTreeMap::new(),
			excluded_known: BTreeMap::new(),
			samples: vec![],
			subs: BTreeMap::new(),
			rule: String::new(),
			assumptions: vec![],
			extra: BTreeMap::new(),
			known: load_known_findings(),
			violations: vec![],
			known_lines: vec![],
			exhaustive: false,
			replay_only: false,
		}
	}

	pub fn open_known(&self) -> Vec<KnownFinding> {
		self.known.iter().filter(|k| k.property == self.property && k.status == "open").cloned().collect()
	}

	fn sub_seed(&self, name: &str, shard: u32) -> u64 {
		hash_of(&(self.seed, self.property, name, shard))
	}

	/// Run a sub-check: sharded proptest search, then the known-finding probes of this sub-check.
	pub fn run_sub<S: SubCheck>(&mut self, sc: &S) {
		self.run_sub_scaled(sc, 1.0)
	}

	pub fn run_sub_scaled<S: SubCheck>(&mut self, sc: &S, scale: f64) {
		let name = sc.name();
		let total = ((sc.cases(self.tier) as f64) * scale).max(1.0) as u32;
		let shards = sc.shards(self.tier).max(1).min(total);
		let per = total.div_ceil(shards);
		let known = self.known.clone();
		let property = self.property;
		let tier = self.tier;
		let t0 = Instant::now();

		struct ShardOut<C> {
			stats: SubStats,
			distinct: HashSet<u64>,
			samples: Vec<Value>,
			failure: Option<(C, Vec<Failure>)>,
		}

		let seeds: Vec<u64> = (0..shards).map(|i| self.sub_seed(name, i)).collect();
		let outs: Vec<ShardOut<S::Case>> = std::thread::scope(|scope| {
			let handles: Vec<_> = seeds
				.iter()
				.map(|&seed| {
					let known = &known;
					scope.spawn(move || {
						let stats = Mutex::new((
							SubStats {
								evaluations: 0,
								cases: 0,
								nontrivial_cases: 0,
								classes: BTreeMap::new(),
								excluded_known: BTreeMap::new(),
							},
							HashSet::<u64>::new(),
							Vec::<Value>::new(),
							false, // failed: stop counting
						));
						let mut runner = TestRunner::new(Config {
							cases: per,
							failure_persistence: None,
							rng_seed: RngSeed::Fixed(seed),
							max_shrink_iters: 4000,
							max_global_rejects: 1 << 20,
							max_local_rejects: 1 << 20,
							..Config::default()
						});
						let strat = sc.strategy(tier);
						let res = runner.run(&strat, |case| {
							let mut obs = Obs::new();
							sc.run(&case, &mut obs);
							let mut g = stats.lock().unwrap();
							let unknown: Vec<&Failure> = obs
								.failures
								.iter()
								.filter(|f| !tolerated_signature(known, property, &f.signature))
								.collect();
							if !g.3 {
								g.0.cases += 1;
								g.0.evaluations += obs.weight.max(1);
								for c in &obs.classes {
									*g.0.classes.entry(c.clone()).or_insert(0) += 1;
								}
								for f in &obs.failures {
									if tolerated_signature(known, property, &f.signature) {
										*g.0.excluded_known.entry(f.signature.clone()).or_insert(0) += 1;
									}
								}
								if obs.nontrivial {
									g.0.nontrivial_cases += 1;
									let h = hash_of(&format!("{case:?}"));
									g.1.insert(h);
									for k in &obs.nontrivial_keys {
										g.1.insert(hash_of(&(h, k)));
									}
									if g.2.len() < 3 {
										let s = obs
											.sample
											.take()
											.unwrap_or_else(|| serde_json::to_value(&case).unwrap_or(Value::Null));
										g.2.push(s);
									}
								}
							}
							if unknown.is_empty() {
								Ok(())
							} else {
								g.3 = true;
								Err(TestCaseError::fail(format!("{} — {}", unknown[0].signature, unknown[0].detail.chars().take(600).collect::<String>())))
							}
						});
						let (stats, distinct, samples, _) = stats.into_inner().unwrap();
						let failure = match res {
							Ok(()) => None,
							Err(TestError::Fail(reason, case)) => {
								// re-run the minimal case to collect its failures
								let mut obs = Obs::new();
								let r = std::panic::catch_unwind(std::panic::AssertUnwindSafe(|| sc.run(&case, &mut obs)));
								if let Err(p) = r {
									obs.fail(format!("{name}/panic"), panic_msg(&p));
								}
								let fails: Vec<Failure> = obs
									.failures
									.into_iter()
									.filter(|f| !tolerated_signature(known, property, &f.signature))
									.collect();
								let fails = if fails.is_empty() {
									// (sub-checks that run on real threads: the failure depends on the OS schedule; it is reported under
									// the signature it was seen with)
									let r = reason.to_string();
									let (sig, det) = match r.split_once(" — ") {
										Some((a, b)) => (a.to_string(), b.to_string()),
										None => (format!("{name}/unstable"), r.clone()),
									};
									vec![Failure { signature: sig, detail: format!("(seen once; the shrunk case did not fail again when it was re-run) {det}") }]
								} else {
									fails
								};
								Some((case, fails))
							}
							Err(TestError::Abort(r)) => {
								eprintln!("[{property}/{name}] generator aborted: {r}");
								None
							}
						};
						ShardOut { stats, distinct, samples, failure }
					})
				})
				.collect();
			handles.into_iter().map(|h| h.join().expect("shard thread")).collect()
		});

		let mut sub_eval = 0u64;
		let mut sub_cases = 0u64;
		let mut sub_nt = 0u64;
		let mut sub_classes: BTreeMap<String, u64> = BTreeMap::new();
		let mut first_failure = None;
		for o in outs {
			sub_eval += o.stats.evaluations;
			sub_cases += o.stats.cases;
			sub_nt += o.stats.nontrivial_cases;
			for (k, v) in o.stats.classes {
				*sub_classes.entry(k.clone()).or_insert(0) += v;
				*self.classes.entry(format!("{name}:{k}")).or_insert(0) += v;
			}
			for (k, v) in o.stats.excluded_known {
				*self.excluded_known.entry(k).or_insert(0) += v;
			}
			for h in o.distinct {
				self.distinct.insert(hash_of(&(name, h)));
			}
			for s in o.samples {
				if self.samples.iter().filter(|x| x["sub"] == name).count() < 3 {
					self.samples.push(json!({"sub": name, "case": s}));
				}
			}
			if first_failure.is_none() {
				first_failure = o.failure;
			}
		}
		self.evaluations += sub_eval;
		self.subs.insert(
			name.to_string(),
			json!({"cases": sub_cases, "evaluations": sub_eval, "nontrivial_cases": sub_nt, "classes": sub_classes,
				"wall_s": t0.elapsed().as_secs_f64(), "shards": shards}),
		);
		if let Some((case, fails)) = first_failure {
			self.report_violation(name, &case, &fails);
		}
		self.run_probes(sc);
	}

	/// Run an explicit list of cases (enumeration) on `threads` threads; a failing case is reduced with `split`.
	pub fn run_cases_parallel<S: SubCheck>(&mut self, sc: &S, cases: Vec<S::Case>, threads: usize) {
		let name = sc.name();
		let t0 = Instant::now();
		let known = self.known.clone();
		let property = self.property;
		let n = cases.len();
		let threads = threads.max(1).min(n.max(1));
		struct Out<C> {
			evaluations: u64,
			classes: BTreeMap<String, u64>,
			distinct: HashSet<u64>,
			samples: Vec<Value>,
			excluded: BTreeMap<String, u64>,
			failure: Option<(C, Vec<Failure>)>,
		}
		let cases_ref = &cases;
		let outs: Vec<Out<S::Case>> = std::thread::scope(|scope| {
			let hs: Vec<_> = (0..threads)
				.map(|t| {
					let known = &known;
					scope.spawn(move || {
						let mut o = Out { evaluations: 0, classes: BTreeMap::new(), distinct: HashSet::new(), samples: vec![], excluded: BTreeMap::new(), failure: None };
						let mut i = t;
						while i < cases_ref.len() {
							let case = &cases_ref[i];
							i += threads;
							let mut obs = Obs::new();
							let r = std::panic::catch_unwind(std::panic::AssertUnwindSafe(|| sc.run(case, &mut obs)));
							if let Err(p) = r {
								obs.fail(format!("{name}/panic"), panic_msg(&p));
							}
							o.evaluations += obs.weight.max(1);
							for c in &obs.classes {
								*o.classes.entry(c.clone()).or_insert(0) += 1;
							}
							if obs.nontrivial {
								let h = hash_of(&format!("{case:?}"));
								o.distinct.insert(h);
								for k in &obs.nontrivial_keys {
									o.distinct.insert(hash_of(&(h, k)));
								}
								if o.samples.len() < 2 {
									o.samples.push(obs.sample.take().unwrap_or_else(|| serde_json::to_value(case).unwrap_or(Value::Null)));
								}
							}
							let mut unknown = vec![];
							for f in obs.failures {
								if tolerated_signature(known, property, &f.signature) {
									*o.excluded.entry(f.signature.clone()).or_insert(0) += 1;
								} else {
									unknown.push(f);
								}
							}
							if !unknown.is_empty() {
								// reduce
								let mut best = (case.clone(), unknown);
								loop {
									let mut improved = false;
									for piece in sc.split(&best.0) {
										let mut obs = Obs::new();
										let r = std::panic::catch_unwind(std::panic::AssertUnwindSafe(|| sc.run(&piece, &mut obs)));
										if let Err(p) = r {
											obs.fail(format!("{name}/panic"), panic_msg(&p));
										}
										let u: Vec<Failure> = obs.failures.into_iter().filter(|f| !tolerated_signature(known, property, &f.signature)).collect();
										if !u.is_empty() {
											best = (piece, u);
											improved = true;
											break;
										}
									}
									if !improved {
										break;
									}
								}
								o.failure = Some(best);
								break;
							}
						}
						o
					})
				})
				.collect();
			hs.into_iter().map(|h| h.join().expect("enum thread")).collect()
		});
		let mut sub_eval = 0;
		let mut sub_classes: BTreeMap<String, u64> = BTreeMap::new();
		let mut first_failure = None;
		for o in outs {
			sub_eval += o.evaluations;
			for (k, v) in o.classes {
				*sub_classes.entry(k.clone()).or_insert(0) += v;
				*self.classes.entry(format!("{name}:{k}")).or_insert(0) += v;
			}
			for (k, v) in o.excluded {
				*self.excluded_known.entry(k).or_insert(0) += v;
			}
			for h in o.distinct {
				self.distinct.insert(hash_of(&(name, h)));
			}
			for s in o.samples {
				if self.samples.iter().filter(|x| x["sub"] == name).count() < 3 {
					self.samples.push(json!({"sub": name, "case": s}));
				}
			}
			if first_failure.is_none() {
				first_failure = o.failure;
			}
		}
		self.evaluations += sub_eval;
		self.subs.insert(name.to_string(), json!({"cases": n, "evaluations": sub_eval, "classes": sub_classes, "wall_s": t0.elapsed().as_secs_f64(), "threads": threads, "enumerated": true}));
		if let Some((case, fails)) = first_failure {
			self.report_violation(name, &case, &fails);
		}
		self.run_probes(sc);
	}

	/// Run one explicit case (regression/corpus/enumeration) through a sub-check's oracle.
	pub fn run_case<S: SubCheck>(&mut self, sc: &S, case: &S::Case) -> Vec<Failure> {
		let name = sc.name();
		let mut obs = Obs::new();
		let r = std::panic::catch_unwind(std::panic::AssertUnwindSafe(|| sc.run(case, &mut obs)));
		if let Err(p) = r {
			obs.fail(format!("{name}/panic"), panic_msg(&p));
		}
		self.evaluations += obs.weight.max(1);
		for c in &obs.classes {
			*self.classes.entry(format!("{name}:{c}")).or_insert(0) += 1;
		}
		if obs.nontrivial {
			let h = hash_of(&format!("{case:?}"));
			self.distinct.insert(hash_of(&(name, h)));
			for k in &obs.nontrivial_keys {
				self.distinct.insert(hash_of(&(name, hash_of(&(h, k)))));
			}
			if self.samples.iter().filter(|x| x["sub"] == name).count() < 3 {
				let s = obs.sample.take().unwrap_or_else(|| serde_json::to_value(case).unwrap_or(Value::Null));
				self.samples.push(json!({"sub": name, "case": s}));
			}
		}
		let mut unknown = vec![];
		for f in obs.failures {
			if tolerated_signature(&self.known, self.property, &f.signature) {
				*self.excluded_known.entry(f.signature.clone()).or_insert(0) += 1;
			} else {
				unknown.push(f);
			}
		}
		if !unknown.is_empty() && !self.replay_only {
			self.report_violation(name, case, &unknown);
		}
		unknown
	}

	fn run_probes<S: SubCheck>(&mut self, sc: &S) {
		let name = sc.name();
		let probes: Vec<KnownFinding> = self
			.known
			.iter()
			.filter(|k| k.property == self.property && k.subcheck.as_deref() == Some(name) && k.case.is_some())
			.cloned()
			.collect();
		for k in probes {
			let case: S::Case = match serde_json::from_value(k.case.clone().unwrap()) {
				Ok(c) => c,
				Err(e) => {
					eprintln!("[{}] known finding {}: probe case does not decode: {e}", self.property, k.signature);
					continue;
				}
			};
			let mut obs = Obs::new();
			let r = std::panic::catch_unwind(std::panic::AssertUnwindSafe(|| sc.run(&case, &mut obs)));
			if let Err(p) = r {
				obs.fail(format!("{name}/panic"), panic_msg(&p));
			}
			self.evaluations += 1;
			let hit = obs.failures.iter().any(|f| f.signature == k.signature);
			let others: Vec<Failure> = obs
				.failures
				.iter()
				.filter(|f| !tolerated_signature(&self.known, self.property, &f.signature))
				.cloned()
				.collect();
			if k.status == "open" {
				if hit {
					self.known_lines.push(format!("KNOWN-FINDING: property={} {} — {}", self.property, k.signature, k.what));
				} else {
					eprintln!("[{}] note: open known finding {} no longer reproduces on its probe", self.property, k.signature);
				}
				if !others.is_empty() {
					self.report_violation(name, &case, &others);
				}
			} else {
				// fixed: suppresses nothing; the recorded input must pass now
				if !others.is_empty() {
					self.report_violation(name, &case, &others);
				}
			}
		}
	}

	fn report_violation<C: Serialize + Debug>(&mut self, sub: &str, case: &C, fails: &[Failure]) {
		let sig = fails[0].signature.clone();
		let body = json!({
			"property": self.property,
			"subcheck": sub,
			"signature": sig,
			"failures": fails,
			"seed": self.seed,
			"tier": self.tier.name(),
			"case": serde_json::to_value(case).unwrap_or(Value::Null),
			"case_debug": format!("{case:?}"),
		});
		let text = serde_json::to_string_pretty(&body).unwrap();
		let h = hash_of(&text) & 0xffff_ffff;
		let dir = verif_root().join("replays");
		let _ = std::fs::create_dir_all(&dir);
		let fname = format!("{}-{}-{:08x}.json", self.property, sanitize(&sig), h);
		let path = dir.join(fname);
		let _ = std::fs::write(&path, text);
		eprintln!("[{}] violation in {sub}: {} — {}", self.property, sig, truncate(&fails[0].detail, 2000));
		self.violations.push((sub.to_string(), sig, path));
	}

	pub fn violation_raw(&mut self, sub: &str, sig: &str, detail: &str, case: Value) {
		let f = Failure { signature: sig.to_string(), detail: detail.to_string() };
		if tolerated_signature(&self.known, self.property, sig) {
			*self.excluded_known.entry(sig.to_string()).or_insert(0) += 1;
			return;
		}
		self.report_violation(sub, &case, &[f]);
	}

	pub fn note_class(&mut self, c: &str, n: u64) {
		*self.classes.entry(c.to_string()).or_insert(0) += n;
	}
	pub fn add_evaluations(&mut self, n: u64) {
		self.evaluations += n;
	}
	pub fn add_distinct(&mut self, h: u64) {
		self.distinct.insert(h);
	}
	pub fn add_sample(&mut self, v: Value) {
		if self.samples.len() < 40 {
			self.samples.push(v);
		}
	}
	pub fn add_known_line(&mut self, sig: &str, what: &str) {
		self.known_lines.push(format!("KNOWN-FINDING: property={} {} — {}", self.property, sig, what));
	}
	pub fn has_violations(&self) -> bool {
		!self.violations.is_empty()
	}

	/// Write evidence, print KNOWN-FINDING / VIOLATION lines, return the process exit code.
	pub fn finish(self) -> i32 {
		let wall = self.start.elapsed().as_secs_f64();
		let mut coverage = serde_json::Map::new();
		coverage.insert("evaluations".into(), json!(self.evaluations));
		coverage.insert("distinct_nontrivial".into(), json!(self.distinct.len()));
		coverage.insert("rule".into(), json!(self.rule));
		coverage.insert("samples".into(), json!(self.samples));
		coverage.insert("class_histogram".into(), json!(self.classes));
		coverage.insert("subchecks".into(), json!(self.subs));
		coverage.insert("excluded_known_finding_hits".into(), json!(self.excluded_known));
		coverage.insert("known_findings_reported".into(), json!(self.known_lines));
		coverage.insert("exhaustive".into(), json!(self.exhaustive));
		for (k, v) in &self.extra {
			coverage.insert(k.clone(), v.clone());
		}
		let ev = json!({
			"property_id": self.property,
			"tier": self.tier.name(),
			"seed": self.seed,
			"level": self.level,
			"coverage": coverage,
			"assumptions": self.assumptions,
			"wall_s": wall,
			"violations": self.violations.len(),
		});
		if !self.replay_only {
			let dir = verif_root().join("evidence");
			let _ = std::fs::create_dir_all(&dir);
			let path = dir.join(format!("{}.json", self.property));
			std::fs::write(&path, serde_json::to_string_pretty(&ev).unwrap()).expect("write evidence");
		}
		for l in &self.known_lines {
			println!("{l}");
		}
		println!(
			"[{}] tier={} seed={} evaluations={} distinct_nontrivial={} violations={} wall={:.1}s",
			self.property,
			self.tier.name(),
			self.seed,
			self.evaluations,
			self.distinct.len(),
			self.violations.len(),
			wall
		);
		if self.violations.is_empty() {
			0
		} else {
			let mut seen = HashSet::new();
			for (_, sig, path) in &self.violations {
				if seen.insert(sig.clone()) {
					println!("VIOLATION property={} replay={}", self.property, path.display());
				}
			}
			1
		}
	}

	pub fn set_replay_only(&mut self) {
		self.replay_only = true;
	}
}

pub fn panic_msg(p: &Box<dyn std::any::Any + Send>) -> String {
	if let Some(s) = p.downcast_ref::<&str>() {
		s.to_string()
	} else if let Some(s) = p.downcast_ref::<String>() {
		s.clone()
	} else {
		"<non-string panic>".into()
	}
}

pub fn sanitize(s: &str) -> String {
	s.chars().map(|c| if c.is_ascii_alphanumeric() || c == '-' || c == '_' { c } else { '_' }).take(60).collect()
}

pub fn truncate(s: &str, n: usize) -> String {
	if s.len() <= n {
		s.to_string()
	} else {
		let mut e = n;
		while !s.is_char_boundary(e) {
			e -= 1;
		}
		format!("{}…[{} bytes]", &s[..e], s.len())
	}
}

/// Replay a saved case through a sub-check. Returns Some(exit code) if the file belongs to it.
pub fn replay_with<S: SubCheck>(sc: &S, file: &Value, property: &'static str) -> Option<i32> {
	if file["subcheck"].as_str() != Some(sc.name()) {
		return None;
	}
	let case: S::Case = match serde_json::from_value(file["case"].clone()) {
		Ok(c) => c,
		Err(e) => {
			eprintln!("replay: cannot decode case: {e}");
			return Some(2);
		}
	};
	let mut obs = Obs::new();
	let r = std::panic::catch_unwind(std::panic::AssertUnwindSafe(|| sc.run(&case, &mut obs)));
	if let Err(p) = r {
		obs.fail(format!("{}/panic", sc.name()), panic_msg(&p));
	}
	println!("replay {property}/{}: case = {:?}", sc.name(), case);
	if obs.failures.is_empty() {
		println!("replay: PASS (no failure)");
		Some(0)
	} else {
		for f in &obs.failures {
			println!("replay: FAIL {} — {}", f.signature, truncate(&f.detail, 4000));
		}
		Some(1)
	}
}

/// Thorough tier: a bounded libFuzzer campaign (cargo-fuzz, nightly) on a fresh copy of the committed corpus.
/// The target calls the same oracle function as the corpus replay of the quick tier.
pub fn fuzz_campaign(ctx: &mut Ctx, target: &str, runs: u64, max_len: u32) {
	if ctx.tier != Tier::Thorough {
		return;
	}
	let root = verif_root();
	let fuzz_dir = root.join("harness/fuzz");
	let work = fuzz_dir.join("work").join(target);
	let _ = std::fs::remove_dir_all(&work);
	let corpus = work.join("corpus");
	let artifacts = work.join("artifacts");
	let _ = std::fs::create_dir_all(&corpus);
	let _ = std::fs::create_dir_all(&artifacts);
	if let Ok(rd) = std::fs::read_dir(root.join("corpus").join(target)) {
		for e in rd.flatten() {
			let _ = std::fs::copy(e.path(), corpus.join(e.file_name()));
		}
	}
	let t0 = Instant::now();
	let out = std::process::Command::new("cargo")
		.current_dir(&fuzz_dir)
		.env("CARGO_NET_OFFLINE", "true")
		.env("VERIF_ROOT", &root)
		.args(["+nightly", "fuzz", "run", target, corpus.to_str().unwrap(), "--"])
		.arg(format!("-runs={runs}"))
		.arg(format!("-seed={}", (ctx.seed % 4_000_000_000).max(1)))
		.arg("-len_control=0")
		.arg(format!("-max_len={max_len}"))
		.arg(format!("-artifact_prefix={}/", artifacts.display()))
		.output();
	let wall = t0.elapsed().as_secs_f64();
	match out {
		Err(e) => {
			ctx.extra.insert(format!("fuzz:{target}"), json!({"skipped": format!("cargo fuzz could not be started: {e}")}));
		}
		Ok(o) => {
			let text = format!("{}{}", String::from_utf8_lossy(&o.stdout), String::from_utf8_lossy(&o.stderr));
			let done = text.lines().rev().find(|l| l.starts_with("Done ")).map(|l| l.to_string());
			let execs: u64 = done.as_ref().and_then(|l| l.split_whitespace().nth(1)).and_then(|n| n.parse().ok()).unwrap_or(0);
			let crash = std::fs::read_dir(&artifacts).ok().and_then(|rd| rd.flatten().map(|e| e.path()).find(|p| p.file_name().is_some_and(|n| n.to_string_lossy().starts_with("crash-"))));
			let cov = text.lines().rev().find(|l| l.contains(" cov: ")).map(|l| l.trim().to_string());
			ctx.extra.insert(format!("fuzz:{target}"), json!({"runs_requested": runs, "executions": execs, "wall_s": wall, "last_status_line": cov, "exit_ok": o.status.success()}));
			if let Some(c) = crash {
				let bytes = std::fs::read(&c).unwrap_or_default();
				let oracle_line = text.lines().find(|l| l.contains(" oracle: ")).unwrap_or("").to_string();
				let dir = root.join("replays");
				let _ = std::fs::create_dir_all(&dir);
				let name = format!("{}-fuzz-{}-{:08x}", ctx.property, target, hash_of(&bytes) & 0xffff_ffff);
				let bin = dir.join(format!("{name}.bin"));
				let _ = std::fs::write(&bin, &bytes);
				let wrapper = dir.join(format!("{name}.json"));
				let _ = std::fs::write(&wrapper, serde_json::to_string_pretty(&json!({"property": ctx.property, "subcheck": format!("fuzz:{target}"), "bytes_file": bin, "bytes_lossy": String::from_utf8_lossy(&bytes), "oracle": oracle_line})).unwrap());
				eprintln!("[{}] libFuzzer target {target} crashed: {}", ctx.property, truncate(&oracle_line, 1500));
				ctx.violations.push((format!("fuzz:{target}"), format!("fuzz/{target}"), wrapper));
			} else if !o.status.success() {
				// build failure or an environment problem: not a verdict about the property
				ctx.extra.insert(format!("fuzz:{target}:note"), json!(truncate(&text, 1500)));
			} else {
				ctx.evaluations += execs;
				*ctx.classes.entry(format!("fuzz:{target}:executions")).or_insert(0) += execs;
			}
		}
	}
	let _ = std::fs::remove_dir_all(&work);
}

/// Minimal stand-alone shrinking search used by exhaustive enumerations: nothing to do, kept for symmetry.
pub fn read_json_file(p: &Path) -> Value {
	serde_json::from_str(&std::fs::read_to_string(p).expect("read file")).expect("json")
}

/// Helper: draw one value from a strategy with a fixed seed (used for deterministic fixtures).
pub fn sample_strategy<T: Debug>(s: &BoxedStrategy<T>, seed: u64) -> T {
	let mut runner = TestRunner::new(Config { rng_seed: RngSeed::Fixed(seed), failure_persistence: None, ..Config::default() });
	s.new_tree(&mut runner).expect("tree").current()
}

/// monotone index map (shrinks towards 0)
pub fn pick_idx(sel: u16, len: usize) -> usize {
	if len == 0 { 0 } else { ((sel as usize) * len) >> 16 }
}
