pub mod server;
