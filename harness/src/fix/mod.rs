pub mod client;
pub mod server;
