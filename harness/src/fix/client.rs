//! C-mock: the real jsonrpsee async `Client` over an in-memory transport whose send / receive / close
//! futures complete (or fail, or stall on a gate) exactly when the history says so.

use jsonrpsee_core::client::{Client, ClientBuilder, IdKind, ReceivedMessage, TransportReceiverT, TransportSenderT};
use parking_lot::Mutex;
use serde_json::Value;
use std::collections::VecDeque;
use std::sync::Arc;
use tokio::sync::{Notify, mpsc};

#[derive(Debug, Clone)]
pub struct MockErr(pub String);
impl std::fmt::Display for MockErr {
	fn fmt(&self, f: &mut std::fmt::Formatter<'_>) -> std::fmt::Result {
		write!(f, "{}", self.0)
	}
}
impl std::error::Error for MockErr {}

#[derive(Debug, Clone)]
pub enum Incoming {
	/// a message the transport has taken in but only hands over once the named gate opens (a `receive()` that
	/// needs several reads: the client must keep that call alive across whatever else it has to do meanwhile)
	Held(String, String),
	Text(String),
	Bytes(Vec<u8>),
	Err(String),
}

#[derive(Debug, Clone, PartialEq)]
pub enum SendPlan {
	/// complete normally after `n` yields
	Ok(u8),
	/// fail with this text after `n` yields
	Fail(String, u8),
	/// wait for the named gate, then complete normally
	Gate(String),
	/// wait for the named gate, then fail
	GateThenFail(String, String),
	/// the message is on the wire at once, but `send` only returns after the named gate opens
	/// (a transport whose write completes late: the peer may answer before `send` has returned)
	WireThenGate(String),
}

#[derive(Default)]
pub struct Gate {
	open: Mutex<std::collections::HashSet<String>>,
	notify: Notify,
}

impl Gate {
	pub fn open(&self, name: &str) {
		self.open.lock().insert(name.to_string());
		self.notify.notify_waiters();
	}
	pub fn open_all(&self) {
		self.open.lock().insert("*".into());
		self.notify.notify_waiters();
	}
	pub async fn wait(&self, name: &str) {
		loop {
			let n = self.notify.notified();
			tokio::pin!(n);
			n.as_mut().enable();
			{
				let g = self.open.lock();
				if g.contains(name) || g.contains("*") {
					return;
				}
			}
			n.await;
		}
	}
}

pub struct Shared {
	/// every message handed to the transport sender, in order
	pub wire: Mutex<Vec<String>>,
	pub send_plans: Mutex<VecDeque<SendPlan>>,
	pub default_send_yields: Mutex<u8>,
	pub gates: Gate,
	/// Some(gate name): close() waits on that gate
	pub close_gate: Mutex<Option<String>>,
	pub close_calls: Mutex<u32>,
	pub events: Mutex<Vec<String>>,
	/// Some(text): the next WebSocket ping the client writes fails with this text
	pub ping_fail: Mutex<Option<String>>,
	pub pings: Mutex<u32>,
	/// every ordinary write takes this long on the (paused) clock: a transport with a finite rate
	pub send_cost_ms: Mutex<u64>,
	/// Some(channel to the client): every call written is answered at once with its own method name as the result
	pub auto_answer: Mutex<Option<mpsc::UnboundedSender<Incoming>>>,
}

pub struct MockSender {
	shared: Arc<Shared>,
}

pub struct MockReceiver {
	rx: mpsc::UnboundedReceiver<Incoming>,
	shared: Arc<Shared>,
}

impl TransportSenderT for MockSender {
	type Error = MockErr;

	fn send(&mut self, msg: String) -> impl Future<Output = Result<(), Self::Error>> + Send {
		let shared = self.shared.clone();
		async move {
			let plan = shared.send_plans.lock().pop_front().unwrap_or(SendPlan::Ok(*shared.default_send_yields.lock()));
			match plan {
				SendPlan::Ok(n) => {
					for _ in 0..n {
						tokio::task::yield_now().await;
					}
					let cost = *shared.send_cost_ms.lock();
					if cost > 0 {
						tokio::time::sleep(std::time::Duration::from_millis(cost)).await;
					}
					let echo = shared.auto_answer.lock().clone();
					if let Some(tx) = echo {
						if let Ok(v) = serde_json::from_str::<Value>(&msg) {
							let answer = |v: &Value| (!v["id"].is_null() && v["method"].is_string()).then(|| serde_json::json!({"jsonrpc":"2.0","id":v["id"],"result":v["method"]}));
							match &v {
								// a batch is answered by one array, last entry first
								Value::Array(entries) => {
									let mut a: Vec<Value> = entries.iter().filter_map(answer).collect();
									a.reverse();
									if !a.is_empty() {
										let _ = tx.send(Incoming::Text(Value::Array(a).to_string()));
									}
								}
								single => {
									if let Some(a) = answer(single) {
										let _ = tx.send(Incoming::Text(a.to_string()));
									}
								}
							}
						}
					}
					shared.wire.lock().push(msg);
					Ok(())
				}
				SendPlan::Fail(text, n) => {
					for _ in 0..n {
						tokio::task::yield_now().await;
					}
					shared.events.lock().push(format!("send failed: {text}"));
					Err(MockErr(text))
				}
				SendPlan::Gate(g) => {
					shared.gates.wait(&g).await;
					shared.wire.lock().push(msg);
					Ok(())
				}
				SendPlan::WireThenGate(g) => {
					shared.wire.lock().push(msg);
					shared.gates.wait(&g).await;
					Ok(())
				}
				SendPlan::GateThenFail(g, text) => {
					shared.gates.wait(&g).await;
					shared.events.lock().push(format!("send failed: {text}"));
					Err(MockErr(text))
				}
			}
		}
	}

	fn send_ping(&mut self) -> impl Future<Output = Result<(), Self::Error>> + Send {
		let shared = self.shared.clone();
		async move {
			*shared.pings.lock() += 1;
			match shared.ping_fail.lock().take() {
				Some(text) => {
					shared.events.lock().push(format!("ping failed: {text}"));
					Err(MockErr(text))
				}
				None => Ok(()),
			}
		}
	}

	fn close(&mut self) -> impl Future<Output = Result<(), Self::Error>> + Send {
		let shared = self.shared.clone();
		async move {
			*shared.close_calls.lock() += 1;
			shared.events.lock().push("close called".into());
			let g = shared.close_gate.lock().clone();
			if let Some(g) = g {
				shared.gates.wait(&g).await;
			}
			shared.events.lock().push("close returned".into());
			Ok(())
		}
	}
}

impl TransportReceiverT for MockReceiver {
	type Error = MockErr;

	fn receive(&mut self) -> impl Future<Output = Result<ReceivedMessage, Self::Error>> + Send {
		async move {
			match self.rx.recv().await {
				Some(Incoming::Held(t, gate)) => {
					self.shared.gates.wait(&gate).await;
					Ok(ReceivedMessage::Text(t))
				}
				Some(Incoming::Text(t)) => Ok(ReceivedMessage::Text(t)),
				Some(Incoming::Bytes(b)) => Ok(ReceivedMessage::Bytes(b)),
				Some(Incoming::Err(e)) => {
					self.shared.events.lock().push(format!("receive failed: {e}"));
					Err(MockErr(e))
				}
				None => {
					// the harness dropped its end: behave as a peer that went away
					Err(MockErr("mock peer gone".into()))
				}
			}
		}
	}
}

/// the request timeout every mock client is configured with (real time: never reached within a case)
pub const REQUEST_TIMEOUT: std::time::Duration = std::time::Duration::from_secs(77);

pub struct MockClient {
	pub client: Arc<Client>,
	pub shared: Arc<Shared>,
	pub to_client: mpsc::UnboundedSender<Incoming>,
	/// how many wire messages the harness has already looked at
	pub wire_seen: usize,
}

#[derive(Clone, Copy, Debug, serde::Serialize, serde::Deserialize, PartialEq)]
pub enum IdK {
	Number,
	String,
}

pub struct ClientCfg {
	pub id_kind: IdK,
	pub max_concurrent_requests: usize,
	pub sub_buffer: usize,
	/// WebSocket pings every 100 s of the paused clock, the inactivity timer ticks every 50 s of it; the client
	/// measures inactivity itself with the real clock, against which 50 s are out of reach
	pub ping: bool,
	/// finish the builder with `.set_rpc_middleware(RpcServiceBuilder::new())` (an identity middleware): every option
	/// set before it must survive
	pub mw_last: bool,
	/// build through `WsClientBuilder::build_with_transport` (the WebSocket client crate's own builder) instead of
	/// the core `ClientBuilder`
	pub ws_builder: bool,
}

impl Default for ClientCfg {
	fn default() -> Self {
		ClientCfg { id_kind: IdK::Number, max_concurrent_requests: 256, sub_buffer: 1024, ping: false, mw_last: false, ws_builder: false }
	}
}

impl MockClient {
	/// must be called inside a tokio runtime
	pub fn new(cfg: ClientCfg) -> MockClient {
		let shared = Arc::new(Shared {
			wire: Mutex::new(vec![]),
			send_plans: Mutex::new(VecDeque::new()),
			default_send_yields: Mutex::new(0),
			gates: Gate::default(),
			close_gate: Mutex::new(None),
			close_calls: Mutex::new(0),
			events: Mutex::new(vec![]),
			ping_fail: Mutex::new(None),
			pings: Mutex::new(0),
			send_cost_ms: Mutex::new(0),
			auto_answer: Mutex::new(None),
		});
		let (tx, rx) = mpsc::unbounded_channel();
		let sender = MockSender { shared: shared.clone() };
		let receiver = MockReceiver { rx, shared: shared.clone() };
		let id_kind = match cfg.id_kind {
			IdK::Number => IdKind::Number,
			IdK::String => IdKind::String,
		};
		let ping_cfg = jsonrpsee_core::client::async_client::PingConfig::new().ping_interval(std::time::Duration::from_secs(100)).inactive_limit(std::time::Duration::from_secs(50)).max_failures(1000);
		// the builders' setters are applied in an order drawn from the configuration: none may reset another
		fn permute<T>(v: &mut Vec<T>, mut x: u64) {
			for i in (1..v.len()).rev() {
				x = x.wrapping_mul(6364136223846793005).wrapping_add(1442695040888963407);
				let j = (x >> 33) as usize % (i + 1);
				v.swap(i, j);
			}
		}
		let seed = 0x51_7cc1_b727_220a_95u64 ^ (cfg.sub_buffer as u64) ^ ((cfg.max_concurrent_requests as u64) << 11) ^ ((cfg.ping as u64) << 21) ^ ((cfg.mw_last as u64) << 23) ^ (((cfg.id_kind == IdK::String) as u64) << 25);
		let (mcr, sbuf) = (cfg.max_concurrent_requests, cfg.sub_buffer.max(1));
		let client = if cfg.ws_builder {
			type WB = jsonrpsee_ws_client::WsClientBuilder;
			let mut setters: Vec<Box<dyn FnOnce(WB) -> WB>> = vec![Box::new(move |b: WB| b.id_format(id_kind)), Box::new(move |b: WB| b.max_concurrent_requests(mcr)), Box::new(move |b: WB| b.max_buffer_capacity_per_subscription(sbuf)), Box::new(move |b: WB| b.request_timeout(REQUEST_TIMEOUT)), Box::new(move |b: WB| b.connection_timeout(std::time::Duration::from_secs(33)))];
			if cfg.ping {
				setters.push(Box::new(move |b: WB| b.enable_ws_ping(ping_cfg)));
			}
			permute(&mut setters, seed);
			let mut builder = jsonrpsee_ws_client::WsClientBuilder::new();
			for s in setters {
				builder = s(builder);
			}
			if cfg.mw_last { builder.set_rpc_middleware(jsonrpsee_core::middleware::RpcServiceBuilder::new().rpc_logger(1024)).build_with_transport(sender, receiver) } else { builder.build_with_transport(sender, receiver) }
		} else {
			type CB = ClientBuilder;
			let mut setters: Vec<Box<dyn FnOnce(CB) -> CB>> = vec![Box::new(move |b: CB| b.id_format(id_kind)), Box::new(move |b: CB| b.max_concurrent_requests(mcr)), Box::new(move |b: CB| b.max_buffer_capacity_per_subscription(sbuf)), Box::new(move |b: CB| b.request_timeout(REQUEST_TIMEOUT))];
			if cfg.ping {
				setters.push(Box::new(move |b: CB| b.enable_ws_ping(ping_cfg)));
			}
			permute(&mut setters, seed);
			let mut builder = ClientBuilder::default();
			for s in setters {
				builder = s(builder);
			}
			if cfg.mw_last { builder.set_rpc_middleware(jsonrpsee_core::middleware::RpcServiceBuilder::new().rpc_logger(1024)).build_with_tokio(sender, receiver) } else { builder.build_with_tokio(sender, receiver) }
		};
		MockClient { client: Arc::new(client), shared, to_client: tx, wire_seen: 0 }
	}

	pub fn push_text(&self, s: impl Into<String>) {
		let _ = self.to_client.send(Incoming::Text(s.into()));
	}
	pub fn push_text_held(&self, s: impl Into<String>, gate: &str) {
		let _ = self.to_client.send(Incoming::Held(s.into(), gate.to_string()));
	}
	pub fn push_bytes(&self, b: Vec<u8>) {
		let _ = self.to_client.send(Incoming::Bytes(b));
	}
	pub fn push_err(&self, e: impl Into<String>) {
		let _ = self.to_client.send(Incoming::Err(e.into()));
	}

	/// new messages on the wire since the last call, parsed
	pub fn new_wire(&mut self) -> Vec<Value> {
		let w = self.shared.wire.lock();
		let out: Vec<Value> = w[self.wire_seen..].iter().map(|s| serde_json::from_str(s).unwrap_or(Value::String(format!("<<not json: {s}>>")))).collect();
		self.wire_seen = w.len();
		out
	}

	pub fn wire_all(&self) -> Vec<Value> {
		self.shared.wire.lock().iter().map(|s| serde_json::from_str(s).unwrap_or(Value::Null)).collect()
	}
}

/// the id a front-end operation put on the wire, found by its (unique) method name
pub fn wire_id_of(wire: &[Value], method: &str) -> Option<Value> {
	for m in wire {
		match m {
			Value::Object(o) if o.get("method").and_then(|x| x.as_str()) == Some(method) => return o.get("id").cloned(),
			Value::Array(a) => {
				for e in a {
					if e.get("method").and_then(|x| x.as_str()) == Some(method) {
						return e.get("id").cloned();
					}
				}
			}
			_ => {}
		}
	}
	None
}
