//! S-mem: the real jsonrpsee `TowerService` hosted in memory (direct `call` for HTTP; served over a
//! `tokio::io::duplex` with a raw soketto peer for WebSocket), handler actors, invocation log, gates.

use bytes::Bytes;
use http_body_util::BodyExt;
use jsonrpsee_core::server::{
	IntoSubscriptionCloseResponse, PendingSubscriptionSink, RpcModule, SubscriptionCloseResponse, SubscriptionMessage, SubscriptionSink,
};
use jsonrpsee_core::traits::IdProvider;
use jsonrpsee_server::{BatchRequestConfig, ConnectionGuard, Methods, ServerConfig, ServerHandle, StopHandle, TowerServiceBuilder, stop_channel};
use jsonrpsee_types::{ErrorObject, ErrorObjectOwned, Params, SubscriptionId};
use parking_lot::Mutex;
use serde::{Deserialize, Serialize};
use serde_json::{Value, json};
use std::collections::HashMap;
use std::convert::Infallible;
use std::sync::Arc;
use std::sync::atomic::{AtomicU64, Ordering};
use std::time::Duration;
use tokio::sync::{Notify, mpsc, oneshot};
use tokio_util::compat::{Compat, TokioAsyncReadCompatExt};
use tower::Service;
use tower::layer::util::Identity;

// ------------------------------------------------------------------------------------------------
// runtime helpers
// ------------------------------------------------------------------------------------------------

/// current-thread runtime with a paused clock: `settle()` is a deterministic run-until-idle barrier.
pub fn rt() -> tokio::runtime::Runtime {
	// no I/O driver: everything in memory (duplex, channels); avoids holding an epoll fd per case
	tokio::runtime::Builder::new_current_thread().enable_time().start_paused(true).build().expect("runtime")
}

/// Run until every other task is idle (the paused clock only advances when nothing is runnable and no
/// blocking task is running).
pub async fn settle() {
	tokio::time::sleep(Duration::from_secs(3600)).await;
}

// ------------------------------------------------------------------------------------------------
// configuration
// ------------------------------------------------------------------------------------------------

#[derive(Clone, Copy, Debug, Serialize, Deserialize, PartialEq)]
pub enum BatchCfg {
	Disabled,
	Limit(u32),
	Unlimited,
}

#[derive(Clone, Debug, Serialize, Deserialize)]
pub struct Cfg {
	pub max_request: u32,
	pub max_response: u32,
	pub max_connections: u32,
	pub max_subs: u32,
	pub batch: BatchCfg,
	pub buffer_capacity: u32,
	/// 0 = both, 1 = http only, 2 = ws only
	pub mode: u8,
	/// WebSocket ping: (interval, inactive limit) in seconds of the (paused) clock
	#[serde(default)]
	pub ping: Option<(u64, u64)>,
	/// WebSocket ping with a real-time inactivity limit: (ping interval in seconds of the paused clock, inactivity
	/// limit in milliseconds of the REAL clock - the server measures it with std::time::Instant -, max_failures)
	#[serde(default)]
	pub ping_fine: Option<(u64, u64, usize)>,
	/// which public entry point `http_post_e` / `ws_e` go through: 0 = the TowerService, 1 = the low-level
	/// `http::call_with_service_builder` / `ws::connect`
	#[serde(default)]
	pub entry: u8,
	/// build every per-connection service through `TowerServiceBuilder::set_http_middleware` (identity middleware)
	#[serde(default)]
	pub via_set_http_middleware: bool,
	/// the connection limit is set with `TowerServiceBuilder::max_connections` on the service builder, while the
	/// `ServerConfig` it was made from keeps another value (50)
	#[serde(default)]
	pub limit_via_service_builder: bool,
	/// string subscription ids contain characters that must be escaped in JSON
	#[serde(default)]
	pub id_escapes: bool,
	/// likewise through `TowerServiceBuilder::set_rpc_middleware` (identity middleware) on the per-connection clone
	#[serde(default)]
	pub via_set_rpc_middleware: bool,
}

impl Default for Cfg {
	fn default() -> Self {
		Cfg { max_request: 10 * 1024 * 1024, max_response: 10 * 1024 * 1024, max_connections: 100, max_subs: 1024, batch: BatchCfg::Unlimited, buffer_capacity: 1024, mode: 0, ping: None, ping_fine: None, entry: 0, via_set_http_middleware: false, limit_via_service_builder: false, id_escapes: false, via_set_rpc_middleware: false }
	}
}

/// Subscription ids: a counter, unless the history has queued an id to hand out next (an id provider is free to
/// give an id again once the subscription that had it is over, or on another connection)
#[derive(Debug)]
pub struct CounterIds(pub AtomicU64, pub bool, pub Arc<Mutex<std::collections::VecDeque<Value>>>, pub bool);
impl IdProvider for CounterIds {
	fn next_id(&self) -> SubscriptionId<'static> {
		if let Some(v) = self.2.lock().pop_front() {
			match v {
				Value::String(s) => return SubscriptionId::Str(s.into()),
				Value::Number(n) if n.is_u64() => return SubscriptionId::Num(n.as_u64().unwrap()),
				_ => {}
			}
		}
		let n = self.0.fetch_add(1, Ordering::SeqCst);
		match (self.1, self.3) {
			// (string ids that need escaping in JSON: quote, backslash, slash, a control character, non-ASCII)
			(true, true) => SubscriptionId::Str(format!("s\"{n}\\/\u{1}\u{e9}").into()),
			// (every other plain string id consists of digits only: a string all the same, "1001" is not 1001)
			(true, false) if n % 2 == 1 => SubscriptionId::Str(format!("{}", 1000 + n).into()),
			(true, false) => SubscriptionId::Str(format!("sub-{n}").into()),
			_ => SubscriptionId::Num(n),
		}
	}
}

// ------------------------------------------------------------------------------------------------
// handler context: invocation log, gates, actors
// ------------------------------------------------------------------------------------------------

#[derive(Clone, Debug, PartialEq, Serialize)]
pub struct Invocation {
	pub name: String,
	pub params: Option<String>,
	pub phase: &'static str,
}

#[derive(Default)]
pub struct Gates {
	open: Mutex<HashMap<String, bool>>,
	notify: Notify,
	cv: std::sync::Condvar,
	cv_m: std::sync::Mutex<()>,
}

impl Gates {
	pub fn release(&self, token: &str) {
		self.open.lock().insert(token.to_string(), true);
		self.notify.notify_waiters();
		let _g = self.cv_m.lock().unwrap();
		self.cv.notify_all();
	}
	pub fn release_all(&self) {
		self.open.lock().insert("*".into(), true);
		self.notify.notify_waiters();
		let _g = self.cv_m.lock().unwrap();
		self.cv.notify_all();
	}
	fn is_open(&self, token: &str) -> bool {
		let g = self.open.lock();
		g.get(token).copied().unwrap_or(false) || g.get("*").copied().unwrap_or(false)
	}
	pub async fn wait_async(&self, token: &str) {
		loop {
			let n = self.notify.notified();
			tokio::pin!(n);
			n.as_mut().enable();
			if self.is_open(token) {
				return;
			}
			n.await;
		}
	}
	pub fn wait_blocking(&self, token: &str) {
		let mut g = self.cv_m.lock().unwrap();
		while !self.is_open(token) {
			let (g2, _) = self.cv.wait_timeout(g, Duration::from_millis(50)).unwrap();
			g = g2;
		}
	}
}

/// Commands interpreted by a subscription handler actor.
#[derive(Clone, Debug, Serialize, Deserialize, PartialEq)]
pub enum Cmd {
	Accept,
	Reject(i32),
	DropPending,
	Send(u32),
	TrySend(u32),
	/// `send_timeout` with one second of patience; a message handed back on time-out is sent again with `send`
	/// (the documented way to go on after a time-out)
	SendTimeout(u32),
	CloneSink,
	DropSink(u8),
	IsClosed,
	/// poll `closed()` once
	PollClosed,
	ReturnOk,
	ReturnErr(u32),
	ReturnNotif(u32),
}

#[derive(Clone, Debug, PartialEq, Serialize)]
pub enum Ack {
	Accepted(Value),
	AcceptFailed,
	Rejected,
	Dropped,
	SendOk,
	SendErr,
	TrySendOk,
	TrySendFull,
	TrySendClosed,
	Cloned(usize),
	SinkDropped(usize),
	NoSuchSink,
	Closed(bool),
	ClosedReady(bool),
	Returned,
	WrongState,
}

pub struct ActorHandle {
	pub method: &'static str,
	pub conn_id: usize,
	pub params: Option<String>,
	pub tx: mpsc::UnboundedSender<(Cmd, oneshot::Sender<Ack>)>,
}

pub struct HCtx {
	pub log: Mutex<Vec<Invocation>>,
	pub gates: Gates,
	pub actors: Mutex<Vec<ActorHandle>>,
	pub guard_seen: Mutex<Vec<(usize, usize)>>,
	/// the subscription id each actor's pending sink carries (same index as `actors`), known before anybody accepts
	pub sub_ids: Mutex<Vec<Value>>,
}

impl HCtx {
	fn record(&self, name: &str, params: &Params, phase: &'static str) {
		self.log.lock().push(Invocation { name: name.to_string(), params: params.as_str().map(|s| s.to_string()), phase });
	}
	pub fn log_len(&self) -> usize {
		self.log.lock().len()
	}
	pub fn log_since(&self, n: usize) -> Vec<Invocation> {
		self.log.lock()[n..].to_vec()
	}
}

pub fn item_value(sub_tag: &str, n: u32) -> Value {
	json!({"item": n, "of": sub_tag})
}

enum Ret {
	Ok,
	Err(u32),
	Notif(u32),
}

impl IntoSubscriptionCloseResponse for Ret {
	fn into_response(self) -> SubscriptionCloseResponse {
		match self {
			Ret::Ok => SubscriptionCloseResponse::None,
			Ret::Err(n) => SubscriptionCloseResponse::NotifErr(format!("close-err-{n}").into()),
			Ret::Notif(n) => SubscriptionCloseResponse::Notif(SubscriptionMessage::from(serde_json::value::to_raw_value(&json!({"close": n})).unwrap())),
		}
	}
}

async fn actor(method: &'static str, params: Params<'static>, pending: PendingSubscriptionSink, ctx: Arc<HCtx>, conn_id: usize) -> Ret {
	let (tx, mut rx) = mpsc::unbounded_channel::<(Cmd, oneshot::Sender<Ack>)>();
	ctx.record(method, &params, "started");
	{
		let mut a = ctx.actors.lock();
		a.push(ActorHandle { method, conn_id, params: params.as_str().map(|s| s.to_string()), tx });
		ctx.sub_ids.lock().push(serde_json::to_value(pending.subscription_id()).unwrap_or(Value::Null));
	}
	let mut pending = Some(pending);
	let mut sinks: Vec<Option<SubscriptionSink>> = vec![];
	let tag = format!("{method}");
	while let Some((cmd, ack)) = rx.recv().await {
		let reply = match cmd {
			Cmd::Accept => match pending.take() {
				Some(p) => {
					let id = p.subscription_id();
					match p.accept().await {
						Ok(s) => {
							sinks.push(Some(s));
							Ack::Accepted(serde_json::to_value(&id).unwrap())
						}
						Err(_) => Ack::AcceptFailed,
					}
				}
				None => Ack::WrongState,
			},
			Cmd::Reject(code) => match pending.take() {
				Some(p) => {
					p.reject(ErrorObject::owned(code, "rejected by actor", None::<()>)).await;
					Ack::Rejected
				}
				None => Ack::WrongState,
			},
			Cmd::DropPending => match pending.take() {
				Some(p) => {
					drop(p);
					Ack::Dropped
				}
				None => Ack::WrongState,
			},
			Cmd::Send(n) => match sinks.iter().flatten().next() {
				Some(s) => {
					let raw = serde_json::value::to_raw_value(&item_value(&tag, n)).unwrap();
					match s.send(raw).await {
						Ok(()) => Ack::SendOk,
						Err(_) => Ack::SendErr,
					}
				}
				None => Ack::WrongState,
			},
			Cmd::SendTimeout(n) => match sinks.iter().flatten().next() {
				Some(s) => {
					let raw = serde_json::value::to_raw_value(&item_value(&tag, n)).unwrap();
					match s.send_timeout(raw, Duration::from_secs(1)).await {
						Ok(()) => Ack::SendOk,
						Err(jsonrpsee_core::server::SendTimeoutError::Closed(_)) => Ack::SendErr,
						Err(jsonrpsee_core::server::SendTimeoutError::Timeout(m)) => match s.send(m).await {
							Ok(()) => Ack::SendOk,
							Err(_) => Ack::SendErr,
						},
					}
				}
				None => Ack::WrongState,
			},
			Cmd::TrySend(n) => match sinks.iter_mut().flatten().next() {
				Some(s) => {
					let raw = serde_json::value::to_raw_value(&item_value(&tag, n)).unwrap();
					match s.try_send(raw) {
						Ok(()) => Ack::TrySendOk,
						Err(jsonrpsee_core::server::TrySendError::Full(_)) => Ack::TrySendFull,
						Err(jsonrpsee_core::server::TrySendError::Closed(_)) => Ack::TrySendClosed,
					}
				}
				None => Ack::WrongState,
			},
			Cmd::CloneSink => match sinks.iter().flatten().next().cloned() {
				Some(s) => {
					sinks.push(Some(s));
					Ack::Cloned(sinks.len() - 1)
				}
				None => Ack::WrongState,
			},
			Cmd::DropSink(i) => {
				let live: Vec<usize> = sinks.iter().enumerate().filter(|(_, s)| s.is_some()).map(|(i, _)| i).collect();
				if live.is_empty() {
					Ack::NoSuchSink
				} else {
					let idx = live[(i as usize) % live.len()];
					sinks[idx] = None;
					Ack::SinkDropped(idx)
				}
			}
			Cmd::IsClosed => match sinks.iter().flatten().next() {
				Some(s) => Ack::Closed(s.is_closed()),
				None => Ack::WrongState,
			},
			Cmd::PollClosed => match sinks.iter().flatten().next() {
				Some(s) => {
					let f = s.closed();
					tokio::pin!(f);
					Ack::ClosedReady(futures_util::poll!(f).is_ready())
				}
				None => Ack::WrongState,
			},
			Cmd::ReturnOk | Cmd::ReturnErr(_) | Cmd::ReturnNotif(_) => {
				let _ = ack.send(Ack::Returned);
				ctx.record(method, &params, "finished");
				drop(sinks);
				drop(pending);
				return match cmd {
					Cmd::ReturnOk => Ret::Ok,
					Cmd::ReturnErr(n) => Ret::Err(n),
					Cmd::ReturnNotif(n) => Ret::Notif(n),
					_ => unreachable!(),
				};
			}
		};
		let _ = ack.send(reply);
	}
	// harness gone
	Ret::Ok
}

fn fail_from(params: &Params) -> Result<Value, ErrorObjectOwned> {
	let (code, msg, data): (i32, String, Option<Value>) = {
		let mut seq = params.sequence();
		(seq.next()?, seq.next()?, seq.optional_next()?)
	};
	Err(ErrorObject::owned(code, msg, data))
}

pub fn big_string(len: usize, kind: u8) -> String {
	let unit = match kind % 6 {
		0 => "a",
		1 => "\"",
		2 => "é",
		3 => "\n",
		4 => "😀",
		_ => "\\",
	};
	unit.repeat(len)
}

/// params: [len, kind] or [len, kind, prefix]: `prefix` times 'a', then `len` times the unit of `kind`
fn big_from(params: &Params) -> Result<String, ErrorObjectOwned> {
	let mut seq = params.sequence();
	let len: usize = seq.next()?;
	let kind: u8 = seq.next()?;
	let prefix: Option<usize> = seq.optional_next()?;
	if len > 4_000_000 || prefix.unwrap_or(0) > 4_000_000 {
		return Err(ErrorObject::owned(-32602, "too long", None::<()>));
	}
	let mut s = "a".repeat(prefix.unwrap_or(0));
	s.push_str(&big_string(len, kind));
	Ok(s)
}

fn typed_from(params: &Params) -> Result<Value, ErrorObjectOwned> {
	let (n, s): (u64, String) = params.parse()?;
	Ok(json!({"n": n, "s": s}))
}

pub const KINDS: [&str; 3] = ["sync", "async", "blocking"];

pub fn build_module(ctx: Arc<HCtx>) -> RpcModule<HCtx> {
	let mut m = RpcModule::from_arc(ctx);
	// --- sync
	m.register_method("echo_sync", |p, c, _| {
		c.record("echo_sync", &p, "run");
		p.parse::<Value>()
	})
	.unwrap();
	m.register_method("typed_sync", |p, c, _| {
		c.record("typed_sync", &p, "run");
		typed_from(&p)
	})
	.unwrap();
	m.register_method("fail_sync", |p, c, _| {
		c.record("fail_sync", &p, "run");
		fail_from(&p)
	})
	.unwrap();
	m.register_method("big_sync", |p, c, _| {
		c.record("big_sync", &p, "run");
		big_from(&p)
	})
	.unwrap();
	// --- async
	m.register_async_method("echo_async", |p, c, _| async move {
		c.record("echo_async", &p, "run");
		tokio::task::yield_now().await;
		p.parse::<Value>()
	})
	.unwrap();
	m.register_async_method("typed_async", |p, c, _| async move {
		c.record("typed_async", &p, "run");
		typed_from(&p)
	})
	.unwrap();
	m.register_async_method("fail_async", |p, c, _| async move {
		c.record("fail_async", &p, "run");
		tokio::task::yield_now().await;
		fail_from(&p)
	})
	.unwrap();
	m.register_async_method("big_async", |p, c, _| async move {
		c.record("big_async", &p, "run");
		big_from(&p)
	})
	.unwrap();
	m.register_async_method("gated_async", |p, c, ext| async move {
		c.record("gated_async", &p, "started");
		if let Some(g) = ext.get::<ConnectionGuard>() {
			c.guard_seen.lock().push((g.max_connections(), g.available_connections()));
		}
		let token: String = p.one().unwrap_or_else(|_| "default".to_string());
		c.gates.wait_async(&token).await;
		c.record("gated_async", &p, "finished");
		Ok::<_, ErrorObjectOwned>(json!({"released": token}))
	})
	.unwrap();
	// --- blocking
	m.register_blocking_method("echo_blocking", |p, c, _| {
		c.record("echo_blocking", &p, "run");
		p.parse::<Value>()
	})
	.unwrap();
	m.register_blocking_method("typed_blocking", |p, c, _| {
		c.record("typed_blocking", &p, "run");
		typed_from(&p)
	})
	.unwrap();
	m.register_blocking_method("fail_blocking", |p, c, _| {
		c.record("fail_blocking", &p, "run");
		fail_from(&p)
	})
	.unwrap();
	m.register_blocking_method("big_blocking", |p, c, _| {
		c.record("big_blocking", &p, "run");
		big_from(&p)
	})
	.unwrap();
	m.register_blocking_method("gated_blocking", |p, c, ext| {
		c.record("gated_blocking", &p, "started");
		if let Some(g) = ext.get::<ConnectionGuard>() {
			c.guard_seen.lock().push((g.max_connections(), g.available_connections()));
		}
		let token: String = p.one().unwrap_or_else(|_| "default".to_string());
		c.gates.wait_blocking(&token);
		c.record("gated_blocking", &p, "finished");
		Ok::<_, ErrorObjectOwned>(json!({"released": token}))
	})
	.unwrap();
	m.register_blocking_method("blocking_panic", |p, c, _| -> Result<Value, ErrorObjectOwned> {
		c.record("blocking_panic", &p, "run");
		panic!("blocking_panic handler panics on purpose")
	})
	.unwrap();
	m.register_method("guard_probe", |p, c, ext| {
		c.record("guard_probe", &p, "run");
		match ext.get::<ConnectionGuard>() {
			Some(g) => json!({"max": g.max_connections(), "available": g.available_connections()}),
			None => json!(null),
		}
	})
	.unwrap();
	// --- handlers that answer from what the transport attached to the request (`Extensions`): the connection id the
	// server inserts, or - on the low-level entry points, where the caller owns the request - the harness's own mark
	fn ext_answer(ext: &jsonrpsee_server::Extensions) -> Value {
		json!({"ext": ext.get::<jsonrpsee_core::server::ConnectionId>().is_some() || ext.get::<HarnessMark>().is_some()})
	}
	m.register_method("ext_sync", |p, c, ext| {
		c.record("ext_sync", &p, "run");
		ext_answer(ext)
	})
	.unwrap();
	m.register_async_method("ext_async", |p, c, ext| async move {
		c.record("ext_async", &p, "run");
		ext_answer(&ext)
	})
	.unwrap();
	m.register_blocking_method("ext_blocking", |p, c, ext| {
		c.record("ext_blocking", &p, "run");
		ext_answer(&ext)
	})
	.unwrap();
	// (not part of the judged method set: tells which connection id the transport gave the request)
	m.register_method("conn_id", |_, _, ext| ext.get::<jsonrpsee_core::server::ConnectionId>().map(|c| c.0)).unwrap();
	// --- handlers whose (successful) result cannot be serialised: [k] = how many good elements come first
	m.register_method("unser_sync", |p, c, _| {
		c.record("unser_sync", &p, "run");
		Ok::<_, ErrorObjectOwned>(Unser(p.parse::<Vec<u8>>().ok().and_then(|v| v.first().copied()).unwrap_or(0)))
	})
	.unwrap();
	m.register_async_method("unser_async", |p, c, _| async move {
		c.record("unser_async", &p, "run");
		Ok::<_, ErrorObjectOwned>(Unser(p.parse::<Vec<u8>>().ok().and_then(|v| v.first().copied()).unwrap_or(0)))
	})
	.unwrap();
	m.register_blocking_method("unser_blocking", |p, c, _| {
		c.record("unser_blocking", &p, "run");
		Ok::<_, ErrorObjectOwned>(Unser(p.parse::<Vec<u8>>().ok().and_then(|v| v.first().copied()).unwrap_or(0)))
	})
	.unwrap();
	// --- subscriptions (actor handlers)
	m.register_subscription("sub_a", "notif_a", "unsub_a", |p, pending, c, ext| {
		let conn = ext.get::<jsonrpsee_core::server::ConnectionId>().map(|c| c.0).unwrap_or(usize::MAX);
		actor("sub_a", p, pending, c, conn)
	})
	.unwrap();
	m.register_subscription("sub_b", "notif_b", "unsub_b", |p, pending, c, ext| {
		let conn = ext.get::<jsonrpsee_core::server::ConnectionId>().map(|c| c.0).unwrap_or(usize::MAX);
		actor("sub_b", p, pending, c, conn)
	})
	.unwrap();
	// a raw subscription: the handler is its own task and survives the subscribe call being given up
	m.register_subscription_raw("sub_r", "notif_r", "unsub_r", |p, pending, c, ext| {
		let conn = ext.get::<jsonrpsee_core::server::ConnectionId>().map(|c| c.0).unwrap_or(usize::MAX);
		let p = p.into_owned();
		tokio::spawn(async move {
			let _ = actor("sub_r", p, pending, c, conn).await;
		});
	})
	.unwrap();
	m
}

/// what the harness attaches to the requests it hands to the low-level entry points itself
#[derive(Clone, Debug)]
pub struct HarnessMark;

/// A value whose serialisation fails after `self.0 % 4` elements of a sequence have been written
#[derive(Clone, Debug)]
pub struct Unser(pub u8);

impl Serialize for Unser {
	fn serialize<S: serde::Serializer>(&self, ser: S) -> Result<S::Ok, S::Error> {
		use serde::ser::SerializeSeq;
		let mut seq = ser.serialize_seq(None)?;
		for k in 0..(self.0 % 4) {
			seq.serialize_element(&k)?;
		}
		Err(serde::ser::Error::custom("this value cannot be serialised"))
	}
}

pub fn is_registered_call(name: &str) -> bool {
	matches!(
		name,
		"unser_sync" | "unser_async" | "unser_blocking" | "ext_sync" | "ext_async" | "ext_blocking" |
		"echo_sync" | "typed_sync" | "fail_sync" | "big_sync" | "echo_async" | "typed_async" | "fail_async" | "big_async" | "gated_async"
			| "echo_blocking" | "typed_blocking" | "fail_blocking" | "big_blocking" | "gated_blocking" | "blocking_panic" | "guard_probe"
	)
}

// ------------------------------------------------------------------------------------------------
// the server fixture
// ------------------------------------------------------------------------------------------------

pub struct Fixture {
	pub ctx: Arc<HCtx>,
	pub methods: Methods,
	pub builder: TowerServiceBuilder<Identity, Identity>,
	pub stop: StopHandle,
	pub handle: ServerHandle,
	pub cfg: Cfg,
	pub server_cfg: ServerConfig,
	pub lowlevel_conn_ids: AtomicU64,
	/// ids the id provider hands out next (front first) instead of counting
	pub forced_ids: Arc<Mutex<std::collections::VecDeque<Value>>>,
	/// the connection guard shared by every session opened through `ws_lowlevel` (limit = `cfg.max_connections`)
	pub lowlevel_guard: ConnectionGuard,
	/// the tasks driving the connection futures `ws::connect` returned, in the order the sessions were opened;
	/// aborting one is "dropping the connection future", the documented way to close a session from the server side
	pub lowlevel_conn_tasks: Arc<Mutex<Vec<tokio::task::JoinHandle<()>>>>,
}

pub type Svc = jsonrpsee_server::TowerService<Identity, Identity>;

pub fn server_config(cfg: &Cfg, string_ids: bool) -> ServerConfig {
	server_config_with_ids(cfg, string_ids, Default::default())
}

pub fn server_config_with_ids(cfg: &Cfg, string_ids: bool, forced: Arc<Mutex<std::collections::VecDeque<Value>>>) -> ServerConfig {
	type B = jsonrpsee_server::ServerConfigBuilder;
	// every setter of the builder is independent of the others: they are applied in an order that depends on the
	// configuration itself (a permutation of the list below), so no setter may reset what another one has set
	let mut setters: Vec<Box<dyn FnOnce(B) -> B>> = vec![];
	let (max_request, max_response, max_connections, max_subs, buf) = (cfg.max_request, cfg.max_response, cfg.max_connections, cfg.max_subs, cfg.buffer_capacity.max(1));
	setters.push(Box::new(move |b: B| b.max_request_body_size(max_request)));
	setters.push(Box::new(move |b: B| b.max_response_body_size(max_response)));
	setters.push(Box::new(move |b: B| b.max_connections(max_connections)));
	setters.push(Box::new(move |b: B| b.max_subscriptions_per_connection(max_subs)));
	setters.push(Box::new(move |b: B| b.set_message_buffer_capacity(buf)));
	let ids = CounterIds(AtomicU64::new(1000), string_ids, forced, cfg.id_escapes);
	setters.push(Box::new(move |b: B| b.set_id_provider(ids)));
	let batch = match cfg.batch {
		BatchCfg::Disabled => BatchRequestConfig::Disabled,
		BatchCfg::Limit(n) => BatchRequestConfig::Limit(n),
		BatchCfg::Unlimited => BatchRequestConfig::Unlimited,
	};
	setters.push(Box::new(move |b: B| b.set_batch_request_config(batch)));
	if let Some((interval, inactive)) = cfg.ping {
		setters.push(Box::new(move |b: B| b.enable_ws_ping(jsonrpsee_server::PingConfig::new().ping_interval(Duration::from_secs(interval)).inactive_limit(Duration::from_secs(inactive)).max_failures(1))));
	}
	if let Some((interval, inactive_ms, max_failures)) = cfg.ping_fine {
		setters.push(Box::new(move |b: B| b.enable_ws_ping(jsonrpsee_server::PingConfig::new().ping_interval(Duration::from_secs(interval)).inactive_limit(Duration::from_millis(inactive_ms)).max_failures(max_failures))));
	}
	match cfg.mode {
		1 => setters.push(Box::new(|b: B| b.http_only())),
		2 => setters.push(Box::new(|b: B| b.ws_only())),
		_ => {}
	}
	// (a permutation drawn from the configuration's own values)
	let mut x: u64 = 0x9e37_79b9_7f4a_7c15 ^ (cfg.max_request as u64) ^ ((cfg.max_response as u64) << 7) ^ ((cfg.max_connections as u64) << 13) ^ ((cfg.max_subs as u64) << 19) ^ ((cfg.buffer_capacity as u64) << 23) ^ ((cfg.mode as u64) << 29) ^ ((string_ids as u64) << 31) ^ ((cfg.id_escapes as u64) << 33) ^ ((cfg.via_set_rpc_middleware as u64) << 35) ^ ((cfg.via_set_http_middleware as u64) << 37) ^ ((cfg.entry as u64) << 39);
	for i in (1..setters.len()).rev() {
		x = x.wrapping_mul(6364136223846793005).wrapping_add(1442695040888963407);
		let j = (x >> 33) as usize % (i + 1);
		setters.swap(i, j);
	}
	let mut b = ServerConfig::builder();
	for s in setters {
		b = s(b);
	}
	b.build()
}

impl Fixture {
	pub fn new(cfg: Cfg) -> Fixture {
		Self::new_with(cfg, false)
	}
	pub fn new_with(cfg: Cfg, string_ids: bool) -> Fixture {
		let ctx = Arc::new(HCtx { log: Mutex::new(vec![]), gates: Gates::default(), actors: Mutex::new(vec![]), guard_seen: Mutex::new(vec![]), sub_ids: Default::default() });
		let module = build_module(ctx.clone());
		let methods: Methods = module.into();
		let forced_ids: Arc<Mutex<std::collections::VecDeque<Value>>> = Default::default();
		// (with either per-connection middleware flag the server builder itself is also taken through
		// `set_rpc_middleware` / `set_http_middleware` after the configuration was set: the configuration must survive)
		let through_builder_setters = cfg.via_set_http_middleware || cfg.via_set_rpc_middleware;
		let base = |c: &Cfg| {
			let b = jsonrpsee_server::Server::builder().set_config(server_config_with_ids(c, string_ids, forced_ids.clone()));
			if through_builder_setters {
				b.set_rpc_middleware(jsonrpsee_server::middleware::rpc::RpcServiceBuilder::new()).set_http_middleware(tower::ServiceBuilder::new()).to_service_builder()
			} else {
				b.to_service_builder()
			}
		};
		let builder = if cfg.limit_via_service_builder {
			let other = Cfg { max_connections: 50, ..cfg.clone() };
			base(&other).max_connections(cfg.max_connections)
		} else {
			base(&cfg)
		};
		let server_cfg = server_config_with_ids(&cfg, string_ids, forced_ids.clone());
		let cfg_max = cfg.max_connections;
		let (stop, handle) = stop_channel();
		Fixture { ctx, methods, builder, stop, handle, cfg, server_cfg, lowlevel_conn_ids: AtomicU64::new(0), forced_ids, lowlevel_guard: ConnectionGuard::new(cfg_max as usize), lowlevel_conn_tasks: Default::default() }
	}

	pub fn service(&self) -> Svc {
		// the idiom of examples/jsonrpsee_as_service.rs: per-connection clone of a shared builder, middleware set on the clone
		use jsonrpsee_server::middleware::rpc::RpcServiceBuilder;
		match (self.cfg.via_set_http_middleware, self.cfg.via_set_rpc_middleware) {
			(true, true) => self.builder.clone().set_http_middleware(tower::ServiceBuilder::new()).set_rpc_middleware(RpcServiceBuilder::new()).build(self.methods.clone(), self.stop.clone()),
			(true, false) => self.builder.clone().set_http_middleware(tower::ServiceBuilder::new()).build(self.methods.clone(), self.stop.clone()),
			(false, true) => self.builder.clone().set_rpc_middleware(RpcServiceBuilder::new()).build(self.methods.clone(), self.stop.clone()),
			(false, false) => self.builder.clone().build(self.methods.clone(), self.stop.clone()),
		}
	}

	/// One HTTP request straight into the tower service, the body delivered as the given frames.
	pub async fn http(&self, req: HttpReq) -> HttpResp {
		let mut svc = self.service();
		http_call(&mut svc, req).await
	}

	pub async fn http_post(&self, body: &[u8]) -> HttpResp {
		self.http(HttpReq::post_json(body)).await
	}

	/// POST through the entry point chosen by `Cfg::entry`
	pub async fn http_post_e(&self, body: &[u8]) -> HttpResp {
		if self.cfg.entry == 1 { self.http_lowlevel(HttpReq::post_json(body)).await } else { self.http_post(body).await }
	}

	/// WebSocket session through the entry point chosen by `Cfg::entry`
	pub async fn ws_e(&self) -> Result<WsPeer, String> {
		if self.cfg.entry == 1 { self.ws_lowlevel().await } else { self.ws().await }
	}

	/// Open a WebSocket session served by the real hyper connection + upgrade path over an in-memory duplex.
	pub async fn ws(&self) -> Result<WsPeer, String> {
		self.ws_with(64 * 1024).await
	}

	pub async fn ws_with(&self, duplex_size: usize) -> Result<WsPeer, String> {
		let svc = self.service();
		let (client_io, server_io) = tokio::io::duplex(duplex_size);
		let stop = self.stop.clone();
		let conn = tokio::spawn(async move {
			let _ = jsonrpsee_server::serve_with_graceful_shutdown(server_io, svc, stop.shutdown()).await;
		});
		WsPeer::connect(client_io, conn).await
	}
}

/// WebSocket session on an explicit (builder, methods, stop handle) triple (for fixtures that must drop their own StopHandle).
pub async fn ws_on(builder: &TowerServiceBuilder<Identity, Identity>, methods: &Methods, stop: &StopHandle, duplex_size: usize) -> Result<WsPeer, String> {
	let svc = builder.clone().build(methods.clone(), stop.clone());
	let (client_io, server_io) = tokio::io::duplex(duplex_size);
	let stop = stop.clone();
	let conn = tokio::spawn(async move {
		let _ = jsonrpsee_server::serve_with_graceful_shutdown(server_io, svc, stop.shutdown()).await;
	});
	WsPeer::connect(client_io, conn).await
}

/// Raw HTTP/1.1 connection on an explicit (builder, methods, stop handle) triple.
pub fn raw_conn_on(builder: &TowerServiceBuilder<Identity, Identity>, methods: &Methods, stop: &StopHandle, duplex_size: usize) -> (tokio::io::DuplexStream, tokio::task::JoinHandle<()>) {
	let svc = builder.clone().build(methods.clone(), stop.clone());
	let (client_io, server_io) = tokio::io::duplex(duplex_size);
	let stop = stop.clone();
	let conn = tokio::spawn(async move {
		let _ = jsonrpsee_server::serve_with_graceful_shutdown(server_io, svc, stop.shutdown()).await;
	});
	(client_io, conn)
}

impl Fixture {
	/// A raw in-memory connection served by hyper (`serve_with_graceful_shutdown`): the caller writes HTTP/1.1 bytes.
	pub fn raw_conn(&self, duplex_size: usize) -> (tokio::io::DuplexStream, tokio::task::JoinHandle<()>) {
		let svc = self.service();
		let (client_io, server_io) = tokio::io::duplex(duplex_size);
		let stop = self.stop.clone();
		let conn = tokio::spawn(async move {
			let _ = jsonrpsee_server::serve_with_graceful_shutdown(server_io, svc, stop.shutdown()).await;
		});
		(client_io, conn)
	}
}

impl Fixture {
	/// `GET <path>` through a service whose HTTP middleware is `ProxyGetRequestLayer` mapping `/health` to `guard_probe`
	pub async fn http_get_via_proxy(&self, path: &str) -> HttpResp {
		self.http_via_proxy(HttpReq { method: "GET".into(), headers: vec![], frames: vec![], content_length: false, uri: path.into(), trailers: false }).await
	}

	/// a JSON POST to `path` through the same service: the proxy layer is for GET requests only, a POST is an ordinary
	/// JSON-RPC request whatever its path
	pub async fn http_post_via_proxy(&self, path: &str, body: &[u8]) -> HttpResp {
		let mut req = HttpReq::post_json(body);
		req.uri = path.into();
		self.http_via_proxy(req).await
	}

	/// any request through the service behind `ProxyGetRequestLayer` (which maps `GET /health` to `guard_probe`)
	pub async fn http_via_proxy(&self, req: HttpReq) -> HttpResp {
		use jsonrpsee_server::middleware::http::ProxyGetRequestLayer;
		use tower::Service;
		let layer = ProxyGetRequestLayer::new([("/health", "guard_probe")]).expect("valid path");
		let mut svc = self.builder.clone().set_http_middleware(tower::ServiceBuilder::new().layer(layer)).build(self.methods.clone(), self.stop.clone());
		let request = match build_request(&req) {
			Ok(r) => r,
			Err(e) => return HttpResp { status: 0, body: e.into_bytes(), content_type: None },
		};
		let resp = match svc.call(request).await {
			Ok(r) => r,
			Err(e) => return HttpResp { status: 599, body: e.to_string().into_bytes(), content_type: None },
		};
		let status = resp.status().as_u16();
		let content_type = resp.headers().get("content-type").and_then(|v| v.to_str().ok()).map(|s| s.to_string());
		let body = match resp.into_body().collect().await {
			Ok(c) => c.to_bytes().to_vec(),
			Err(e) => e.to_string().into_bytes(),
		};
		HttpResp { status, body, content_type }
	}
}

// ------------------------------------------------------------------------------------------------
// an RPC middleware that gives up on a call when told to (what a per-call deadline does)
// ------------------------------------------------------------------------------------------------

/// Calls to `sub_r` race against the gate `abandon:<request id>`: when the gate opens first the inner call future
/// is dropped and the caller gets error -32099. Everything else passes through untouched.
#[derive(Clone)]
pub struct GiveUp<S> {
	pub service: S,
	pub ctx: Arc<HCtx>,
}

impl<S> jsonrpsee_core::middleware::RpcServiceT for GiveUp<S>
where
	S: jsonrpsee_core::middleware::RpcServiceT<MethodResponse = jsonrpsee_core::server::MethodResponse> + Send + Sync + Clone + 'static,
{
	type MethodResponse = S::MethodResponse;
	type NotificationResponse = S::NotificationResponse;
	type BatchResponse = S::BatchResponse;

	fn call<'a>(&self, request: jsonrpsee_types::Request<'a>) -> impl Future<Output = Self::MethodResponse> + Send + 'a {
		let service = self.service.clone();
		let ctx = self.ctx.clone();
		async move {
			if request.method_name() != "sub_r" {
				return service.call(request).await;
			}
			let id = request.id().clone().into_owned();
			let gate = format!("abandon:{}", serde_json::to_string(&id).unwrap_or_default());
			let inner = service.call(request);
			tokio::pin!(inner);
			tokio::select! {
				biased;
				r = &mut inner => r,
				_ = ctx.gates.wait_async(&gate) => jsonrpsee_core::server::MethodResponse::error(id, jsonrpsee_types::ErrorObject::owned(-32099, "call given up by the middleware", None::<()>)),
			}
		}
	}

	fn batch<'a>(&self, requests: jsonrpsee_core::middleware::Batch<'a>) -> impl Future<Output = Self::BatchResponse> + Send + 'a {
		self.service.batch(requests)
	}

	fn notification<'a>(&self, n: jsonrpsee_core::middleware::Notification<'a>) -> impl Future<Output = Self::NotificationResponse> + Send + 'a {
		self.service.notification(n)
	}
}

impl Fixture {
	/// A WebSocket session whose service has the `GiveUp` middleware in front of the RPC service
	pub async fn ws_with_give_up_middleware(&self) -> Result<WsPeer, String> {
		use jsonrpsee_server::middleware::rpc::RpcServiceBuilder;
		let ctx = self.ctx.clone();
		let svc = self.builder.clone().set_rpc_middleware(RpcServiceBuilder::new().layer_fn(move |service| GiveUp { service, ctx: ctx.clone() })).build(self.methods.clone(), self.stop.clone());
		let (client_io, server_io) = tokio::io::duplex(64 * 1024);
		let stop = self.stop.clone();
		let conn = tokio::spawn(async move {
			let _ = jsonrpsee_server::serve_with_graceful_shutdown(server_io, svc, stop.shutdown()).await;
		});
		WsPeer::connect(client_io, conn).await
	}
}

// ------------------------------------------------------------------------------------------------
// low-level entry points: ws::connect and http::call_with_service_builder behind a tower::service_fn
// ------------------------------------------------------------------------------------------------

impl Fixture {
	/// WebSocket session through the low-level `ws::connect` API (as in examples/jsonrpsee_server_low_level_api.rs).
	pub async fn ws_lowlevel(&self) -> Result<WsPeer, String> {
		use jsonrpsee_server::middleware::rpc::RpcServiceBuilder;
		use jsonrpsee_server::{ConnectionState, ws};
		let (client_io, server_io) = tokio::io::duplex(64 * 1024);
		let stop = self.stop.clone();
		let methods = self.methods.clone();
		let server_cfg = self.server_cfg.clone();
		let guard = self.lowlevel_guard.clone();
		let tasks = self.lowlevel_conn_tasks.clone();
		let conn_id = self.lowlevel_conn_ids.fetch_add(1, Ordering::SeqCst) as u32 + 500;
		let svc = tower::service_fn(move |mut req: ::http::Request<hyper::body::Incoming>| {
			let methods = methods.clone();
			let server_cfg = server_cfg.clone();
			let stop = stop.clone();
			let guard = guard.clone();
			let tasks = tasks.clone();
			req.extensions_mut().insert(HarnessMark);
			async move {
				let Some(permit) = guard.try_acquire() else {
					return Ok::<_, Infallible>(jsonrpsee_server::http::response::too_many_requests());
				};
				let conn = ConnectionState::new(stop, conn_id, permit);
				if ws::is_upgrade_request(&req) {
					match ws::connect(req, server_cfg, methods, conn, RpcServiceBuilder::new()).await {
						Ok((rp, conn_fut)) => {
							tasks.lock().push(tokio::spawn(conn_fut));
							Ok(rp)
						}
						Err(rp) => Ok(rp),
					}
				} else {
					Ok(jsonrpsee_server::http::call_with_service_builder(req, server_cfg, conn, methods, RpcServiceBuilder::new()).await)
				}
			}
		});
		let stop2 = self.stop.clone();
		let conn = tokio::spawn(async move {
			let _ = jsonrpsee_server::serve_with_graceful_shutdown(server_io, svc, stop2.shutdown()).await;
		});
		WsPeer::connect(client_io, conn).await
	}

	/// One HTTP request through the low-level `http::call_with_service_builder` API. As in the example server every
	/// request first takes a slot of the connection guard all low-level sessions of this fixture share.
	pub async fn http_lowlevel(&self, req: HttpReq) -> HttpResp {
		self.http_lowlevel_detached(req).await
	}

	/// the same as a future that does not borrow the fixture (so that it can be left in flight)
	pub fn http_lowlevel_detached(&self, req: HttpReq) -> impl Future<Output = HttpResp> + Send + 'static {
		use jsonrpsee_server::ConnectionState;
		use jsonrpsee_server::middleware::rpc::RpcServiceBuilder;
		let (stop, server_cfg, methods, guard) = (self.stop.clone(), self.server_cfg.clone(), self.methods.clone(), self.lowlevel_guard.clone());
		async move {
			let mut request = match build_request(&req) {
				Ok(r) => r,
				Err(e) => return HttpResp { status: 0, body: e.into_bytes(), content_type: None },
			};
			request.extensions_mut().insert(HarnessMark);
			let resp = match guard.try_acquire() {
				Some(permit) => {
					let conn = ConnectionState::new(stop, 0, permit);
					jsonrpsee_server::http::call_with_service_builder(request, server_cfg, conn, methods, RpcServiceBuilder::new()).await
				}
				None => jsonrpsee_server::http::response::too_many_requests(),
			};
			let status = resp.status().as_u16();
			let content_type = resp.headers().get("content-type").and_then(|v| v.to_str().ok()).map(|s| s.to_string());
			let body = match resp.into_body().collect().await {
				Ok(c) => c.to_bytes().to_vec(),
				Err(e) => e.to_string().into_bytes(),
			};
			HttpResp { status, body, content_type }
		}
	}
}

// ------------------------------------------------------------------------------------------------
// HTTP
// ------------------------------------------------------------------------------------------------

#[derive(Clone, Debug, Serialize, Deserialize)]
pub struct HttpReq {
	pub method: String,
	pub headers: Vec<(String, Vec<u8>)>,
	pub frames: Vec<Vec<u8>>,
	pub content_length: bool,
	pub uri: String,
	/// the body ends with a trailers frame (chunked transfer with trailer fields, HTTP/2 trailers): no body bytes in it
	#[serde(default)]
	pub trailers: bool,
}

impl HttpReq {
	pub fn post_json(body: &[u8]) -> HttpReq {
		HttpReq {
			method: "POST".into(),
			headers: vec![("content-type".into(), b"application/json".to_vec())],
			frames: vec![body.to_vec()],
			content_length: true,
			uri: "/".into(),
			trailers: false,
		}
	}
}

#[derive(Clone, Debug, PartialEq)]
pub struct HttpResp {
	pub status: u16,
	pub body: Vec<u8>,
	pub content_type: Option<String>,
}

pub type FrameBody = http_body_util::StreamBody<futures_util::stream::Iter<std::vec::IntoIter<Result<http_body::Frame<Bytes>, Infallible>>>>;

pub fn frame_body(frames: &[Vec<u8>], trailers: bool) -> FrameBody {
	let mut v: Vec<Result<http_body::Frame<Bytes>, Infallible>> = frames.iter().map(|f| Ok(http_body::Frame::data(Bytes::from(f.clone())))).collect();
	if trailers {
		let mut h = ::http::HeaderMap::new();
		h.insert("x-checksum", ::http::HeaderValue::from_static("0"));
		v.push(Ok(http_body::Frame::trailers(h)));
	}
	http_body_util::StreamBody::new(futures_util::stream::iter(v))
}

pub fn build_request(req: &HttpReq) -> Result<::http::Request<FrameBody>, String> {
	let mut b = ::http::Request::builder().method(req.method.as_bytes()).uri(req.uri.as_str());
	for (k, v) in &req.headers {
		b = b.header(k.as_str(), v.as_slice());
	}
	if req.content_length {
		let n: usize = req.frames.iter().map(|f| f.len()).sum();
		b = b.header("content-length", n.to_string());
	}
	b.body(frame_body(&req.frames, req.trailers)).map_err(|e| e.to_string())
}

pub async fn http_call(svc: &mut Svc, req: HttpReq) -> HttpResp {
	let request = match build_request(&req) {
		Ok(r) => r,
		Err(e) => return HttpResp { status: 0, body: e.into_bytes(), content_type: None },
	};
	let resp = match svc.call(request).await {
		Ok(r) => r,
		Err(e) => return HttpResp { status: 599, body: e.to_string().into_bytes(), content_type: None },
	};
	let status = resp.status().as_u16();
	let content_type = resp.headers().get("content-type").and_then(|v| v.to_str().ok()).map(|s| s.to_string());
	let body = match resp.into_body().collect().await {
		Ok(c) => c.to_bytes().to_vec(),
		Err(e) => e.to_string().into_bytes(),
	};
	HttpResp { status, body, content_type }
}

// ------------------------------------------------------------------------------------------------
// WebSocket peer (raw soketto client; own reader task because soketto's receive is not cancel-safe)
// ------------------------------------------------------------------------------------------------

#[derive(Clone, Debug, PartialEq)]
pub enum WsEvent {
	Text(String),
	Binary(Vec<u8>),
	Closed,
	Error(String),
}

pub trait Io: tokio::io::AsyncRead + tokio::io::AsyncWrite + Send + Unpin {}
impl<T: tokio::io::AsyncRead + tokio::io::AsyncWrite + Send + Unpin> Io for T {}
pub type BoxIo = Box<dyn Io>;

/// The write half of a peer's stream, shared between the soketto sender and `WsPeer::send_raw`
#[derive(Clone)]
pub struct SharedW(Arc<Mutex<tokio::io::WriteHalf<BoxIo>>>);

impl tokio::io::AsyncWrite for SharedW {
	fn poll_write(self: std::pin::Pin<&mut Self>, cx: &mut std::task::Context<'_>, buf: &[u8]) -> std::task::Poll<std::io::Result<usize>> {
		std::pin::Pin::new(&mut *self.0.lock()).poll_write(cx, buf)
	}
	fn poll_flush(self: std::pin::Pin<&mut Self>, cx: &mut std::task::Context<'_>) -> std::task::Poll<std::io::Result<()>> {
		std::pin::Pin::new(&mut *self.0.lock()).poll_flush(cx)
	}
	fn poll_shutdown(self: std::pin::Pin<&mut Self>, cx: &mut std::task::Context<'_>) -> std::task::Poll<std::io::Result<()>> {
		std::pin::Pin::new(&mut *self.0.lock()).poll_shutdown(cx)
	}
}

struct Joined {
	r: tokio::io::ReadHalf<BoxIo>,
	w: SharedW,
}

impl tokio::io::AsyncRead for Joined {
	fn poll_read(mut self: std::pin::Pin<&mut Self>, cx: &mut std::task::Context<'_>, buf: &mut tokio::io::ReadBuf<'_>) -> std::task::Poll<std::io::Result<()>> {
		std::pin::Pin::new(&mut self.r).poll_read(cx, buf)
	}
}

impl tokio::io::AsyncWrite for Joined {
	fn poll_write(mut self: std::pin::Pin<&mut Self>, cx: &mut std::task::Context<'_>, buf: &[u8]) -> std::task::Poll<std::io::Result<usize>> {
		std::pin::Pin::new(&mut self.w).poll_write(cx, buf)
	}
	fn poll_flush(mut self: std::pin::Pin<&mut Self>, cx: &mut std::task::Context<'_>) -> std::task::Poll<std::io::Result<()>> {
		std::pin::Pin::new(&mut self.w).poll_flush(cx)
	}
	fn poll_shutdown(mut self: std::pin::Pin<&mut Self>, cx: &mut std::task::Context<'_>) -> std::task::Poll<std::io::Result<()>> {
		std::pin::Pin::new(&mut self.w).poll_shutdown(cx)
	}
}

/// One client-to-server WebSocket frame, masked with the all-zero key (so the payload bytes stay as given)
pub fn ws_frame(fin: bool, opcode: u8, payload: &[u8]) -> Vec<u8> {
	let mut f = vec![(if fin { 0x80 } else { 0 }) | (opcode & 0x0f)];
	match payload.len() {
		n if n < 126 => f.push(0x80 | n as u8),
		n if n < 65536 => {
			f.push(0x80 | 126);
			f.extend_from_slice(&(n as u16).to_be_bytes());
		}
		n => {
			f.push(0x80 | 127);
			f.extend_from_slice(&(n as u64).to_be_bytes());
		}
	}
	f.extend_from_slice(&[0, 0, 0, 0]);
	f.extend_from_slice(payload);
	f
}

pub struct WsPeer {
	/// raw access to the write side (hand-made frames)
	raw: Option<SharedW>,
	pub sender: Option<soketto::Sender<Compat<BoxIo>>>,
	pub events: mpsc::UnboundedReceiver<WsEvent>,
	reader: tokio::task::JoinHandle<()>,
	pub conn_task: tokio::task::JoinHandle<()>,
	pub read_gate: Arc<ReadGate>,
	pub seen: Vec<WsEvent>,
}

#[derive(Default)]
pub struct ReadGate {
	paused: Mutex<bool>,
	notify: Notify,
}

impl ReadGate {
	pub fn pause(&self) {
		*self.paused.lock() = true;
	}
	pub fn resume(&self) {
		*self.paused.lock() = false;
		self.notify.notify_waiters();
	}
	async fn wait(&self) {
		loop {
			let n = self.notify.notified();
			tokio::pin!(n);
			n.as_mut().enable();
			if !*self.paused.lock() {
				return;
			}
			n.await;
		}
	}
}

impl WsPeer {
	pub async fn connect(io: impl Io + 'static, conn_task: tokio::task::JoinHandle<()>) -> Result<WsPeer, String> {
		let io: BoxIo = Box::new(io);
		let (r, w) = tokio::io::split(io);
		let raw = SharedW(Arc::new(Mutex::new(w)));
		let io: BoxIo = Box::new(Joined { r, w: raw.clone() });
		let mut client = soketto::handshake::Client::new(io.compat(), "localhost", "/");
		match client.handshake().await {
			Ok(soketto::handshake::ServerResponse::Accepted { .. }) => {}
			Ok(soketto::handshake::ServerResponse::Rejected { status_code }) => return Err(format!("rejected:{status_code}")),
			Ok(soketto::handshake::ServerResponse::Redirect { status_code, .. }) => return Err(format!("redirect:{status_code}")),
			Err(e) => return Err(format!("handshake error: {e}")),
		}
		let mut b = client.into_builder();
		b.set_max_message_size(64 * 1024 * 1024);
		b.set_max_frame_size(64 * 1024 * 1024);
		let (sender, mut receiver) = b.finish();
		let (tx, rx) = mpsc::unbounded_channel();
		let read_gate = Arc::new(ReadGate::default());
		let rg = read_gate.clone();
		let reader = tokio::spawn(async move {
			loop {
				rg.wait().await;
				let mut buf = Vec::new();
				match receiver.receive_data(&mut buf).await {
					Ok(soketto::Data::Text(_)) => {
						let _ = tx.send(match String::from_utf8(buf) {
							Ok(s) => WsEvent::Text(s),
							Err(e) => WsEvent::Error(format!("non-utf8 text frame: {e}")),
						});
					}
					Ok(soketto::Data::Binary(_)) => {
						let _ = tx.send(WsEvent::Binary(buf));
					}
					Err(soketto::connection::Error::Closed) => {
						let _ = tx.send(WsEvent::Closed);
						break;
					}
					Err(e) => {
						let _ = tx.send(WsEvent::Error(e.to_string()));
						break;
					}
				}
			}
		});
		Ok(WsPeer { raw: Some(raw), sender: Some(sender), events: rx, reader, conn_task, read_gate, seen: vec![] })
	}

	pub async fn send_text(&mut self, s: &str) -> Result<(), String> {
		let sender = self.sender.as_mut().ok_or("closed")?;
		sender.send_text(s).await.map_err(|e| e.to_string())?;
		sender.flush().await.map_err(|e| e.to_string())
	}

	pub async fn send_binary(&mut self, b: &[u8]) -> Result<(), String> {
		let sender = self.sender.as_mut().ok_or("closed")?;
		sender.send_binary(b).await.map_err(|e| e.to_string())?;
		sender.flush().await.map_err(|e| e.to_string())
	}

	/// Write hand-made bytes straight to the stream (between two soketto messages)
	pub async fn send_raw(&mut self, bytes: &[u8]) -> Result<(), String> {
		use tokio::io::AsyncWriteExt;
		let mut w = self.raw.clone().ok_or("closed")?;
		w.write_all(bytes).await.map_err(|e| e.to_string())?;
		w.flush().await.map_err(|e| e.to_string())
	}

	/// One message sent as several frames: a first text/binary frame without FIN, continuation frames, FIN on the last
	pub async fn send_fragmented(&mut self, payload: &[u8], text: bool, cuts: &[usize]) -> Result<(), String> {
		let mut pos: Vec<usize> = cuts.iter().map(|c| (*c).min(payload.len())).collect();
		pos.sort();
		pos.dedup();
		let mut bounds = vec![0usize];
		bounds.extend(pos.into_iter().filter(|p| *p > 0 && *p < payload.len()));
		bounds.push(payload.len());
		let n = bounds.len() - 1;
		let mut out = vec![];
		for k in 0..n {
			let op = if k == 0 { if text { 1 } else { 2 } } else { 0 };
			out.extend(ws_frame(k + 1 == n, op, &payload[bounds[k]..bounds[k + 1]]));
		}
		self.send_raw(&out).await
	}

	/// Send bytes as a text frame when they are UTF-8 (and `prefer_text`), else as a binary frame.
	pub async fn send_bytes(&mut self, b: &[u8], prefer_text: bool) -> Result<(), String> {
		match std::str::from_utf8(b) {
			Ok(s) if prefer_text => self.send_text(s).await,
			_ => self.send_binary(b).await,
		}
	}

	/// Drain the events received so far (call after `settle()`).
	pub fn drain(&mut self) -> Vec<WsEvent> {
		let mut v = vec![];
		while let Ok(e) = self.events.try_recv() {
			v.push(e);
		}
		self.seen.extend(v.iter().cloned());
		v
	}

	pub fn drain_texts(&mut self) -> Vec<String> {
		self.drain()
			.into_iter()
			.map(|e| match e {
				WsEvent::Text(s) => s,
				other => format!("<<{other:?}>>"),
			})
			.collect()
	}

	/// clean close handshake from the peer
	pub async fn close(&mut self) {
		self.raw = None;
		if let Some(mut s) = self.sender.take() {
			let _ = s.close().await;
		}
	}

	/// the peer never reads again (so it never answers a ping either) but keeps its end of the stream open
	pub fn stop_reading(&mut self) {
		self.reader.abort();
	}

	/// abrupt drop: both halves go away without a close frame
	pub fn abort(&mut self) {
		self.raw = None;
		self.sender.take();
		self.reader.abort();
	}
}

impl Drop for WsPeer {
	fn drop(&mut self) {
		self.reader.abort();
	}
}

/// Parse a reply text into a serde_json value (None if not JSON).
pub fn parse_reply(s: &[u8]) -> Option<Value> {
	serde_json::from_slice(s).ok()
}
