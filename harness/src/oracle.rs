//! JSON-RPC reference classifier (spec-level reading of C01/C02) and the expected behaviour of the
//! harness handlers. Independent of the library's own request types.

use crate::fix::server::big_string;
use crate::json::*;
use serde_json::{Value, json};

#[derive(Clone, Debug, PartialEq)]
pub enum Class {
	/// first non-blank byte (within the 128-byte sniffing window) is not `{`/`[`, or the rest is not JSON
	NotJson,
	/// starts with `[`: a batch (C02)
	Batch,
	Call { id: J, method: String, params: Option<J> },
	Notification,
	/// object that is not a request but carries exactly one in-domain id
	InvalidWithId(J),
	InvalidNoId,
	/// JSON leaves it undefined / the library is documented lenient: only universal invariants apply
	Outside(&'static str),
}

pub fn id_in_domain(v: &J) -> bool {
	match v {
		J::Null | J::Str(_) => true,
		J::Num(t) => t.parse::<u64>().is_ok(),
		_ => false,
	}
}

/// Classify one JSON value that is a request-like object (used for single messages and batch entries).
pub fn classify_object(j: &J) -> Class {
	let J::Obj(_) = j else { return Class::InvalidNoId };
	if j.has_dup_keys_top() {
		return Class::Outside("duplicate member names");
	}
	// (the params member is handed on as raw text, so neither limit applies to what is inside it)
	let J::Obj(members) = j else { unreachable!() };
	let besides_params = J::Obj(members.iter().filter(|(k, _)| k != "params").cloned().collect());
	if !besides_params.numbers_in_range() {
		return Class::Outside("number outside serde_json's range");
	}
	if besides_params.depth() > 100 {
		return Class::Outside("nesting deeper than serde_json's recursion limit");
	}
	let version_ok = j.get("jsonrpc") == Some(&J::str("2.0"));
	let method = match j.get("method") {
		Some(J::Str(s)) => Some(s.clone()),
		_ => None,
	};
	let id = j.get("id");
	let id_ok = id.map(id_in_domain).unwrap_or(false);
	if version_ok && method.is_some() {
		if id_ok {
			Class::Call { id: id.unwrap().clone(), method: method.unwrap(), params: j.get("params").cloned() }
		} else {
			Class::Notification
		}
	} else if id_ok {
		Class::InvalidWithId(id.unwrap().clone())
	} else {
		Class::InvalidNoId
	}
}

/// Classify a whole message as delivered to the server.
pub fn classify_message(bytes: &[u8]) -> Class {
	let first = bytes.iter().enumerate().take(128).find(|(_, b)| !b.is_ascii_whitespace());
	let Some((idx, b)) = first else { return Class::NotJson };
	if bytes[..idx].contains(&0x0c) {
		return Class::Outside("leading form feed (ASCII blank but not JSON whitespace)");
	}
	match b {
		b'{' => {}
		b'[' => return Class::Batch,
		_ => return Class::NotJson,
	}
	match parse_strict(&bytes[idx..]) {
		Err(JsonErr(_, "lone surrogate")) => Class::Outside("lone surrogate escape"),
		Err(JsonErr(_, "invalid utf-8")) => Class::Outside("not UTF-8"),
		Err(_) => Class::NotJson,
		Ok(j) => classify_object(&j),
	}
}

#[derive(Clone, Debug, PartialEq)]
pub enum Payload {
	Result(Value),
	/// error with exactly this object
	Error { code: i32, message: Option<String>, data: Option<Option<Value>> },
	/// handler blocks / subscription machinery: not judged by this oracle
	Skip,
	/// a registered subscribe / unsubscribe name: what is answered depends on the transport and on the handler actors, but
	/// the name is bound, so the answer is never "method not found"
	Bound,
}

fn err_code(code: i32) -> Payload {
	Payload::Error { code, message: None, data: None }
}

/// What the harness handler `method` returns for `params` (None = absent).
pub fn expected_payload(method: &str, params: Option<&J>) -> Payload {
	let text = params.map(|p| p.compact()).unwrap_or_else(|| "null".to_string());
	let (base, _kind) = match method.rsplit_once('_') {
		Some((b, k)) if ["sync", "async", "blocking"].contains(&k) => (b, k),
		_ => (method, ""),
	};
	if !crate::fix::server::is_registered_call(method) {
		if ["sub_a", "sub_b", "unsub_a", "unsub_b", "sub_r", "unsub_r"].contains(&method) {
			return Payload::Bound;
		}
		return err_code(-32601);
	}
	match base {
		"echo" => match serde_json::from_str::<Value>(&text) {
			Ok(v) => Payload::Result(v),
			Err(_) => err_code(-32602),
		},
		"typed" => match serde_json::from_str::<(u64, String)>(&text) {
			Ok((n, s)) => Payload::Result(json!({"n": n, "s": s})),
			Err(_) => err_code(-32602),
		},
		"fail" => {
			let Some(J::Arr(a)) = params else { return err_code(-32602) };
			if a.len() < 2 {
				return err_code(-32602);
			}
			let Ok(code) = serde_json::from_str::<i32>(&a[0].compact()) else { return err_code(-32602) };
			let Ok(msg) = serde_json::from_str::<String>(&a[1].compact()) else { return err_code(-32602) };
			let data = match a.get(2) {
				None => None,
				Some(d) => match serde_json::from_str::<Option<Value>>(&d.compact()) {
					Ok(d) => d,
					Err(_) => return err_code(-32602),
				},
			};
			Payload::Error { code, message: Some(msg), data: Some(data) }
		}
		"big" => {
			let Some(J::Arr(a)) = params else { return err_code(-32602) };
			if a.len() < 2 {
				return err_code(-32602);
			}
			let Ok(len) = serde_json::from_str::<usize>(&a[0].compact()) else { return err_code(-32602) };
			let Ok(kind) = serde_json::from_str::<u8>(&a[1].compact()) else { return err_code(-32602) };
			let prefix = match a.get(2) {
				None => None,
				Some(p) => match serde_json::from_str::<Option<usize>>(&p.compact()) {
					Ok(p) => p,
					Err(_) => return err_code(-32602),
				},
			};
			if len > 4_000_000 || prefix.unwrap_or(0) > 4_000_000 {
				return err_code(-32602);
			}
			let mut s = "a".repeat(prefix.unwrap_or(0));
			s.push_str(&big_string(len, kind));
			Payload::Result(Value::String(s))
		}
		// the handler succeeds but its value cannot be serialised: an internal error that still carries the call's id
		"unser" => err_code(-32603),
		// what the transport attached to the request reaches the handler, on every route
		"ext" => Payload::Result(json!({"ext": true})),
		"gated" => Payload::Skip,
		_ if method == "blocking_panic" => err_code(-32603),
		_ => Payload::Skip,
	}
}

/// Universal shape of a reply object; returns a description of the first problem.
pub fn reply_shape_problem(v: &Value) -> Option<String> {
	let Value::Object(o) = v else { return Some("reply is not an object".into()) };
	if o.get("jsonrpc") != Some(&Value::String("2.0".into())) {
		return Some("jsonrpc != \"2.0\"".into());
	}
	match o.get("id") {
		Some(Value::Null) | Some(Value::String(_)) => {}
		Some(Value::Number(n)) if n.is_u64() => {}
		_ => return Some("missing or out-of-domain id".into()),
	}
	let r = o.contains_key("result");
	let e = o.contains_key("error");
	if r == e {
		return Some("not exactly one of result/error".into());
	}
	if let Some(e) = o.get("error") {
		let ok = e.get("code").is_some_and(|c| c.is_i64()) && e.get("message").is_some_and(|m| m.is_string());
		if !ok {
			return Some("malformed error object".into());
		}
	}
	for k in o.keys() {
		if !["jsonrpc", "id", "result", "error"].contains(&k.as_str()) {
			return Some(format!("unexpected member {k}"));
		}
	}
	None
}

/// Equality of JSON values where numbers outside the integer range are compared as doubles up to a few ULPs:
/// without its `float_roundtrip` feature serde_json reads a long literal to a neighbouring double, so a number that
/// went text -> handler -> text -> harness may come back one ULP away from the harness's own reading of the text.
pub fn value_eq(a: &Value, b: &Value) -> bool {
	match (a, b) {
		(Value::Number(x), Value::Number(y)) => {
			if x == y {
				return true;
			}
			if (x.is_u64() || x.is_i64()) && (y.is_u64() || y.is_i64()) {
				return false;
			}
			match (x.as_f64(), y.as_f64()) {
				(Some(p), Some(q)) => p == q || (p - q).abs() <= 4.0 * f64::EPSILON * p.abs().max(q.abs()),
				_ => false,
			}
		}
		(Value::Array(x), Value::Array(y)) => x.len() == y.len() && x.iter().zip(y).all(|(p, q)| value_eq(p, q)),
		(Value::Object(x), Value::Object(y)) => x.len() == y.len() && x.iter().all(|(k, p)| y.get(k).is_some_and(|q| value_eq(p, q))),
		_ => a == b,
	}
}

/// Does `reply` carry `payload`? (id is checked by the caller)
pub fn payload_matches(reply: &Value, payload: &Payload) -> Result<(), String> {
	match payload {
		Payload::Skip => Ok(()),
		Payload::Bound => {
			if reply.get("error").and_then(|e| e.get("code")).and_then(|c| c.as_i64()) == Some(-32601) {
				Err("the method name is registered (a subscription): 'method not found' is the one answer it cannot get".into())
			} else {
				Ok(())
			}
		}
		Payload::Result(v) => {
			if reply.get("result").is_some_and(|r| value_eq(r, v)) {
				Ok(())
			} else {
				Err(format!("expected result {}", crate::engine::truncate(&v.to_string(), 300)))
			}
		}
		Payload::Error { code, message, data } => {
			let Some(e) = reply.get("error") else { return Err(format!("expected error {code}")) };
			if e.get("code").and_then(|c| c.as_i64()) != Some(*code as i64) {
				return Err(format!("expected error code {code}"));
			}
			if let Some(m) = message {
				if e.get("message").and_then(|x| x.as_str()) != Some(m.as_str()) {
					return Err(format!("expected error message {m:?}"));
				}
			}
			if let Some(d) = data {
				if !(match (e.get("data"), d.as_ref()) { (Some(x), Some(y)) => value_eq(x, y), (None, None) => true, _ => false }) {
					return Err(format!("expected error data {d:?}"));
				}
			}
			Ok(())
		}
	}
}
