use std::time::Duration;
use vh::engine::Tier;

fn usage() -> ! {
	eprintln!("usage: verif check <CNN> [--tier quick|thorough] | verif replay <file> | verif list");
	std::process::exit(2)
}

fn main() {
	let args: Vec<String> = std::env::args().collect();
	if args.len() < 2 {
		usage();
	}
	vh::panics::install();
	match args[1].as_str() {
		"list" => {
			for e in vh::registry() {
				println!("{}", e.id);
			}
		}
		"check" => {
			let id = args.get(2).cloned().unwrap_or_else(|| usage());
			let mut tier = match std::env::var("VERIF_TIER").as_deref() {
				Ok("thorough") => Tier::Thorough,
				_ => Tier::Quick,
			};
			let mut i = 3;
			while i < args.len() {
				if args[i] == "--tier" {
					tier = match args.get(i + 1).map(|s| s.as_str()) {
						Some("thorough") => Tier::Thorough,
						Some("quick") => Tier::Quick,
						_ => usage(),
					};
					i += 1;
				}
				i += 1;
			}
			let seed: u64 = std::env::var("VERIF_SEED").ok().and_then(|s| s.parse().ok()).unwrap_or(20260925);
			// watchdog: a hang or an exhausted budget is inconclusive (exit 2), never a violation
			let budget = std::env::var("VERIF_WALL_BUDGET_S").ok().and_then(|s| s.parse().ok()).unwrap_or(match tier {
				Tier::Quick => 1500u64,
				Tier::Thorough => 6 * 3600,
			});
			let idc = id.clone();
			std::thread::spawn(move || {
				std::thread::sleep(Duration::from_secs(budget));
				println!("INCONCLUSIVE property={idc}: wall budget of {budget}s exhausted (hang or too slow); not a violation");
				std::process::exit(2);
			});
			let code = vh::run_check(&id, tier, seed);
			std::process::exit(code);
		}
		"replay" => {
			let path = args.get(2).cloned().unwrap_or_else(|| usage());
			let file = vh::engine::read_json_file(std::path::Path::new(&path));
			if let Some(t) = file["subcheck"].as_str().and_then(|s| s.strip_prefix("fuzz:")) {
				let bytes = std::fs::read(file["bytes_file"].as_str().unwrap_or("")).unwrap_or_default();
				let r = match t {
					"c01_server_msg" => vh::props::c01::bytes_oracle(&bytes),
					"c09_client_rx" => vh::props::c09::bytes_oracle(&bytes),
					"c15_response" => vh::props::c15::response_bytes_oracle(&bytes),
					"c16_params" => vh::props::c16::params_bytes_oracle(&bytes),
					"c14_host" => [&["example.com:8080", "*.web3.site:*"][..], &["https://a.example.com"][..], &["localhost:*", "127.0.0.1:9944", "[::1]:80"][..]].iter().find_map(|a| vh::props::c14::host_bytes_oracle(a, &bytes)),
					_ => None,
				};
				match r {
					Some(d) => {
						println!("replay: FAIL fuzz/{t} — {d}");
						std::process::exit(1)
					}
					None => {
						println!("replay: PASS (no failure)");
						std::process::exit(0)
					}
				}
			}
			for e in vh::registry() {
				if file["property"].as_str() == Some(e.id) {
					match (e.replay)(&file) {
						Some(code) => std::process::exit(code),
						None => {
							eprintln!("no sub-check named {} in {}", file["subcheck"], e.id);
							std::process::exit(2)
						}
					}
				}
			}
			eprintln!("unknown property in replay file");
			std::process::exit(2)
		}
		_ => usage(),
	}
}
