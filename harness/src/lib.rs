//! Verification harness for the jsonrpsee properties C01–C20 (property-based testing + fuzzing).
#![allow(clippy::type_complexity)]

pub mod engine;
pub mod fix;
pub mod json;
pub mod oracle;
pub mod props;

use engine::{Ctx, Tier};

pub struct PropEntry {
	pub id: &'static str,
	pub level: &'static str,
	pub check: fn(&mut Ctx),
	pub replay: fn(&serde_json::Value) -> Option<i32>,
}

pub fn registry() -> Vec<PropEntry> {
	props::registry()
}

/// Quiet panic hook: panics are expected inside catch_unwind regions of the oracles; messages are
/// kept per thread so checks (C09) can count background-task panics.
pub mod panics {
	use std::cell::RefCell;
	use std::sync::atomic::{AtomicU64, Ordering};
	thread_local! {
		pub static LOCAL: RefCell<Vec<String>> = const { RefCell::new(Vec::new()) };
	}
	pub static GLOBAL: AtomicU64 = AtomicU64::new(0);
	pub fn install() {
		let verbose = std::env::var("VERIF_VERBOSE").is_ok();
		std::panic::set_hook(Box::new(move |info| {
			GLOBAL.fetch_add(1, Ordering::SeqCst);
			let msg = format!("{info}");
			if verbose {
				eprintln!("[panic] {msg}");
			}
			let _ = LOCAL.try_with(|l| {
				if let Ok(mut l) = l.try_borrow_mut() {
					if l.len() < 64 {
						l.push(msg);
					}
				}
			});
		}));
	}
	pub fn take_local() -> Vec<String> {
		LOCAL.with(|l| std::mem::take(&mut *l.borrow_mut()))
	}
	pub fn clear_local() {
		LOCAL.with(|l| l.borrow_mut().clear());
	}
}

pub fn run_check(id: &str, tier: Tier, seed: u64) -> i32 {
	let reg = registry();
	let Some(e) = reg.iter().find(|e| e.id == id) else {
		eprintln!("unknown property {id}");
		return 2;
	};
	let mut ctx = Ctx::new(e.id, tier, seed, e.level);
	(e.check)(&mut ctx);
	ctx.finish()
}
