#![no_main]
use libfuzzer_sys::fuzz_target;
fuzz_target!(|data: &[u8]| {
	for allow in [&["example.com:8080", "*.web3.site:*"][..], &["https://a.example.com"][..], &["localhost:*", "127.0.0.1:9944", "[::1]:80"][..]] {
		if let Some(d) = vh::props::c14::host_bytes_oracle(allow, data) {
			panic!("C14 oracle: {d}");
		}
	}
});
