#![no_main]
use libfuzzer_sys::fuzz_target;
fuzz_target!(|data: &[u8]| {
	if let Some(d) = vh::props::c15::response_bytes_oracle(data) {
		panic!("C15 oracle: {d}");
	}
});
