#![no_main]
use libfuzzer_sys::fuzz_target;
fuzz_target!(|data: &[u8]| {
	if let Some(d) = vh::props::c09::bytes_oracle(data) {
		panic!("C09 oracle: {d}");
	}
});
