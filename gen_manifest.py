#!/usr/bin/env python3
"""Regenerates MANIFEST.json from the table below (kept in one place so it stays valid and current)."""
import json, os
root=os.path.dirname(os.path.abspath(__file__))
props=[json.loads(l) for l in open(f'{root}/properties.jsonl')]
# id -> (level, level text, design ref, technique, level note)
META={
 "C15":("exploration","Generated wire values and generated response texts are checked against an independent strict JSON reader, a round trip and the stated acceptance predicate; all 2^32 error codes are enumerated. Exploration of an infinite value space: no absence claim beyond the exhaustive i32 part.","4/C15","proptest round-trip + differential vs own strict JSON reader; exhaustive i32 enumeration","serde_json semantics trusted; malformed error objects inside responses are not judged; request params `null` (not a JSON-RPC params value) excluded"),
 "C16":("exploration","Params texts are constructed so that every array element's exact source text is known; each typed read through the library is compared with serde_json::from_str of that text, over generated read plans. Sampled exploration of texts x plans.","4/C16","proptest differential vs plain serde_json parse on constructed texts","serde_json::from_str is the reference parse"),
 "C20":("exploration","Insert sequences (incl. values whose Serialize fails midway and clones of half-built builders) are applied to both builders; the emitted text is re-read by an independent reader and compared with the to_value images of the successful inserts; all tuple arities and blanket impls are covered.","4/C20","proptest operation sequences + round-trip through own JSON reader","serde_json::to_value is the reference image; a builder whose only inserts failed may give None or an empty container"),
 "C01":("exploration","Every generated message (constructed requests x mutators, token/member enumerations, arbitrary bytes) is sent through the real tower service (HTTP) and through a real hyper+soketto WebSocket connection in memory, and judged by an independent JSON-RPC classifier and a model of the harness handlers; member and token enumerations are exhaustive up to a small length, everything else is sampled.","4/C01","proptest + bounded exhaustive enumeration; differential vs own JSON-RPC classifier over own strict JSON reader; HTTP==WS metamorphic relation","in-memory transports (no TCP); duplicate member names / non-UTF-8 / lone surrogates / form feeds / >127 leading blanks get only the universal invariants; serde_json, hyper, soketto, tokio paused-clock idleness trusted"),
 "C02":("exploration","Generated batches (all entry classes, all permutations of small batches, all batch configurations, both transports, subscription entries driven by handler actors) are judged entry by entry: classification by an independent classifier, expected replies from a handler model and from sending the same entry alone, bipartite matching of replies to entries, invocation-log multiset. Sampled exploration.","4/C02","proptest + permutation enumeration of small batches; model + metamorphic (entry alone == entry in batch) oracle","reply order not required; entries with duplicate member names only get universal invariants; in-memory transports"),
 "C19":("exploration","HTTP requests are fed to the real tower service with the body as an explicit frame sequence: the method / content-type gates are checked against a reference reading of the six accepted spellings, and every accepted request is compared (status and body) with the same bytes sent as one chunk with Content-Length; all cut pairs of a set of short bodies are enumerated, other cuts sampled.","4/C19","proptest + exhaustive cut enumeration of short bodies; metamorphic relation (any framing == single chunk)","requests the http crate refuses to build are skipped; hyper's own wire-level chunk decoding is not in the loop (frames are injected above it)"),
}
HOOK_COMMITS=["f958b76"]
NOT_BUILT="check not built yet in this session (work in progress; DESIGN.md section 9 gives the order)"
NA={}
built=sorted(META)
checks=[]
for p in props:
    i=p['id']
    if i in META:
        lv,txt,ref,tech,note=META[i]
        checks.append({"property_id":i,"quick_cmd":f"./check.sh {i} quick","thorough_cmd":f"./check.sh {i} thorough","evidence_file":f"/verif/evidence/{i}.json","replay_cmd_template":"./harness/target/release/verif replay {path}","engine":"harness","level_claimed":{"category":lv,"text":txt,"design_ref":ref},"level_note":note,"technique":tech})
m={"version":1,
 "setup_cmd":"cd /verif/harness && CARGO_NET_OFFLINE=true cargo build --release --offline",
 "hooks":{"guard":"cargo feature `verif-hooks` of jsonrpsee-core (off by default)","enable":"the harness crate depends on /repo/core with features=[\"verif-hooks\"] (its default feature `hooks`); check.sh falls back to --no-default-features if that build fails","baseline_off_cmd":"/verif/baseline.sh","source_commits":HOOK_COMMITS,"add_only":True},
 "engines":[{"name":"harness","path":"/verif/harness","serves_properties":built,"kind_free_text":"Rust binary `verif`: sharded proptest TestRunner (seed = f(VERIF_SEED, sub-check, shard)), explicit oracles, shrinking, replay files, evidence writer; thorough tiers add cargo-fuzz (libFuzzer) campaigns through the same oracle functions"}],
 "checks":checks,
 "notes":"Every check: ./check.sh <id> <tier> rebuilds the harness against /repo's working tree (path dependencies) and runs it. exit 2 = inconclusive (build failure, hang, budget). Known findings: /verif/known_findings.json.",
 "not_applicable":[{"property_id":p['id'],"reason":NA.get(p['id'],NOT_BUILT)} for p in props if p['id'] not in META]}
json.dump(m,open(f'{root}/MANIFEST.json','w'),indent=1)
print("wrote MANIFEST.json:",len(checks),"checks")
