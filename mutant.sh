#!/bin/bash
# mutant.sh <patch.diff> <CNN> [CNN...]   — apply a patch to /repo, run the quick checks, ALWAYS undo the patch afterwards.
# Output: one line per check "CNN exit=<code> <first VIOLATION line or summary>"
set -u
PATCH=$(readlink -f "$1"); shift
cd /repo || exit 2
if [ -n "$(git status --porcelain --untracked-files=no)" ]; then echo "/repo is not clean; refusing"; exit 2; fi
if ! git apply --check "$PATCH" 2>/dev/null; then echo "patch does not apply: $PATCH"; exit 2; fi
git apply "$PATCH"
trap 'cd /repo && git apply -R "$PATCH" 2>/dev/null; git checkout -- . 2>/dev/null' EXIT
for ID in "$@"; do
	rm -rf /tmp/mutant_verif_root; mkdir -p /tmp/mutant_verif_root; cp /verif/known_findings.json /tmp/mutant_verif_root/; ln -s /verif/corpus /tmp/mutant_verif_root/corpus 2>/dev/null
	OUT=$(VERIF_ROOT_OVERRIDE=/tmp/mutant_verif_root /verif/check.sh "$ID" ${TIER:-quick} 2>&1)
	RC=$?
	echo "$ID exit=$RC $(echo "$OUT" | grep -m1 -E 'VIOLATION|INCONCLUSIVE' || echo "$OUT" | tail -1)"
	echo "$OUT" | grep -E "violation in" | head -3 | cut -c1-400
done
