#!/bin/bash
# seedeval.sh <ID> <N>: confirm a seeded change from /tmp/seed/<ID>/seed_out/<N> in a scratch worktree:
#  (1) patch applies at /repo HEAD, (2) demo passes without / fails with the patch, (3) the existing suite passes with the patch.
# Writes /tmp/seedeval/<ID>_<N>.summary (one line) and .log
ID=$1; N=$2
SRC=${SEEDROOT:-/tmp/seed}/$ID/seed_out/$N
OUT=${EVALOUT:-/tmp/seedeval}/${ID}_$N
CF=${CONFIRM:-/tmp/confirm}
WT=$CF/repo
export CARGO_TARGET_DIR=${CONFIRM:-/tmp/confirm}/target CARGO_INCREMENTAL=0 CARGO_NET_OFFLINE=true
exec >$OUT.log 2>&1
set -x
if [ ! -d $WT ]; then mkdir -p $CF; git -C /repo worktree add -q --detach $WT HEAD || exit 2; fi
cd $WT && git reset -q --hard && git checkout -q --detach $(git -C /repo rev-parse HEAD) && git reset -q --hard && git clean -fdq
PATCH=$SRC/${PATCHNAME:-patch.diff}
if ! git apply --check $PATCH; then
	echo "$ID/$N patch_applies=NO" > $OUT.summary; exit 0
fi
# demo placement: from demo.md, default tests/tests/
DEMO=$(ls $SRC/*.rs | head -1)
DEST=tests/tests
PKG=jsonrpsee-integration-tests
if grep -q "types/tests" $SRC/demo.md 2>/dev/null; then DEST=types/tests; PKG=jsonrpsee-types; fi
if grep -q "core/tests" $SRC/demo.md 2>/dev/null; then DEST=core/tests; PKG=jsonrpsee-core; fi
if grep -q "server/tests" $SRC/demo.md 2>/dev/null; then DEST=server/tests; PKG=jsonrpsee-server; fi
if grep -q "proc-macros/tests" $SRC/demo.md 2>/dev/null; then DEST=proc-macros/tests; PKG=jsonrpsee-proc-macros; fi
mkdir -p $DEST
TEST=$(basename $DEMO .rs)
cp $SRC/*.rs $DEST/
FEAT=""
if [ $PKG = jsonrpsee-core ]; then FEAT="--features server,client,async-client,http-helpers,verif-hooks"; fi
timeout 1500 cargo test -p $PKG --offline $FEAT --test $TEST > $OUT.demo_clean.log 2>&1; RC_CLEAN=$?
git apply ${APPLY:-} $PATCH
timeout 1500 cargo test -p $PKG --offline $FEAT --test $TEST > $OUT.demo_patched.log 2>&1; RC_PATCHED=$?
# existing suite with the patch (demo files removed)
for f in $SRC/*.rs; do rm -f $DEST/$(basename $f); done
rm -f $CF/repo/target/nextest/pb/junit.xml
timeout 2400 cargo nextest run --workspace --no-fail-fast --tool-config-file pb:/w/lib/nextest.toml --profile pb --test-threads 8 --offline > $OUT.suite.log 2>&1
SUITE=$(python3 - <<'PY'
import json, xml.etree.ElementTree as ET
base=set(json.load(open('/root/.vp/BASELINE.json'))['stable_pass'])
try:
    import os; t=ET.parse(os.environ.get('CONFIRM','/tmp/confirm')+'/repo/target/nextest/pb/junit.xml').getroot()
except Exception as e:
    print("NOJUNIT"); raise SystemExit
ok=set()
for ts in t.iter('testsuite'):
    for tc in ts.iter('testcase'):
        if not any(c.tag in ('failure','error') for c in tc): ok.add(f"{tc.get('classname')}::{tc.get('name')}")
missing=sorted(base-ok)
print(f"{len(base&ok)}/{len(base)}" + ("" if not missing else " MISSING:"+",".join(missing[:3])))
PY
)
git reset -q --hard && git clean -fdq
echo "$ID/$N patch_applies=yes demo_clean_rc=$RC_CLEAN demo_patched_rc=$RC_PATCHED suite_with_patch=$SUITE" > $OUT.summary
