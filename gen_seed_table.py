#!/usr/bin/env python3
"""Print the DESIGN.md table rows for the seeded changes of one round (from seeded/index.json)."""
import json, sys
rnd = int(sys.argv[1]) if len(sys.argv) > 1 else 2
idx = json.load(open('/verif/seeded/index.json'))
print('| seed | change | caught by | signature | first missed? |')
print('|---|---|---|---|---|')
for e in idx:
    if e.get('round', 1) != rnd:
        continue
    t = (e['title'] or '').replace('|', '\\|').replace('\n', ' ')
    print(f"| {e['seed']} | {t} | {e['detected_by']} | {e['signatures'].replace('|','/')} | {(e.get('history') or '-').replace('|','/')} |")
