#!/bin/bash
# seedcheck.sh [CNN/n ...] — run the quick checks against the seeded changes kept in /verif/seeded (default: all of them).
# Uses msweep.sh: the patch is applied to a scratch worktree of /repo (never to /repo itself) and a scratch copy of the
# harness is built against it. One line per seed: which check was run and whether it reported a violation.
cd "$(dirname "$0")"
SEEDS=${@:-$(python3 -c "import json;print(' '.join(e['seed'] for e in json.load(open('seeded/index.json'))))")}
for s in $SEEDS; do
	CHECKS=$(python3 -c "
import json,sys,re
e=[e for e in json.load(open('seeded/index.json')) if e['seed']=='$s'][0]
print(' '.join(re.findall(r'C\d\d', e['detected_by'])))")
	echo "=== $s -> $CHECKS"
	./msweep.sh seeded/$s/patch.diff $CHECKS 2>&1 | cut -c1-300 | grep -E "exit=|does not apply"
done
