#!/bin/bash
# Runs the repository's own test suite (hooks OFF) the way BASELINE.json does and compares with its stable_pass list.
# usage: baseline.sh [repo_dir]   (default /repo)
REPO=${1:-/repo}
cd "$REPO" || exit 2
export CARGO_NET_OFFLINE=true
OUT=$(mktemp -d /tmp/baseline.XXXXXX)
cargo nextest run --workspace --no-fail-fast --tool-config-file pb:/w/lib/nextest.toml --profile pb --test-threads 8 --offline >"$OUT/log" 2>&1
J="$REPO/target/nextest/pb/junit.xml"
python3 - "$J" <<'PY'
import sys, json, xml.etree.ElementTree as ET
base=json.load(open('/root/.vp/BASELINE.json'))
want=set(base['stable_pass'])
t=ET.parse(sys.argv[1]).getroot()
passed=set(); failed=set()
for ts in t.iter('testsuite'):
    for tc in ts.iter('testcase'):
        cls=tc.get('classname'); name=tc.get('name')
        # classname like "jsonrpsee-types" or "jsonrpsee-integration-tests::integration_tests"
        full=f"{cls}::{name}"
        bad = any(c.tag in ('failure','error') for c in tc)
        (failed if bad else passed).add(full)
missing = sorted(w for w in want if w not in passed)
print(f"baseline: {len(want & passed)}/{len(want)} stable tests pass; other failures: {sorted(failed - want)[:5]}")
if missing:
    print("MISSING/FAILED:", *missing, sep="\n  ")
    sys.exit(1)
PY
rc=$?
rm -rf "$OUT"
exit $rc
