#!/usr/bin/env python3
"""store_seeds.py <seed root> <seedeval output dir> <number offset> <round> <sweep log[,sweep log...]> <history json>
Stores confirmed seeded changes of one round under /verif/seeded/<ID>/<offset+n>/ (patch, demo, meta.json with the confirmation
summary of seedeval.sh and the catching check + signature parsed from msweep.sh logs) and rewrites seeded/index.json.
A seed no check caught is stored only if the history json has an entry "<ID>/<n>:uncaught" saying why."""
import json, os, shutil, glob, subprocess, re, sys
HEAD=subprocess.run(['git','-C','/repo','rev-parse','--short','HEAD'],capture_output=True,text=True).stdout.strip()
ROOT=sys.argv[1]; EVAL=sys.argv[2]; OFFSET=int(sys.argv[3]); ROUND=int(sys.argv[4]); LOGS=sys.argv[5].split(','); HIST=json.load(open(sys.argv[6]))
# parse sweep logs: the later log wins per (seed, check)
res={}
for lg in LOGS:
    cur=None
    for l in open(lg):
        m=re.match(r'== (C\d\d/\d+)',l)
        if m: cur=m.group(1); continue
        m=re.match(r'(C\d\d) exit=(\d)(.*)',l)
        if m and cur:
            chk,rc,rest=m.groups()
            sig=None
            mm=re.search(r'replay=\S*/C\d\d-(.+)-[0-9a-f]{8}\.json',rest)
            if mm: sig=mm.group(1).replace('_','/',1)
            res.setdefault(cur,{})[chk]=(int(rc),sig)
idxp='/verif/seeded/index.json'
index=[e for e in json.load(open(idxp)) if e.get('round',1)!=ROUND]
bad=[]
for key in sorted(res):
    pid,n=key.split('/')
    src=f'{ROOT}/{pid}/seed_out/{n}'
    if not os.path.exists(f'{src}/patch.diff'): continue
    sp=f'{EVAL}/{pid}_{n}.summary'
    if not os.path.exists(sp): bad.append((key,'no summary')); continue
    summ=open(sp).read().strip()
    if not ('demo_clean_rc=0' in summ and 'demo_patched_rc=101' in summ and 'suite_with_patch=281/281' in summ): bad.append((key,summ)); continue
    catchers=[(c,s) for c,(rc,s) in res[key].items() if rc==1]
    silent=[c for c,(rc,s) in res[key].items() if rc==0]
    uncaught=HIST.get(key+':uncaught')
    if not catchers and not uncaught: bad.append((key,'not caught')); continue
    # own check first
    catchers.sort(key=lambda cs:(cs[0]!=pid,cs[0]))
    chk=' and '.join(c for c,_ in catchers) if catchers else 'none'
    sig='; '.join(s for _,s in catchers if s) if catchers else uncaught
    if silent: sig+=' (%s silent)'%', '.join(silent)
    hist=HIST.get(key)
    m=int(n)+OFFSET
    dst=f'/verif/seeded/{pid}/{m}'
    os.makedirs(dst,exist_ok=True)
    meta=json.load(open(f'{src}/meta.json'))
    for f in glob.glob(f'{src}/*.rs')+glob.glob(f'{src}/*.diff')+[f'{src}/demo.md']:
        if os.path.exists(f): shutil.copy(f,dst)
    meta['round']=ROUND
    meta['confirmed']={'at_repo_head':HEAD,'how':'/verif/seedeval.sh in a scratch worktree of /repo: patch applies; demo passes without and fails with the patch; the 281 baseline tests pass with the patch applied and the demo removed','result':summ,'patch_note':"patch.diff is the agent's diff unchanged (demo file names are those of the agent's round: seed_demo_%s.rs)"%n}
    meta['detected_by']={'check':chk,'tier':'quick','signatures':sig,'how':'/verif/msweep.sh <patch> <check>; exit 1 with a VIOLATION line; the same check exits 0 on the unpatched tree'}
    if hist: meta['history']=hist
    json.dump(meta,open(f'{dst}/meta.json','w'),indent=1)
    index.append({'seed':f'{pid}/{m}','round':ROUND,'title':meta.get('title'),'needs_to_manifest':meta.get('needs_to_manifest'),'detected_by':chk,'signatures':sig,'history':hist})
index.sort(key=lambda e:(e['seed'].split('/')[0],int(e['seed'].split('/')[1])))
json.dump(index,open(idxp,'w'),indent=1)
print(len(index),'entries; problems:',bad)
